#!/bin/sh
# seedverify.sh <ID>: in /tmp/seed/<ID>/repo run meta.demo_cmd with the patch (must fail) and without it (must pass).
# (no git stash: refs/stash is shared by all worktrees of a repository and concurrent users swap each other's changes)
ID=$1
export GOPROXY=off GOSUMDB=off GOTOOLCHAIN=local
cd /tmp/seed/$ID/repo || exit 3
CMD=$(python3 -c "import json;print(json.load(open('/tmp/seed/$ID/meta.json'))['demo_cmd'])")
echo "demo_cmd: $CMD"
git checkout -q -- . && git apply /tmp/seed/$ID/patch.diff || exit 3
sh -c "$CMD" >/tmp/seed/$ID/with.log 2>&1; W=$?
git apply -R /tmp/seed/$ID/patch.diff || exit 3
sh -c "$CMD" >/tmp/seed/$ID/without.log 2>&1; WO=$?
git apply /tmp/seed/$ID/patch.diff
echo "with patch rc=$W (want !=0); without rc=$WO (want 0)"
tail -3 /tmp/seed/$ID/with.log
