#!/bin/sh
# seedverify.sh <ID>: in /tmp/seed/<ID>/repo run meta.demo_cmd with the patch (must fail) and without it (must pass)
ID=$1
export GOPROXY=off GOSUMDB=off GOTOOLCHAIN=local
cd /tmp/seed/$ID/repo || exit 3
CMD=$(python3 -c "import json;print(json.load(open('/tmp/seed/$ID/meta.json'))['demo_cmd'])")
echo "demo_cmd: $CMD"
git diff --quiet && git apply /tmp/seed/$ID/patch.diff
sh -c "$CMD" >/tmp/seed/$ID/with.log 2>&1; W=$?
git stash -q
sh -c "$CMD" >/tmp/seed/$ID/without.log 2>&1; WO=$?
git stash pop -q
echo "with patch rc=$W (want !=0); without rc=$WO (want 0)"
tail -3 /tmp/seed/$ID/with.log
