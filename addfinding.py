#!/usr/bin/env python3
"""addfinding.py property key status commit 'what' -> appends to known_findings.json"""
import json, sys
p = '/verif/known_findings.json'
d = json.load(open(p))
prop, key, status, commit, what = sys.argv[1:6]
e = {"property": prop, "key": key, "status": status, "what": what}
if status == "fixed":
    e["commit"] = commit
    e["line"] = "fixed: property=%s %s %s" % (prop, commit, what)
d["findings"].append(e)
json.dump(d, open(p, 'w'), indent=1)
