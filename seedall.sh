#!/bin/sh
# seedall.sh [names...]: regression over the stored seeded changes: each is applied in its own scratch worktree and its
# check must report at least one VIOLATION (exit status 1 of vcheck). /repo and the committed evidence are not touched.
cd /verif
NAMES=${@:-$(ls seeded)}
rc=0
for s in $NAMES; do
  # the check that reports the change: the first word of caught_by in its meta.json (usually the property's own check)
  c=$(python3 -c "import json,re,sys; m=json.load(open('/verif/seeded/$s/meta.json')).get('caught_by',''); r=re.match(r'(C\d\d)\b', m); print(r.group(1) if r else '${s%-*}')")
  D=/tmp/seed/$s
  rm -rf $D; mkdir -p $D
  git -C /repo worktree add --detach $D/repo HEAD >/dev/null 2>&1 || { echo "$s: worktree failed"; rc=1; continue; }
  if ! git -C $D/repo apply /verif/seeded/$s/patch.diff; then echo "$s: PATCH DOES NOT APPLY"; rc=1
  else
    out=$(VERIF_REPO=$D/repo VERIF_SCRATCH=$D/work VERIF_OUT=$D/out ./vcheck $c 2>&1); st=$?
    n=$(echo "$out" | grep -c "^VIOLATION")
    if [ $st -eq 1 ] && [ $n -gt 0 ]; then echo "$s: caught ($n violation keys) $(echo "$out" | grep -m1 'key=' | cut -c1-140)"
    else echo "$s: NOT CAUGHT (exit $st) $(echo "$out" | tail -1 | cut -c1-200)"; rc=1; fi
  fi
  git -C /repo worktree remove --force $D/repo >/dev/null 2>&1; rm -rf $D
done
exit $rc
