// Dependency stubs for compiling the repository's own src/sessions.rs (non-test
// part) with rustc alone. Everything in here is the trusted base of check C10.
#![allow(dead_code, unused_imports, unused_macros, unused_variables, static_mut_refs)]

macro_rules! debug { ($($arg:tt)*) => { { let _ = format!($($arg)*); } } }
macro_rules! info { ($($arg:tt)*) => { { let _ = format!($($arg)*); } } }
macro_rules! warn { ($($arg:tt)*) => { { let _ = format!($($arg)*); } } }
macro_rules! error { ($($arg:tt)*) => { { let _ = format!($($arg)*); } } }

pub mod pnet { pub mod packet { pub mod ip {
    #[derive(Copy, Clone, PartialEq, Eq, Debug)]
    pub struct IpNextHeaderProtocol(pub u8);
    #[allow(non_snake_case, non_upper_case_globals)]
    pub mod IpNextHeaderProtocols {
        use super::IpNextHeaderProtocol;
        pub const Tcp: IpNextHeaderProtocol = IpNextHeaderProtocol(6);
        pub const Udp: IpNextHeaderProtocol = IpNextHeaderProtocol(17);
    }
    impl std::fmt::Display for IpNextHeaderProtocol {
        fn fmt(&self, f: &mut std::fmt::Formatter) -> std::fmt::Result { write!(f, "{}", self.0) }
    }
} } }

pub mod util { pub fn precise_time_ns() -> u128 { 1_000_000 } }

pub mod flow_tracker { pub static mut FLOW_CLIENT_LOG: bool = false; }

pub mod protobuf {
    #[derive(Debug)]
    pub struct Error;
    impl std::fmt::Display for Error { fn fmt(&self, f: &mut std::fmt::Formatter) -> std::fmt::Result { write!(f, "protobuf error") } }
    pub trait Message: Sized { fn parse_from_bytes(b: &[u8]) -> Result<Self, Error>; }
}

pub mod redis {
    #[derive(Debug)]
    pub struct RedisError;
    impl std::fmt::Display for RedisError { fn fmt(&self, f: &mut std::fmt::Formatter) -> std::fmt::Result { write!(f, "redis error") } }
    pub struct Client;
    pub struct Connection;
    pub struct PubSub;
    pub struct Msg;
    impl Client {
        pub fn open(_: &str) -> Result<Client, RedisError> { Ok(Client) }
        pub fn get_connection(&self) -> Result<Connection, RedisError> { Ok(Connection) }
    }
    impl Connection { pub fn as_pubsub(&mut self) -> PubSub { PubSub } }
    impl PubSub {
        pub fn subscribe(&mut self, _: &str) -> Result<(), RedisError> { Ok(()) }
        pub fn get_message(&mut self) -> Result<Msg, RedisError> { Err(RedisError) }
    }
    impl Msg { pub fn get_payload<T: Default>(&self) -> Result<T, RedisError> { Ok(T::default()) } }
}

// Hand-written equivalent of the generated signalling::StationToDetector (proto2
// optional fields; an absent field reads as its default: "" / 0 / first enum value).
pub mod signalling {
    #[derive(Copy, Clone, PartialEq, Eq, Debug)]
    pub enum IPProto { Unk = 0, Tcp = 1, Udp = 2 }
    #[derive(Copy, Clone, PartialEq, Eq, Debug)]
    pub enum StationOperations { Unknown = 0, New = 1, Update = 2, Clear = 3 }
    #[derive(Default, Clone, Debug)]
    pub struct StationToDetector {
        pub phantom_ip: Option<String>, pub client_ip: Option<String>, pub timeout_ns: Option<u64>,
        pub operation: Option<u32>, pub dst_port: Option<u32>, pub src_port: Option<u32>, pub proto: Option<u32>,
    }
    impl StationToDetector {
        pub fn phantom_ip(&self) -> &str { self.phantom_ip.as_deref().unwrap_or("") }
        pub fn client_ip(&self) -> &str { self.client_ip.as_deref().unwrap_or("") }
        pub fn timeout_ns(&self) -> u64 { self.timeout_ns.unwrap_or(0) }
        pub fn dst_port(&self) -> u32 { self.dst_port.unwrap_or(0) }
        pub fn src_port(&self) -> u32 { self.src_port.unwrap_or(0) }
        pub fn proto(&self) -> IPProto { match self.proto { Some(1) => IPProto::Tcp, Some(2) => IPProto::Udp, _ => IPProto::Unk } }
        pub fn operation(&self) -> StationOperations { match self.operation { Some(1) => StationOperations::New, Some(2) => StationOperations::Update, Some(3) => StationOperations::Clear, _ => StationOperations::Unknown } }
    }
    impl ::protobuf::Message for StationToDetector { fn parse_from_bytes(_: &[u8]) -> Result<Self, ::protobuf::Error> { Err(::protobuf::Error) } }
}

pub mod sessions {
// ---- below: /repo/src/sessions.rs up to its #[cfg(test)] module, verbatim ----
