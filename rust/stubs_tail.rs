// ---- above: /repo/src/sessions.rs, verbatim ----

    /// Runs the real (private) pubsub_handle_s2d on a map that already holds `prefill`
    /// foreign sessions and reports what the map holds afterwards.
    pub fn verif_handle(s2d: &StationToDetector, prefill: usize) -> String {
        let map: Arc<RwLock<HashMap<String, u128>>> = Arc::new(RwLock::new(HashMap::new()));
        for i in 0..prefill {
            map.write().unwrap().insert(format!("prefill-{}", i), 99);
        }
        pubsub_handle_s2d(&map, s2d);
        let m = map.read().unwrap();
        let mut keys: Vec<String> = m.iter().filter(|(k, _)| !k.starts_with("prefill-")).map(|(k, v)| format!("{}={}", k, v - precise_time_ns())).collect();
        keys.sort();
        let left = m.iter().filter(|(k, _)| k.starts_with("prefill-")).count();
        format!("prefill_left={} new=[{}]", left, keys.join(","))
    }
}

fn opt(s: &str) -> Option<String> { if s == "-" { None } else { Some(s.replace("\\e", "")) } }
fn optn(s: &str) -> Option<u64> { if s == "-" { None } else { s.parse().ok() } }

// stdin: one message per line: op|proto|client|phantom|srcport|dstport|timeout|prefill   ("-" = field absent, "\e" = present but empty)
fn main() {
    use std::io::BufRead;
    let stdin = std::io::stdin();
    for line in stdin.lock().lines() {
        let line = line.unwrap();
        let f: Vec<&str> = line.split('|').collect();
        if f.len() != 8 { println!("BADLINE"); continue; }
        let s2d = signalling::StationToDetector {
            operation: optn(f[0]).map(|v| v as u32), proto: optn(f[1]).map(|v| v as u32),
            client_ip: opt(f[2]), phantom_ip: opt(f[3]),
            src_port: optn(f[4]).map(|v| v as u32), dst_port: optn(f[5]).map(|v| v as u32),
            timeout_ns: optn(f[6]),
        };
        let prefill: usize = f[7].parse().unwrap_or(0);
        println!("{}", sessions::verif_handle(&s2d, prefill));
    }
}
