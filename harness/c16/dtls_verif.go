//go:build verif

package dtls

import (
	"context"
	"crypto/tls"
	"net"
	"time"

	"github.com/refraction-networking/conjure/pkg/zzverif/vmsg"
)

// VerifServerStack builds what acceptSCTP builds on top of an SCTP stream: heartbeat server + SCTPConn.
func VerifServerStack(stream *vmsg.Stream, conn net.Conn, interval time.Duration, hb []byte, max int) (net.Conn, error) {
	var cfg *heartbeatConfig
	if interval != 0 || hb != nil {
		cfg = &heartbeatConfig{Interval: interval, Heartbeat: hb}
	}
	h, err := heartbeatServer(stream, cfg, max)
	if err != nil {
		return nil, err
	}
	return newSCTPConn(h, conn, uint64(max)), nil
}

// VerifClientStack builds what openSCTP builds on top of an SCTP stream: heartbeat client + SCTPConn.
func VerifClientStack(stream *vmsg.Stream, conn net.Conn, interval time.Duration, hb []byte, max int) (net.Conn, error) {
	h, err := heartbeatClient(stream, &heartbeatConfig{Interval: interval, Heartbeat: hb})
	if err != nil {
		return nil, err
	}
	return newSCTPConn(h, conn, uint64(max)), nil
}

// VerifBareSCTPConn is an SCTPConn directly over the stream.
func VerifBareSCTPConn(stream *vmsg.Stream, conn net.Conn, max int) net.Conn {
	return newSCTPConn(stream, conn, uint64(max))
}

// VerifListenerSizes returns the sizes of the two registration maps.
func VerifListenerSizes(l *Listener) (int, int) {
	l.connMapMutex.Lock()
	a := len(l.connMap)
	l.connMapMutex.Unlock()
	l.connToCertMutex.Lock()
	b := len(l.connToCert)
	l.connToCertMutex.Unlock()
	return a, b
}

// VerifAcceptDTLS is the routing core of AcceptWithContext.
func VerifAcceptDTLS(l *Listener, ctx context.Context, cfg *Config) (net.Conn, error) {
	return l.acceptDTLSConn(ctx, cfg)
}

// VerifCerts derives both certificates and the hello random from a seed.
func VerifCerts(seed []byte) (clientDER, serverDER []byte, random [28]byte, err error) {
	c, s, err := certsFromSeed(seed)
	if err != nil {
		return nil, nil, random, err
	}
	random, err = clientHelloRandomFromSeed(seed)
	return c.Certificate[0], s.Certificate[0], random, err
}

// VerifVerifyCert is the comparison both ends use.
func VerifVerifyCert(cert, correct []byte) error { return verifyCert(cert, correct) }

// VerifDefaults returns the default heartbeat payload, interval and the write limit.
func VerifDefaults() ([]byte, time.Duration, uint64) {
	return defaultConfig.Heartbeat, defaultConfig.Interval, writeMaxBufferedAmount
}

// VerifListenerKey digests the listener's registration state (which ids are registered in
// each map and how many connections wait in each channel). Only called by the controller
// while every thread is parked.
func VerifListenerKey(l *Listener) uint64 {
	var h uint64
	for id, ch := range l.connMap {
		k := uint64(14695981039346656037)
		for _, b := range id[:8] {
			k = (k ^ uint64(b)) * 1099511628211
		}
		h += k * uint64(1+len(ch))
	}
	for id := range l.connToCert {
		k := uint64(1099511628211)
		for _, b := range id[:8] {
			k = (k ^ uint64(b)) * 1099511628211
		}
		h += k * 31
	}
	return h
}

// VerifCertsTLS returns the derived certificates with their keys.
func VerifCertsTLS(seed []byte) (*tls.Certificate, *tls.Certificate, [28]byte, error) {
	c, s, err := certsFromSeed(seed)
	if err != nil {
		return nil, nil, [28]byte{}, err
	}
	r, err := clientHelloRandomFromSeed(seed)
	return c, s, r, err
}
