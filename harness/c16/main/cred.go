package main

import (
	"bytes"
	"context"
	"crypto/tls"
	"crypto/x509"
	"errors"
	"fmt"
	"net"
	"sync"
	"time"

	pdtls "github.com/pion/dtls/v2"
	"github.com/refraction-networking/conjure/pkg/dtls"
	"github.com/refraction-networking/conjure/pkg/zzverif/vh"
)

// cred family: the real pion stack, free-running, over in-memory pipes.
//
//	cred:derive     derivation matrix over the secret alphabet (determinism, distinctness, role separation)
//	cred:listener   every (client secret, acceptor secret) pair through Listener.AcceptWithContext / ClientWithContext, plus forged clients
//	cred:direct     every pair through ServerWithContext / ClientWithContext
//	cred:many:<n>   n sessions at once on one listener (distinct, equal and unregistered secrets), secret-tagged messages both ways
//
// Time limits here are never oracles: an exchange that does not finish within the limit makes the
// run inconclusive (exhaustive=false), it is not reported as a violation.
const credLimit = 40 * time.Second

func secretAlphabet() [][]byte {
	return [][]byte{
		{},
		[]byte("a"),
		bytes.Repeat([]byte{0}, 32),
		bytes.Repeat([]byte{0xff}, 32),
		[]byte("hihihihihihihihihihihihihihihihi"),
		[]byte("hihihihihihihihihihihihihihihihj"),
		bytes.Repeat([]byte("0123456789abcdef"), 8),
	}
}

type pipeListener struct {
	ch     chan net.Conn
	closed chan struct{}
	once   sync.Once
}

func newPipeListener(n int) *pipeListener {
	return &pipeListener{ch: make(chan net.Conn, n), closed: make(chan struct{})}
}
func (l *pipeListener) Accept() (net.Conn, error) {
	select {
	case c := <-l.ch:
		return c, nil
	case <-l.closed:
		// the accept loop retries on error without pause: pace it
		time.Sleep(50 * time.Millisecond)
		return nil, net.ErrClosed
	}
}
func (l *pipeListener) Close() error   { l.once.Do(func() { close(l.closed) }); return nil }
func (l *pipeListener) Addr() net.Addr { return &net.UDPAddr{IP: net.IPv4(127, 0, 0, 1), Port: 443} }

type credRun struct {
	out          *vh.Out
	inconclusive int
}

func (r *credRun) viol(key, what string, replay any) {
	r.out.ViolCounts[key]++
	for _, v := range r.out.Violations {
		if v.Key == key {
			return
		}
	}
	r.out.Violations = append(r.out.Violations, &vh.Violation{Key: key, What: what, Replay: replay})
}

func runCred(a *vh.Args, name string) {
	r := &credRun{out: &vh.Out{Name: name, Exhaustive: true, ViolCounts: map[string]int64{}, Extra: map[string]any{}}}
	t0 := time.Now()
	S := secretAlphabet()
	var part string
	n := 4
	fmt.Sscanf(name, "cred:many:%d", &n)
	if len(name) > 5 {
		part = name[5:]
	}
	outcomes := map[string]int{}
	switch {
	case part == "derive":
		credDerive(r, S, outcomes)
	case part == "listener":
		for i := range S {
			for j := range S {
				o := credPair(r, S, i, j, true, "")
				outcomes[o]++
			}
		}
		for j := range S {
			outcomes[credPair(r, S, (j+1)%len(S), j, true, "forged")]++
		}
	case part == "direct":
		for i := range S {
			for j := range S {
				outcomes[credPair(r, S, i, j, false, "")]++
			}
		}
	default:
		credMany(r, S, n, outcomes)
	}
	r.out.Outcomes = len(outcomes)
	r.out.Nontrivial = int64(len(outcomes))
	r.out.Extra["outcomes"] = outcomes
	if r.inconclusive > 0 {
		r.out.Exhaustive = false
		r.out.Cap = fmt.Sprintf("%d exchanges did not finish within %v (inconclusive, not a verdict)", r.inconclusive, credLimit)
	}
	r.out.WallS = time.Since(t0).Seconds()
	vh.Emit(r.out)
}

func credDerive(r *credRun, S [][]byte, outcomes map[string]int) {
	type d struct {
		c, s []byte
		rnd  [28]byte
	}
	var ds [][2]d
	for _, s := range S {
		var two [2]d
		for k := 0; k < 2; k++ {
			c, sv, rnd, err := dtls.VerifCerts(s)
			if err != nil {
				r.viol("derivation-fails", fmt.Sprintf("secret %x: %v", s, err), map[string]any{"scenario": "cred:derive", "secret": fmt.Sprintf("%x", s)})
				return
			}
			two[k] = d{c, sv, rnd}
		}
		ds = append(ds, two)
	}
	pub := func(der []byte) string {
		c, err := x509.ParseCertificate(der)
		if err != nil {
			return "unparsable:" + err.Error()
		}
		return fmt.Sprintf("%x|%s|%s", c.RawSubjectPublicKeyInfo, c.SerialNumber, c.Subject.CommonName)
	}
	for i := range S {
		rp := map[string]any{"scenario": "cred:derive", "secret": fmt.Sprintf("%x", S[i])}
		r.out.Evaluations++
		a, b := ds[i][0], ds[i][1]
		if pub(a.c) != pub(b.c) || pub(a.s) != pub(b.s) || a.rnd != b.rnd {
			r.viol("derivation-not-deterministic", fmt.Sprintf("two derivations from secret %x differ in key, serial, name or hello random", S[i]), rp)
		}
		if dtls.VerifVerifyCert(a.c, b.c) != nil || dtls.VerifVerifyCert(a.s, b.s) != nil {
			r.viol("same-secret-certificates-rejected", fmt.Sprintf("secret %x: a certificate derived by one end is rejected by the other", S[i]), rp)
		}
		if dtls.VerifVerifyCert(a.c, b.s) == nil || dtls.VerifVerifyCert(a.s, b.c) == nil {
			r.viol("roles-not-separated", fmt.Sprintf("secret %x: client and server certificates verify against each other", S[i]), rp)
		}
		outcomes["same-ok"]++
		for j := range S {
			if i == j {
				continue
			}
			r.out.Evaluations++
			o := ds[j][0]
			if pub(a.c) == pub(o.c) || pub(a.s) == pub(o.s) || a.rnd == o.rnd {
				r.viol("distinct-secrets-collide", fmt.Sprintf("secrets %x and %x derive the same key, certificate or hello random", S[i], S[j]), rp)
			}
			if dtls.VerifVerifyCert(a.c, o.c) == nil || dtls.VerifVerifyCert(a.s, o.s) == nil {
				r.viol("other-secret-certificate-accepted", fmt.Sprintf("a certificate derived from %x verifies against the one derived from %x", S[i], S[j]), rp)
			}
			outcomes["distinct-rejected"]++
		}
	}
}

type endRes struct {
	conn net.Conn
	err  error
	done bool
}

// credPair runs one client/server pair; returns an outcome label.
func credPair(r *credRun, S [][]byte, ci, si int, viaListener bool, variant string) string {
	r.out.Evaluations++
	rp := map[string]any{"scenario": r.out.Name, "client_secret": fmt.Sprintf("%x", S[ci]), "server_secret": fmt.Sprintf("%x", S[si]), "variant": variant}
	srvEnd, cliEnd := net.Pipe()
	defer srvEnd.Close()
	defer cliEnd.Close()
	ctx, cancel := context.WithTimeout(context.Background(), credLimit)
	defer cancel()
	sctx, scancel := context.WithCancel(ctx)
	defer scancel()
	var srv, cli endRes
	var wg sync.WaitGroup
	var l *dtls.Listener
	if viaListener {
		pl := newPipeListener(1)
		pl.ch <- srvEnd
		var err error
		l, err = dtls.NewListener(pl, &dtls.Config{LogAuthFail: func(*net.IP) {}, LogOther: func(*net.IP) {}})
		if err != nil {
			vh.Fatal("NewListener: %v", err)
		}
		defer l.Close()
	}
	wg.Add(2)
	go func() {
		defer wg.Done()
		cfg := &dtls.Config{PSK: S[si], SCTP: dtls.ServerAccept}
		if viaListener {
			srv.conn, srv.err = l.AcceptWithContext(sctx, cfg)
		} else {
			srv.conn, srv.err = dtls.ServerWithContext(sctx, srvEnd, cfg)
		}
		srv.done = true
	}()
	cliDone := make(chan struct{})
	go func() {
		defer wg.Done()
		defer close(cliDone)
		if viaListener {
			// the station registers a session before its client dials; a hello that arrives before the
			// registration is rejected legitimately (modelled family covers that order)
			for w := 0; w < 4000; w++ {
				if a, b := dtls.VerifListenerSizes(l); (a >= 1 && b >= 1) || srv.done {
					break
				}
				time.Sleep(2 * time.Millisecond)
			}
		}
		if variant == "forged" {
			// knows the server-side secret's public hello random (it is sent in the clear) but not the secret
			_, _, rnd, _ := dtls.VerifCerts(S[si])
			own, _ := tlsCertFor(S[ci])
			conf := &pdtls.Config{
				Certificates:            []tls.Certificate{*own},
				ExtendedMasterSecret:    pdtls.RequireExtendedMasterSecret,
				CustomClientHelloRandom: func() [28]byte { return rnd },
				InsecureSkipVerify:      true,
			}
			c, err := pdtls.ClientWithContext(ctx, cliEnd, conf)
			cli.err = err
			if err == nil {
				cli.conn = c
			}
		} else {
			cli.conn, cli.err = dtls.ClientWithContext(ctx, cliEnd, &dtls.Config{PSK: S[ci], SCTP: dtls.ClientOpen})
		}
		cli.done = true
	}()
	// once the client has failed, a server that is still waiting is released
	go func() {
		<-cliDone
		if cli.err != nil || variant == "forged" {
			// (a forged client does not speak SCTP: whatever its handshake result, nothing more will come)
			time.Sleep(200 * time.Millisecond)
			scancel()
		}
	}()
	wg.Wait()
	defer func() {
		if srv.conn != nil {
			srv.conn.Close()
		}
		if cli.conn != nil {
			cli.conn.Close()
		}
	}()
	timedOut := func(e error) bool { return e != nil && errors.Is(e, context.DeadlineExceeded) && ctx.Err() != nil }
	same := ci == si && variant == ""
	if same {
		if timedOut(srv.err) || timedOut(cli.err) {
			r.inconclusive++
			return "inconclusive"
		}
		if srv.err != nil || cli.err != nil {
			r.viol("same-secret-handshake-fails", fmt.Sprintf("both ends used secret %x: client error %v, server error %v", S[ci], cli.err, srv.err), rp)
			return "same-fail"
		}
		// secret-tagged message both ways
		if o := exchange(r, cli.conn, srv.conn, fmt.Sprintf("c:%d", ci), rp); o != "" {
			return o
		}
		if o := exchange(r, srv.conn, cli.conn, fmt.Sprintf("s:%d", si), rp); o != "" {
			return o
		}
		if viaListener {
			if a, b := dtls.VerifListenerSizes(l); a != 0 || b != 0 {
				r.viol("registration-leaked", fmt.Sprintf("after accept returned: %d channels, %d certificate pairs registered", a, b), rp)
			}
		}
		return "same-ok"
	}
	if srv.err == nil {
		r.viol("handshake-completes-with-different-secrets", fmt.Sprintf("server side (secret %x) accepted a client using %x (%s)", S[si], S[ci], variant), rp)
		return "diff-accepted"
	}
	if cli.err == nil {
		// a DTLS client only finishes after the server's Finished, which the server sends after it has
		// accepted the client's certificate: completion on either side means both sides completed
		r.viol("handshake-completes-with-different-secrets", fmt.Sprintf("client (secret %x, %s) completed the handshake with a server using %x", S[ci], variant, S[si]), rp)
		return "diff-accepted"
	}
	if viaListener {
		if a, b := dtls.VerifListenerSizes(l); a != 0 || b != 0 {
			r.viol("registration-leaked", fmt.Sprintf("after a failed accept returned: %d channels, %d certificate pairs registered", a, b), rp)
		}
	}
	return "diff-rejected"
}

func tlsCertFor(secret []byte) (*tls.Certificate, error) {
	// the forger's own certificate: any self-made key will do; reuse the derivation for another secret
	c, _, _, err := dtls.VerifCertsTLS(secret)
	return c, err
}

func exchange(r *credRun, from, to net.Conn, tag string, rp map[string]any) string {
	errc := make(chan error, 1)
	go func() {
		_, err := from.Write([]byte(tag))
		errc <- err
	}()
	to.SetReadDeadline(time.Now().Add(credLimit))
	buf := make([]byte, 64)
	n, err := to.Read(buf)
	if err != nil {
		var ne net.Error
		if errors.As(err, &ne) && ne.Timeout() {
			r.inconclusive++
			return "inconclusive"
		}
		r.viol("established-connection-unusable", fmt.Sprintf("reading the tagged message %q: %v", tag, err), rp)
		return "exchange-fail"
	}
	if string(buf[:n]) != tag {
		r.viol("cross-delivery", fmt.Sprintf("expected message %q on this connection, read %q", tag, buf[:n]), rp)
		return "exchange-wrong"
	}
	to.SetReadDeadline(time.Time{})
	<-errc
	return ""
}

// credMany: n concurrent sessions on one listener.
func credMany(r *credRun, S [][]byte, n int, outcomes map[string]int) {
	// session k uses secret k % len(S); with n > len(S) some secrets are used twice (equal secrets);
	// one extra client uses a secret nobody accepts
	rp := map[string]any{"scenario": r.out.Name}
	pl := newPipeListener(n + 1)
	l, err := dtls.NewListener(pl, &dtls.Config{LogAuthFail: func(*net.IP) {}, LogOther: func(*net.IP) {}})
	if err != nil {
		vh.Fatal("NewListener: %v", err)
	}
	defer l.Close()
	ctx, cancel := context.WithTimeout(context.Background(), credLimit)
	defer cancel()
	type sess struct {
		sec      int
		srv, cli endRes
		gotS     string
		gotC     string
	}
	ss := make([]*sess, n)
	var wg sync.WaitGroup
	for k := 0; k < n; k++ {
		s := &sess{sec: k % len(S)}
		ss[k] = s
		wg.Add(1)
		go func(k int) {
			defer wg.Done()
			actx := ctx
			if k >= len(S) {
				// an acceptor whose secret is already taken either fails at once or, if the first one
				// has finished, waits for a client that will not come: do not wait the full limit
				var c2 context.CancelFunc
				actx, c2 = context.WithTimeout(ctx, 3*time.Second)
				defer c2()
			}
			s.srv.conn, s.srv.err = l.AcceptWithContext(actx, &dtls.Config{PSK: S[s.sec], SCTP: dtls.ServerAccept})
			if s.srv.err == nil {
				buf := make([]byte, 64)
				s.srv.conn.SetReadDeadline(time.Now().Add(credLimit))
				m, _ := s.srv.conn.Read(buf)
				s.gotS = string(buf[:m])
				s.srv.conn.Write([]byte(fmt.Sprintf("s:%d", s.sec)))
			}
		}(k)
	}
	// clients start once the acceptors had a chance to register (a client that arrives before its
	// acceptor fails legitimately; that is covered by the modelled family, here we want sessions)
	distinct := n
	if distinct > len(S) {
		distinct = len(S)
	}
	for w := 0; w < 2000; w++ {
		if a, _ := dtls.VerifListenerSizes(l); a >= distinct {
			break
		}
		time.Sleep(5 * time.Millisecond)
	}
	pipes := make([]net.Conn, 0, n+1)
	for k := 0; k <= n; k++ {
		a, b := net.Pipe()
		pipes = append(pipes, a, b)
		pl.ch <- a
		if k == n {
			wg.Add(1)
			go func() {
				defer wg.Done()
				c, err := dtls.ClientWithContext(ctx, b, &dtls.Config{PSK: []byte("nobody accepts this secret"), SCTP: dtls.ClientOpen})
				if err == nil {
					c.Close()
					r.viol("handshake-completes-with-different-secrets", "a client with an unregistered secret completed the handshake", rp)
				}
			}()
			continue
		}
		s := ss[k]
		wg.Add(1)
		go func() {
			defer wg.Done()
			s.cli.conn, s.cli.err = dtls.ClientWithContext(ctx, b, &dtls.Config{PSK: S[s.sec], SCTP: dtls.ClientOpen})
			if s.cli.err == nil {
				s.cli.conn.Write([]byte(fmt.Sprintf("c:%d", s.sec)))
				buf := make([]byte, 64)
				s.cli.conn.SetReadDeadline(time.Now().Add(credLimit))
				m, _ := s.cli.conn.Read(buf)
				s.gotC = string(buf[:m])
			}
		}()
	}
	wg.Wait()
	for _, p := range pipes {
		p.Close()
	}
	perSecret := map[int]int{}
	for _, s := range ss {
		perSecret[s.sec]++
	}
	for k, s := range ss {
		r.out.Evaluations++
		if s.srv.conn != nil {
			defer s.srv.conn.Close()
		}
		if s.cli.conn != nil {
			defer s.cli.conn.Close()
		}
		if s.srv.err == nil {
			if s.gotS != "" && s.gotS != fmt.Sprintf("c:%d", s.sec) {
				r.viol("cross-delivery", fmt.Sprintf("acceptor %d waits for secret #%d and read %q", k, s.sec, s.gotS), rp)
			}
			outcomes["accepted"]++
		} else if perSecret[s.sec] > 1 {
			outcomes["duplicate-secret-acceptor-failed"]++
		} else if ctx.Err() != nil {
			r.inconclusive++
			outcomes["inconclusive"]++
		} else {
			r.viol("accept-error", fmt.Sprintf("acceptor %d (sole acceptor of its secret): %v", k, s.srv.err), rp)
		}
		if s.cli.err == nil && s.gotC != "" && s.gotC != fmt.Sprintf("s:%d", s.sec) {
			r.viol("cross-delivery", fmt.Sprintf("client %d uses secret #%d and read %q", k, s.sec, s.gotC), rp)
		}
	}
	if a, b := dtls.VerifListenerSizes(l); a != 0 || b != 0 {
		r.viol("registration-leaked", fmt.Sprintf("after every accept returned: %d channels, %d certificate pairs registered", a, b), rp)
	}
}
