// C16 harness: DTLS sessions. Families (selected by -scenario):
//
//	read:<stack>:<depth>:<patlen>:p<bound>   byte-stream faithfulness of SCTPConn (+ heartbeat layer) over a scripted message stream
//	hbloss:p<bound>                          heartbeat loss / keep-alive timing on the virtual clock
//	flow:p<bound>                            write flow control against a modelled network
//	route:<name>:p<bound>                    listener routing with modelled handshakes
//	cred                                     real pion handshakes over in-memory pipes (secret matrix)
package main

import (
	"fmt"
	"os"
	"strings"

	"github.com/refraction-networking/conjure/pkg/zzverif/vh"
	"github.com/refraction-networking/conjure/pkg/zzverif/vsched"
)

type agg struct {
	out      *vh.Out
	outcomes map[string]struct{}
	seenKey  map[string]bool
}

func newAgg(name string) *agg {
	return &agg{out: &vh.Out{Name: name, Exhaustive: true, ViolCounts: map[string]int64{}, Extra: map[string]any{}}, outcomes: map[string]struct{}{}, seenKey: map[string]bool{}}
}

func (g *agg) add(inst string, r *vsched.Result) {
	o := g.out
	o.Evaluations += r.Executions
	o.Traces += r.Executions
	o.Transitions += r.Transitions
	o.States += int64(r.States)
	if !r.Exhaustive {
		o.Exhaustive = false
		o.Cap = r.Cap
	}
	for k, n := range r.ViolationsByKey {
		o.ViolCounts[k] += n
	}
	for _, v := range r.Violations {
		if g.seenKey[v.Key] {
			continue
		}
		g.seenKey[v.Key] = true
		o.Violations = append(o.Violations, &vh.Violation{Key: v.Key, What: v.What + " [instance " + inst + "]", Replay: map[string]any{"scenario": inst, "choices": v.Choices, "trace": v.Trace, "verdict": v.Verdict, "detail": v.Detail}})
	}
	for _, s := range r.OutcomeSamples {
		g.outcomes[s] = struct{}{}
	}
	if len(o.Samples) < 2 && len(r.SampleTraces) > 0 {
		o.Samples = append(o.Samples, map[string]any{"scenario": inst, "schedule": r.SampleTraces[0]})
	}
	n, _ := o.Extra["instances"].(int)
	o.Extra["instances"] = n + 1
	d, _ := o.Extra["deadlocks"].(int64)
	o.Extra["deadlocks"] = d + r.Deadlocks
	if r.MaxPoints > asInt(o.Extra["max_points"]) {
		o.Extra["max_points"] = r.MaxPoints
	}
}

func asInt(v any) int {
	if i, ok := v.(int); ok {
		return i
	}
	return 0
}

func (g *agg) emit() {
	g.out.Outcomes = len(g.outcomes)
	g.out.Nontrivial = int64(len(g.outcomes))
	i := 0
	var smp []string
	for k := range g.outcomes {
		if i < 6 {
			smp = append(smp, k)
		}
		i++
	}
	g.out.Extra["outcome_samples"] = smp
	vh.Emit(g.out)
}

// instance is one fully specified scenario: explored exhaustively within its bounds.
type instance struct {
	name string
	mk   func() *vsched.Scenario
	cfg  vsched.Config
}

func main() {
	a := vh.Parse()
	name := a.Scenario
	var rp map[string]any
	if a.Replay != "" {
		rp = vh.LoadReplay(a.Replay)
		name = rp["scenario"].(string)
	}
	fam := strings.SplitN(name, ":", 2)[0]
	if fam == "cred" {
		runCred(a, name)
		return
	}
	if rp != nil {
		// an instance name is "<family args>#<instance args>"
		inst := buildInstance(name)
		if inst == nil {
			vh.Fatal("cannot rebuild instance %q", name)
		}
		x, v := vsched.RunOnce(vh.Ints(rp["choices"]), inst.cfg.MaxPoints, inst.mk)
		for _, l := range x.Trace() {
			fmt.Fprintln(os.Stderr, l)
		}
		o := &vh.Out{Name: name, Evaluations: 1}
		if v != nil {
			o.Violations = append(o.Violations, &vh.Violation{Key: v.Key, What: v.What})
		}
		vh.Emit(o)
		return
	}
	g := newAgg(name)
	insts := enumerate(name, a.Thorough())
	checked := false
	for i, in := range insts {
		if i%a.ShardN != a.ShardI {
			continue
		}
		if !checked {
			vh.SelfCheck(in.name, in.mk)
			checked = true
		}
		cfg := in.cfg
		cfg.Name = in.name
		cfg.Deadline = a.Deadline()
		r := vsched.Explore(cfg, in.mk)
		g.add(in.name, r)
		if !r.Exhaustive && r.Cap == "time budget" {
			g.out.Cap = fmt.Sprintf("time budget (stopped at instance %d of %d in this shard's list)", i, len(insts))
			break
		}
	}
	g.out.Extra["instances_total"] = len(insts)
	g.emit()
}

// enumerate lists the instances of a family.
func enumerate(name string, thorough bool) []*instance {
	parts := strings.Split(name, ":")
	switch parts[0] {
	case "read":
		return enumRead(name, parts)
	case "hbloss":
		return enumHBLoss(name, parts)
	case "flow":
		return enumFlow(name, parts)
	case "flowmulti":
		return enumFlowMulti(name, parts)
	case "route":
		return enumRoute(name, parts)
	}
	vh.Fatal("unknown family %q", name)
	return nil
}

// buildInstance rebuilds the instance named "<family>#<args>".
func buildInstance(full string) *instance {
	i := strings.Index(full, "#")
	if i < 0 {
		vh.Fatal("bad instance name %q", full)
	}
	for _, in := range enumerate(full[:i], true) {
		if in.name == full {
			return in
		}
	}
	return nil
}

func bound(parts []string) int {
	for _, p := range parts {
		var b int
		if n, _ := fmt.Sscanf(p, "p%d", &b); n == 1 {
			return b
		}
	}
	return 1
}
