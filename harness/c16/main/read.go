package main

import (
	"bytes"
	"errors"
	"fmt"
	"io"
	"strconv"
	"strings"
	"time"

	"github.com/refraction-networking/conjure/pkg/dtls"
	"github.com/refraction-networking/conjure/pkg/zzverif/vconn"
	"github.com/refraction-networking/conjure/pkg/zzverif/vmsg"
	"github.com/refraction-networking/conjure/pkg/zzverif/vsched"
)

const maxMsg = 4 // maximum message size of the modelled association

var hbPayload = []byte("HB")

// read family: read:<stack>:<items>:<depth>:<patlen>:p<bound>
//
//	stack  srv (heartbeat server + SCTPConn) | cli (heartbeat client + SCTPConn) | bare (SCTPConn only)
//	items  message alphabet, e.g. "134h2" (data sizes; h = heartbeat; 2 = data of heartbeat length)
//	depth  message sequences of length 1..depth, each followed by every terminal of the stack
//	patlen read-buffer-size patterns of length 1..patlen over {1,2,3,4,6}, applied cyclically
func enumRead(fam string, parts []string) []*instance {
	if len(parts) < 6 {
		panic("read family needs read:<stack>:<items>:<depth>:<patlen>:p<b>")
	}
	stack, items := parts[1], parts[2]
	depth, _ := strconv.Atoi(parts[3])
	patlen, _ := strconv.Atoi(parts[4])
	pb := bound(parts)
	terms := []string{"E", "R", "D"}
	if stack == "srv" {
		terms = append(terms, "S")
	}
	sizes := []int{1, 2, 3, 4, 6}
	var pats [][]int
	var genP func(cur []int)
	genP = func(cur []int) {
		if len(cur) > 0 {
			pats = append(pats, append([]int{}, cur...))
		}
		if len(cur) == patlen {
			return
		}
		for _, s := range sizes {
			genP(append(cur, s))
		}
	}
	genP(nil)
	var seqs []string
	var genS func(cur string)
	genS = func(cur string) {
		if len(cur) > 0 {
			seqs = append(seqs, cur)
		}
		if len(cur) == depth {
			return
		}
		for _, it := range items {
			genS(cur + string(it))
		}
	}
	genS("")
	var out []*instance
	for _, sq := range seqs {
		for _, tm := range terms {
			// (terminal D after a heartbeat: the keep-alive itself arrives together with the error; it still must not surface)
			for _, p := range pats {
				ps := make([]string, len(p))
				for i, v := range p {
					ps[i] = strconv.Itoa(v)
				}
				name := fmt.Sprintf("%s#msgs=%s;term=%s;reads=%s", fam, sq, tm, strings.Join(ps, ","))
				out = append(out, readInstance(name, stack, sq, tm, p, pb))
			}
		}
	}
	return out
}

func readInstance(name, stack, seq, term string, pattern []int, pb int) *instance {
	mk := func() *vsched.Scenario {
		var script []vmsg.In
		var want []byte
		next := byte('a')
		for i, it := range seq {
			last := i == len(seq)-1
			var data []byte
			if it == 'h' {
				data = append([]byte{}, hbPayload...)
			} else {
				n := int(it - '0')
				for k := 0; k < n; k++ {
					data = append(data, next)
					next++
				}
				want = append(want, data...)
			}
			in := vmsg.In{Data: data, Tag: string(it)}
			if last && term == "D" {
				in.Err = vmsg.Reset
			}
			script = append(script, in)
		}
		switch term {
		case "E":
			script = append(script, vmsg.In{Err: io.EOF, Tag: "EOF"})
		case "R":
			script = append(script, vmsg.In{Err: vmsg.Reset, Tag: "reset"})
		}
		st := &vmsg.Stream{Name: "stream", In: script, Max: maxMsg}
		under := &vconn.Conn{Name: "dtls"}
		var got []byte
		var rerr error
		calls, zero := 0, 0
		readerDone := false
		limit := len(want) + len(seq) + 8
		body := func() {
			var c interface {
				Read([]byte) (int, error)
				Close() error
			}
			switch stack {
			case "srv":
				c, _ = dtls.VerifServerStack(st, under, 0, hbPayload, maxMsg)
			case "cli":
				c, _ = dtls.VerifClientStack(st, under, 10*time.Second, hbPayload, maxMsg)
			default:
				c = dtls.VerifBareSCTPConn(st, under, maxMsg)
			}
			for calls < limit {
				buf := make([]byte, pattern[calls%len(pattern)])
				n, err := c.Read(buf)
				calls++
				got = append(got, buf[:n]...)
				if err != nil {
					rerr = err
					break
				}
				if n == 0 {
					zero++
					if zero > 3 {
						break
					}
				}
			}
			c.Close()
			readerDone = true
		}
		check := func(x *vsched.Exec) *vsched.Violation {
			if x.Verdict == vsched.VPanic {
				return &vsched.Violation{Key: "panic", What: x.Detail}
			}
			if x.Verdict == vsched.VLivelock {
				return &vsched.Violation{Key: "livelock", What: x.Detail}
			}
			if !readerDone {
				return &vsched.Violation{Key: "reader-stuck", What: fmt.Sprintf("Read never returned (%s): %s", x.Verdict, x.Detail)}
			}
			if st.ShortReads > 0 {
				return &vsched.Violation{Key: "message-dropped-short-buffer", What: "the message stream was read with a buffer smaller than the pending message"}
			}
			if !bytes.HasPrefix(want, got) {
				if bytes.Contains(got, hbPayload) {
					return &vsched.Violation{Key: "heartbeat-surfaced-as-data", What: fmt.Sprintf("read %q, peer data was %q", got, want)}
				}
				return &vsched.Violation{Key: "stream-altered", What: fmt.Sprintf("read %q which is not a prefix of the peer's data %q", got, want)}
			}
			if rerr == nil {
				return &vsched.Violation{Key: "no-progress", What: fmt.Sprintf("%d reads, %d of them empty, without error; read %q of %q", calls, zero, got, want)}
			}
			if !bytes.Equal(got, want) {
				return &vsched.Violation{Key: "error-before-data", What: fmt.Sprintf("Read reported %v after %q although the peer's data up to the error was %q", rerr, got, want)}
			}
			return nil
		}
		outcome := func(x *vsched.Exec) string {
			e := "nil"
			if rerr != nil {
				e = rerr.Error()
				if errors.Is(rerr, io.EOF) {
					e = "EOF"
				}
			}
			return fmt.Sprintf("%s got=%d/%d calls=%d err=%s closedAt=%v", x.Verdict, len(got), len(want), calls, e, st.ClosedAt)
		}
		return &vsched.Scenario{Body: body, Check: check, Outcome: outcome}
	}
	return &instance{name: name, mk: mk, cfg: vsched.Config{PreemptBound: pb, EnvBound: 0, MaxPoints: 4000}}
}
