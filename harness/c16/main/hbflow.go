package main

import (
	"bytes"
	"fmt"
	"github.com/refraction-networking/conjure/pkg/zzverif/vtime"
	"strconv"
	"strings"
	"time"

	"github.com/refraction-networking/conjure/pkg/dtls"
	"github.com/refraction-networking/conjure/pkg/zzverif/vconn"
	"github.com/refraction-networking/conjure/pkg/zzverif/vmsg"
	"github.com/refraction-networking/conjure/pkg/zzverif/vsched"
	"github.com/refraction-networking/conjure/pkg/zzverif/vsync"
)

// hbloss family: hbloss:<maxK>:p<bound>
//
// The peer sends K heartbeats (K = 0..maxK) with period per (a fraction of the
// interval T, optionally shifted off the interval boundaries), then stops.
// Data messages arrive at offsets relative to the last heartbeat. The
// connection must be closed no later than two intervals after the last
// heartbeat (one full interval without any), every data message that arrived
// less than one interval after the last heartbeat must have been delivered,
// and heartbeats never surface.
func enumHBLoss(fam string, parts []string) []*instance {
	maxK, _ := strconv.Atoi(parts[1])
	pb := bound(parts)
	_, T, _ := dtls.VerifDefaults()
	periods := []struct {
		name string
		d    time.Duration
	}{{"T/2", T / 2}, {"T/3", T / 3}, {"T-1s", T - time.Second}, {"T", T}}
	shifts := []time.Duration{0, time.Second}
	// data offsets relative to the last heartbeat (in units of T/4); "-" none
	// "flood": 70 data messages right after the last heartbeat and a reader that takes one message per half interval
	// (the receive queue is full, the receive loop waits for the reader): a peer that sends data but no heartbeats is
	// still a peer whose heartbeats stopped
	datasets := []string{"-", "1", "3", "1,3", "3,5", "1,5,7", "4", "flood"}
	var out []*instance
	for k := 0; k <= maxK; k++ {
		for _, per := range periods {
			if k < 2 && per.name != "T/2" {
				continue
			}
			for _, sh := range shifts {
				for _, ds := range datasets {
					name := fmt.Sprintf("%s#k=%d;per=%s;shift=%v;data=%s", fam, k, per.name, sh, ds)
					out = append(out, hbInstance(name, k, per.d, sh, ds, T, pb))
				}
			}
		}
	}
	return out
}

func hbInstance(name string, k int, per, shift time.Duration, ds string, T time.Duration, pb int) *instance {
	mk := func() *vsched.Scenario {
		type ev struct {
			at   time.Duration
			data []byte
		}
		var evs []ev
		var last time.Duration
		for i := 0; i < k; i++ {
			last = shift + time.Duration(i)*per
			evs = append(evs, ev{last, hbPayload})
		}
		var must, may []byte
		next := byte('a')
		flood := ds == "flood"
		if flood {
			for i := 0; i < 70; i++ {
				evs = append(evs, ev{last + time.Millisecond + time.Duration(i)*time.Microsecond, []byte{'a' + byte(i%26), 'A' + byte(i%26)}})
			}
		} else if ds != "-" {
			for _, f := range strings.Split(ds, ",") {
				q, _ := strconv.Atoi(f)
				at := last + time.Duration(q)*T/4
				d := []byte{next, next + 1}
				next += 2
				evs = append(evs, ev{at, d})
			}
		}
		// order by time (stable)
		for i := 1; i < len(evs); i++ {
			for j := i; j > 0 && evs[j].at < evs[j-1].at; j-- {
				evs[j], evs[j-1] = evs[j-1], evs[j]
			}
		}
		// earliest instant at which the implementation may legitimately give up: the first
		// interval boundary with no heartbeat strictly inside the preceding interval (a
		// heartbeat landing exactly on a boundary may be counted on either side or, racing
		// with the reset of the counter, not at all), or one interval of complete silence
		earliest := time.Duration(1 << 62)
		for m := 1; m < 64; m++ {
			b := time.Duration(m) * T
			inside := false
			for _, e := range evs {
				if bytes.Equal(e.data, hbPayload) && e.at > b-T && e.at < b {
					inside = true
				}
			}
			if !inside {
				earliest = b
				break
			}
		}
		prev := time.Duration(0)
		for _, e := range evs {
			if e.at-prev >= T && prev+T < earliest {
				earliest = prev + T
			}
			prev = e.at
		}
		var script []vmsg.In
		for _, e := range evs {
			script = append(script, vmsg.In{At: e.at, Data: e.data})
			if !bytes.Equal(e.data, hbPayload) {
				may = append(may, e.data...)
				if e.at < earliest && !flood {
					// (flood: what the slow reader has not taken off the queue, and what the receive loop has not taken
					// off the stream, when the connection closes is not owed to it)
					must = append(must, e.data...)
				}
			}
		}
		st := &vmsg.Stream{Name: "stream", In: script, Max: maxMsg}
		under := &vconn.Conn{Name: "dtls"}
		var got []byte
		var rerr error
		var errAt time.Duration
		readerDone := false
		body := func() {
			c, _ := dtls.VerifServerStack(st, under, 0, hbPayload, maxMsg)
			rounds := 64
			if flood {
				rounds = 120
			}
			for i := 0; i < rounds; i++ {
				if flood {
					vtime.Sleep(T / 2)
				}
				buf := make([]byte, 3)
				n, err := c.Read(buf)
				got = append(got, buf[:n]...)
				if err != nil {
					rerr = err
					errAt = time.Duration(vsched.ClockNanos())
					break
				}
			}
			readerDone = true
		}
		check := func(x *vsched.Exec) *vsched.Violation {
			if x.Verdict == vsched.VPanic {
				return &vsched.Violation{Key: "panic", What: x.Detail}
			}
			if x.Verdict == vsched.VLivelock {
				return &vsched.Violation{Key: "not-closed-after-heartbeat-loss", What: "the execution never ends: " + x.Detail}
			}
			if !readerDone || rerr == nil {
				return &vsched.Violation{Key: "not-closed-after-heartbeat-loss", What: fmt.Sprintf("reader never saw the connection close (%s %s)", x.Verdict, x.Detail)}
			}
			if !st.Closed {
				return &vsched.Violation{Key: "not-closed-after-heartbeat-loss", What: "stream still open at the end"}
			}
			if st.ClosedAt > last+2*T {
				return &vsched.Violation{Key: "closed-too-late", What: fmt.Sprintf("last heartbeat at %v, interval %v, stream closed at %v", last, T, st.ClosedAt)}
			}
			if errAt > last+2*T && !flood {
				return &vsched.Violation{Key: "closed-too-late", What: fmt.Sprintf("last heartbeat at %v, interval %v, reader unblocked at %v", last, T, errAt)}
			}
			if bytes.Contains(got, hbPayload) {
				return &vsched.Violation{Key: "heartbeat-surfaced-as-data", What: fmt.Sprintf("read %q", got)}
			}
			if !bytes.HasPrefix(may, got) {
				return &vsched.Violation{Key: "stream-altered", What: fmt.Sprintf("read %q, peer sent %q", got, may)}
			}
			if !bytes.HasPrefix(got, must) {
				return &vsched.Violation{Key: "data-lost-while-heartbeats-fresh", What: fmt.Sprintf("read %q; %q arrived while the keep-alive was still satisfied (earliest legitimate close %v, closed at %v)", got, must, earliest, st.ClosedAt)}
			}
			return nil
		}
		outcome := func(x *vsched.Exec) string {
			return fmt.Sprintf("%s closedAt=%v got=%d/%d/%d", x.Verdict, st.ClosedAt, len(must), len(got), len(may))
		}
		sc := &vsched.Scenario{Body: body, Check: check, Outcome: outcome}
		if ds == "flood" {
			// hundreds of blocking points per execution: every choice that is not the default one counts as a delay
			sc.Setup = func(x *vsched.Exec) { x.DelayBounded = true }
		}
		return sc
	}
	mp := 4000
	if ds == "flood" {
		mp, pb = 60000, 0 // (long executions: the default schedule only, delay bound 0)
	}
	cfg := vsched.Config{PreemptBound: pb, MaxPoints: mp}
	if ds == "flood" {
		// some 400 points per execution with a free choice at most of them: the tree is not exhausted; the first 48
		// executions in depth-first order (the default schedule and its nearest deviations) are run and the cap is
		// reported - every other instance of the family is explored completely
		cfg.MaxExec = 48
	}
	return &instance{name: name, mk: mk, cfg: cfg}
}

// flow family: flow:<stack>:<alphabet>:<depth>:p<bound>   (alphabet over M=limit/2, h=limit/4, q=3/8 limit, 1, 0, X=limit/2+1)
//
// A writer issues every sequence of 1..depth writes over the size alphabet
// against a modelled network thread that drains the stream's buffered amount
// (64 KiB or everything at a time, whenever scheduled). Oracle: the buffered
// amount never exceeds the limit plus one maximum write (one stale wake-up
// token), every write returns, accepted messages are exactly the writes in
// order, over-size writes fail without effect, empty writes are no-ops. In the
// closer variants (suffix "c") a third thread closes the connection and a
// blocked writer must return.
func enumFlow(fam string, parts []string) []*instance {
	stack := parts[1]
	alpha := parts[2]
	depth, _ := strconv.Atoi(parts[3])
	pb := bound(parts)
	_, _, limit := dtls.VerifDefaults()
	half := int(limit / 2)
	sizes := map[byte]int{'M': half, 'h': half / 2, 'q': half/2 + half/4, '1': 1, '0': 0, 'X': half + 1}
	var seqs []string
	var gen func(cur string)
	gen = func(cur string) {
		if len(cur) > 0 {
			seqs = append(seqs, cur)
		}
		if len(cur) == depth {
			return
		}
		for _, c := range alpha {
			if (c == '0' || c == 'X' || c == '1') && strings.ContainsRune(cur, c) {
				continue // one no-op / rejected / tiny write per sequence is enough
			}
			gen(cur + string(c))
		}
	}
	gen("")
	var out []*instance
	for _, sq := range seqs {
		for _, closer := range []bool{false, true} {
			if closer && len(sq) < 3 {
				continue
			}
			name := fmt.Sprintf("%s#w=%s;close=%v", fam, sq, closer)
			out = append(out, flowInstance(name, stack, sq, sizes, closer, limit, pb))
		}
	}
	return out
}

// flowmulti family: flowmulti:<stack>:<k>:p<bound>. The connection already buffers one maximum write; k more writers
// (goroutines sharing the connection, as a caller may) each issue one maximum write at the same moment, the network
// drains whenever scheduled. The flow-control test and the hand-over to the stream are one step with respect to other
// writers, so the bound is the single writer's: limit plus one maximum write.
func enumFlowMulti(fam string, parts []string) []*instance {
	stack := parts[1]
	k, _ := strconv.Atoi(parts[2])
	pb := bound(parts)
	_, _, limit := dtls.VerifDefaults()
	half := int(limit / 2)
	mk := func() *vsched.Scenario {
		st := &vmsg.Stream{Name: "stream", Max: 1 << 20}
		under := &vconn.Conn{Name: "dtls"}
		done := 0
		var errs []error
		body := func() {
			var c interface {
				Write([]byte) (int, error)
				Close() error
			}
			if stack == "cli" {
				c, _ = dtls.VerifClientStack(st, under, 10*time.Second, hbPayload, 1<<16)
			} else {
				c = dtls.VerifBareSCTPConn(st, under, 1<<16)
			}
			if _, err := c.Write(bigBuf[:half]); err != nil {
				errs = append(errs, err)
			}
			vsched.GoNamed("network", func() {
				for st.WaitBuffered(func() bool { return done == k }) {
					st.Drain(64 * 1024)
				}
			})
			var wg vsync.WaitGroup
			for i := 0; i < k; i++ {
				wg.Add(1)
				vsched.GoNamed(fmt.Sprintf("writer%d", i), func() {
					defer wg.Done()
					if _, err := c.Write(bigBuf[:half]); err != nil {
						errs = append(errs, err)
					}
					done++
				})
			}
			wg.Wait()
			c.Close()
		}
		check := func(x *vsched.Exec) *vsched.Violation {
			if x.Verdict == vsched.VPanic {
				return &vsched.Violation{Key: "panic", What: x.Detail}
			}
			if done != k {
				return &vsched.Violation{Key: "writer-stuck", What: fmt.Sprintf("%d of %d concurrent writes returned (%s): %s", done, k, x.Verdict, x.Detail)}
			}
			if x.Verdict != vsched.VOK {
				return &vsched.Violation{Key: "thread-stuck-" + x.Verdict, What: x.Detail}
			}
			if len(errs) > 0 {
				return &vsched.Violation{Key: "write-failed", What: fmt.Sprintf("%v on an open connection", errs[0])}
			}
			slack := uint64(0)
			if stack == "cli" {
				slack = 64 // keep-alive messages go to the stream next to the data (a few bytes each)
			}
			if st.MaxBuffered > limit+limit/2+slack {
				return &vsched.Violation{Key: "buffered-amount-unbounded:concurrent-writers", What: fmt.Sprintf("buffered amount reached %d with %d concurrent writers (limit %d, largest write %d)", st.MaxBuffered, k, limit, limit/2)}
			}
			n := 0
			for i, l := range st.OutLens {
				if stack == "cli" && l == len(hbPayload) && bytes.Equal(st.OutHead[i], hbPayload) {
					continue
				}
				if l != half {
					return &vsched.Violation{Key: "writes-altered", What: fmt.Sprintf("stream received a message of %d bytes", l)}
				}
				n++
			}
			if n != k+1 {
				return &vsched.Violation{Key: "writes-altered", What: fmt.Sprintf("stream received %d messages for %d writes", n, k+1)}
			}
			return nil
		}
		return &vsched.Scenario{Body: body, Check: check, Outcome: func(x *vsched.Exec) string { return fmt.Sprintf("%s max=%dK", x.Verdict, st.MaxBuffered/1024) }}
	}
	return []*instance{{name: fam + "#writers=" + parts[2], mk: mk, cfg: vsched.Config{PreemptBound: pb, MaxPoints: 4000}}}
}

var bigBuf = make([]byte, 1<<18)

func flowInstance(name, stack, seq string, sizes map[byte]int, closer bool, limit uint64, pb int) *instance {
	mk := func() *vsched.Scenario {
		st := &vmsg.Stream{Name: "stream", Max: 1 << 20}
		under := &vconn.Conn{Name: "dtls"}
		type wr struct {
			size, n int
			err     error
		}
		var res []wr
		writerDone := false
		body := func() {
			var c interface {
				Write([]byte) (int, error)
				Close() error
			}
			if stack == "cli" {
				c, _ = dtls.VerifClientStack(st, under, 10*time.Second, hbPayload, 1<<16)
			} else {
				c = dtls.VerifBareSCTPConn(st, under, 1<<16)
			}
			vsched.GoNamed("network", func() {
				for st.WaitBuffered(func() bool { return writerDone }) {
					if vsched.ChooseFree(2, "drain") == 0 {
						st.Drain(1 << 30)
					} else {
						st.Drain(64 * 1024)
					}
				}
			})
			if closer {
				vsched.GoNamed("closer", func() { c.Close() })
			}
			for i := 0; i < len(seq); i++ {
				sz := sizes[seq[i]]
				n, err := c.Write(bigBuf[:sz])
				res = append(res, wr{sz, n, err})
			}
			writerDone = true
			if !closer {
				c.Close()
			}
		}
		check := func(x *vsched.Exec) *vsched.Violation {
			if x.Verdict == vsched.VPanic {
				return &vsched.Violation{Key: "panic", What: x.Detail}
			}
			if !writerDone {
				return &vsched.Violation{Key: "writer-stuck", What: fmt.Sprintf("a Write never returned (%s): %s", x.Verdict, x.Detail)}
			}
			if x.Verdict != vsched.VOK {
				return &vsched.Violation{Key: "thread-stuck-" + x.Verdict, What: x.Detail}
			}
			if st.MaxBuffered > limit+limit/2 {
				return &vsched.Violation{Key: "buffered-amount-unbounded", What: fmt.Sprintf("buffered amount reached %d (limit %d, largest write %d)", st.MaxBuffered, limit, limit/2)}
			}
			var want []int
			for _, r := range res {
				switch {
				case r.size == 0:
					if r.n != 0 || r.err != nil {
						return &vsched.Violation{Key: "empty-write-not-noop", What: fmt.Sprintf("Write(0 bytes) = %d, %v", r.n, r.err)}
					}
				case uint64(r.size) > limit/2:
					if r.err == nil || r.n != 0 {
						return &vsched.Violation{Key: "oversize-write-accepted", What: fmt.Sprintf("Write(%d bytes) = %d, %v", r.size, r.n, r.err)}
					}
				case r.err == nil:
					if r.n != r.size {
						return &vsched.Violation{Key: "short-write-without-error", What: fmt.Sprintf("Write(%d bytes) = %d, nil", r.size, r.n)}
					}
					want = append(want, r.size)
				default:
					if !closer {
						return &vsched.Violation{Key: "write-failed", What: fmt.Sprintf("Write(%d bytes) = %d, %v on an open connection", r.size, r.n, r.err)}
					}
					if r.n != 0 {
						want = append(want, r.n)
					}
				}
			}
			var gotLens []int
			for i, l := range st.OutLens {
				if stack == "cli" && l == len(hbPayload) && bytes.Equal(st.OutHead[i], hbPayload) {
					continue
				}
				gotLens = append(gotLens, l)
			}
			if fmt.Sprint(gotLens) != fmt.Sprint(want) {
				return &vsched.Violation{Key: "writes-altered", What: fmt.Sprintf("stream received messages %v, successful writes were %v", gotLens, want)}
			}
			return nil
		}
		outcome := func(x *vsched.Exec) string {
			errs := 0
			for _, r := range res {
				if r.err != nil {
					errs++
				}
			}
			return fmt.Sprintf("%s max=%dK low=%d errs=%d", x.Verdict, st.MaxBuffered/1024, st.LowEvents, errs)
		}
		return &vsched.Scenario{Body: body, Check: check, Outcome: outcome}
	}
	return &instance{name: name, mk: mk, cfg: vsched.Config{PreemptBound: pb, MaxPoints: 4000}}
}
