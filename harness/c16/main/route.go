package main

import (
	"errors"
	"fmt"
	"net"
	"sort"
	"strconv"
	"strings"
	"time"

	"github.com/refraction-networking/conjure/pkg/dtls"
	"github.com/refraction-networking/conjure/pkg/zzverif/vctx"
	"github.com/refraction-networking/conjure/pkg/zzverif/vdtls"
	"github.com/refraction-networking/conjure/pkg/zzverif/vmsg"
	"github.com/refraction-networking/conjure/pkg/zzverif/vsched"
	"github.com/refraction-networking/conjure/pkg/zzverif/vsctp"
)

type cred struct {
	secret               []byte
	clientDER, serverDER []byte
	random               [28]byte
}

var creds = map[int]*cred{}

var defaultHB, _, _ = dtls.VerifDefaults()

func credOf(i int) *cred {
	if c := creds[i]; c != nil {
		return c
	}
	sec := []byte(fmt.Sprintf("shared-secret-%02d-................", i))
	cd, sd, r, err := dtls.VerifCerts(sec)
	if err != nil {
		panic(err)
	}
	c := &cred{secret: sec, clientDER: cd, serverDER: sd, random: r}
	creds[i] = c
	return c
}

type fakeListener struct {
	q      []net.Conn
	closed bool
}

func (f *fakeListener) Accept() (net.Conn, error) {
	vsched.Do(&vsched.Op{Kind: "parent.accept", Obj: "udp", Enabled: func() bool { return len(f.q) > 0 || f.closed }})
	if len(f.q) > 0 {
		c := f.q[0]
		f.q = f.q[1:]
		return c, nil
	}
	return nil, net.ErrClosed
}
func (f *fakeListener) Close() error   { f.closed = true; return nil }
func (f *fakeListener) Addr() net.Addr { return &net.UDPAddr{IP: net.IPv4(192, 0, 2, 1), Port: 443} }

// route family: route:<mode>:<nAcceptors>:<nClients>:p<bound>   or   route:<mode>:=<acc list>/<client list>:p<bound>
//
//	mode       core (acceptDTLSConn: registration, routing, cancellation) | full (AcceptWithContext incl. SCTP + heartbeat stack and a secret-tagged message)
//	acceptors  multisets over {1, 2, 1c, 2c, 1t}: secret index; c = a canceller thread cancels the accept at an arbitrary moment; t = 1 s context timeout
//	clients    multisets over {1, 2, 3, f1, s1, w1}: genuine client with that secret (3 is never registered); f1 = forged client replaying secret 1's public hello random with its own certificate; s1 / w1 = genuine client that stalls before the hello / after the server's flight
func enumRoute(fam string, parts []string) []*instance {
	mode := parts[1]
	pb := bound(parts)
	delay := false
	for _, p := range parts {
		var d int
		if n, _ := fmt.Sscanf(p, "d%d", &d); n == 1 {
			pb, delay = d, true
		}
	}
	var accSets, cliSets [][]string
	if strings.HasPrefix(parts[2], "=") {
		ac := strings.SplitN(parts[2][1:], "/", 2)
		accSets = [][]string{strings.Split(ac[0], ",")}
		if ac[1] == "" {
			cliSets = [][]string{nil}
		} else {
			cliSets = [][]string{strings.Split(ac[1], ",")}
		}
	} else {
		nA, _ := strconv.Atoi(parts[2])
		nC, _ := strconv.Atoi(parts[3])
		accSets = multisets([]string{"1", "2", "1c", "2c", "1t"}, nA)
		cliSets = multisets([]string{"1", "2", "3", "f1", "s1", "w1"}, nC)
	}
	var out []*instance
	for _, as := range accSets {
		for _, cs := range cliSets {
			name := fmt.Sprintf("%s#acc=%s;cli=%s", fam, strings.Join(as, ","), strings.Join(cs, ","))
			out = append(out, routeInstance(name, mode, as, cs, pb, delay))
		}
	}
	return out
}

func multisets(alpha []string, n int) [][]string {
	var out [][]string
	var gen func(start int, cur []string)
	gen = func(start int, cur []string) {
		if len(cur) == n {
			out = append(out, append([]string{}, cur...))
			return
		}
		for i := start; i < len(alpha); i++ {
			gen(i, append(cur, alpha[i]))
		}
	}
	gen(0, nil)
	return out
}

type accRes struct {
	secret   int
	canceler bool
	timeout  time.Duration
	done     bool
	err      error
	peer     *vdtls.Peer
	tag      string
	tagErr   error
	at       time.Duration
	ctx      vctx.Context
}

func routeInstance(name, mode string, accs, clis []string, pb int, delay bool) *instance {
	for i := 1; i <= 3; i++ {
		credOf(i)
	}
	credOf(9) // the forger's own credentials
	mk := func() *vsched.Scenario {
		vsctp.MaxMessage = 64
		fl := &fakeListener{}
		res := make([]*accRes, len(accs))
		peers := make([]*vdtls.Peer, len(clis))
		peerSecret := make([]int, len(clis))
		forged := make([]bool, len(clis))
		for j, c := range clis {
			kind := byte('g')
			idx := c
			if c[0] == 'f' || c[0] == 's' || c[0] == 'w' {
				kind, idx = c[0], c[1:]
			}
			si, _ := strconv.Atoi(idx)
			cr := credOf(si)
			p := &vdtls.Peer{Name: fmt.Sprintf("cli%d(%s)", j, c), Random: cr.random, ClientCert: cr.clientDER, Behaviour: "ok",
				Addr: &net.UDPAddr{IP: net.IPv4(203, 0, 113, byte(10+j)), Port: 40000 + j}}
			want := cr.serverDER
			p.VerifyServer = func(der []byte) error { return dtls.VerifVerifyCert(der, want) }
			switch kind {
			case 'f':
				p.ClientCert = credOf(9).clientDER
				p.VerifyServer = nil // the forger accepts whatever the server presents
				forged[j] = true
			case 's':
				p.Behaviour = "stall-hello"
			case 'w':
				p.Behaviour = "stall-cert"
			}
			p.Stream = &vmsg.Stream{Name: p.Name + ".stream", Max: 64, In: []vmsg.In{{Data: defaultHB}, {Data: []byte(fmt.Sprintf("tag:%d:%d", si, j))}}}
			peers[j] = p
			peerSecret[j] = si
		}
		var l *dtls.Listener
		remaining := len(accs)
		sizesA, sizesB := -1, -1
		authFails := 0
		body := func() {
			var err error
			l, err = dtls.NewListener(fl, &dtls.Config{LogAuthFail: func(*net.IP) { authFails++ }, LogOther: func(*net.IP) {}})
			if err != nil {
				panic(err)
			}
			for i, a := range accs {
				r := &accRes{timeout: 10 * time.Second}
				r.secret, _ = strconv.Atoi(strings.TrimRight(a, "ct"))
				r.canceler = strings.HasSuffix(a, "c")
				if strings.HasSuffix(a, "t") {
					r.timeout = time.Second
				}
				res[i] = r
				i := i
				vsched.GoNamed(fmt.Sprintf("acc%d(%s)", i, a), func() {
					ctx, cancel := vctx.WithTimeout(vctx.Background(), r.timeout)
					defer cancel()
					r.ctx = ctx
					if r.canceler {
						vsched.GoNamed(fmt.Sprintf("cancel%d", i), func() { cancel() })
					}
					cfg := &dtls.Config{PSK: credOf(r.secret).secret, SCTP: dtls.ServerAccept}
					var c net.Conn
					if mode == "core" {
						c, r.err = dtls.VerifAcceptDTLS(l, ctx, cfg)
						if r.err == nil {
							r.peer = c.(*vdtls.Conn).VerifPeer()
						}
					} else {
						c, r.err = l.AcceptWithContext(ctx, cfg)
						if r.err == nil {
							buf := make([]byte, 32)
							n, err := c.Read(buf)
							r.tag, r.tagErr = string(buf[:n]), err
							c.Close()
						}
					}
					r.at = time.Duration(vsched.ClockNanos())
					r.done = true
					remaining--
				})
			}
			for j := range clis {
				j := j
				vsched.GoNamed(peers[j].Name, func() { fl.q = append(fl.q, peers[j]) })
			}
			vsched.Do(&vsched.Op{Kind: "wait", Obj: "acceptors", Enabled: func() bool { return remaining == 0 }})
			sizesA, sizesB = dtls.VerifListenerSizes(l)
			l.Close()
		}
		setup := func(x *vsched.Exec) {
			x.DelayBounded = delay
			x.StateKey = func() uint64 {
				h := uint64(1469598103934665603)
				mix := func(v uint64) { h = (h ^ v) * 1099511628211 }
				if l != nil {
					mix(dtls.VerifListenerKey(l))
				}
				mix(uint64(len(fl.q)))
				for _, c := range fl.q {
					for _, b := range []byte(c.(*vdtls.Peer).Name) {
						mix(uint64(b))
					}
				}
				if fl.closed {
					mix(77)
				}
				for _, r := range res {
					if r == nil {
						mix(1)
						continue
					}
					v := uint64(2)
					if r.done {
						v |= 4
					}
					if r.err != nil {
						v |= 8
					}
					if r.peer != nil {
						v |= 16
					}
					if r.ctx != nil && r.ctx.Err() != nil {
						v |= 32
					}
					mix(v)
					mix(uint64(len(r.tag)))
				}
				for _, p := range peers {
					v := uint64(0)
					if p.HandshakeDone {
						v |= 1
					}
					if p.HandshakeErr != nil {
						v |= 2
					}
					if p.ServerCertOK {
						v |= 4
					}
					if p.Closed {
						v |= 8
					}
					if p.GotServerCert != nil {
						v |= 16
					}
					mix(v)
					mix(uint64(p.Stream.Consumed())<<8 | uint64(p.Stream.CloseCalls))
				}
				return h
			}
		}
		check := func(x *vsched.Exec) *vsched.Violation {
			if x.Verdict == vsched.VPanic {
				return &vsched.Violation{Key: "panic", What: x.Detail}
			}
			if x.Verdict == vsched.VLivelock {
				return &vsched.Violation{Key: "livelock", What: x.Detail}
			}
			if remaining != 0 {
				return &vsched.Violation{Key: "accept-never-returns", What: fmt.Sprintf("%d accept calls never returned (%s): %s", remaining, x.Verdict, x.Detail)}
			}
			if sizesA != 0 || sizesB != 0 {
				return &vsched.Violation{Key: "registration-leaked", What: fmt.Sprintf("after every accept returned: %d channels and %d certificate pairs still registered", sizesA, sizesB)}
			}
			nSecret := map[int]int{}
			for _, r := range res {
				nSecret[r.secret]++
			}
			used := map[string]int{}
			for i, r := range res {
				if r.err == nil {
					var ps int
					var who string
					if mode == "core" {
						who = r.peer.Name
						for j, p := range peers {
							if p == r.peer {
								ps = peerSecret[j]
								if forged[j] {
									return &vsched.Violation{Key: "forged-client-accepted", What: fmt.Sprintf("acceptor %d (secret %d) received %s", i, r.secret, who)}
								}
							}
						}
					} else {
						if r.tagErr != nil {
							return &vsched.Violation{Key: "accepted-connection-unusable", What: fmt.Sprintf("acceptor %d: first read on the accepted connection: %q, %v", i, r.tag, r.tagErr)}
						}
						var j int
						if n, _ := fmt.Sscanf(r.tag, "tag:%d:%d", &ps, &j); n != 2 {
							return &vsched.Violation{Key: "stream-altered", What: fmt.Sprintf("acceptor %d read %q", i, r.tag)}
						}
						who = peers[j].Name
						if forged[j] {
							return &vsched.Violation{Key: "forged-client-accepted", What: fmt.Sprintf("acceptor %d (secret %d) received %s", i, r.secret, who)}
						}
					}
					if ps != r.secret {
						return &vsched.Violation{Key: "cross-delivery", What: fmt.Sprintf("acceptor %d waits for secret %d and received the session of %s", i, r.secret, who)}
					}
					used[who]++
					if used[who] > 1 {
						return &vsched.Violation{Key: "delivered-twice", What: who + " was delivered to two acceptors"}
					}
					continue
				}
				if strings.Contains(r.err.Error(), "already registered") {
					if nSecret[r.secret] < 2 {
						return &vsched.Violation{Key: "spurious-already-registered", What: fmt.Sprintf("acceptor %d is the only one for secret %d: %v", i, r.secret, r.err)}
					}
					continue
				}
				if !errors.Is(r.err, vctx.Canceled) && !errors.Is(r.err, vctx.DeadlineExceeded) {
					return &vsched.Violation{Key: "accept-error", What: fmt.Sprintf("acceptor %d: %v", i, r.err)}
				}
				if errors.Is(r.err, vctx.Canceled) && !r.canceler {
					return &vsched.Violation{Key: "accept-error", What: fmt.Sprintf("acceptor %d reports cancellation but nobody cancelled it", i)}
				}
			}
			// delivery: a handshake can only complete while an acceptor of that secret is registered, and the
			// registration (channel first, certificates second; removed in the opposite order) stays until that
			// acceptor returns. So if nobody cancels the acceptors of a secret and a genuine client of that secret
			// completed its handshake before the earliest of their deadlines, at least one of them got a connection
			// (with equal secrets the later acceptor is refused and must not disturb the earlier one).
			for s, cnt := range nSecret {
				if cnt == 0 {
					continue
				}
				minTO := time.Duration(1 << 62)
				cancelled, got := false, 0
				for _, r := range res {
					if r.secret != s {
						continue
					}
					if r.canceler {
						cancelled = true
					}
					if r.timeout < minTO {
						minTO = r.timeout
					}
					if r.err == nil {
						got++
					}
				}
				if cancelled || got > 0 {
					continue
				}
				for j, p := range peers {
					if peerSecret[j] == s && !forged[j] && p.HandshakeDone && p.HandshakeAt < minTO {
						return &vsched.Violation{Key: "completed-handshake-not-delivered", What: fmt.Sprintf("%s completed the handshake at %v but none of the %d uncancelled acceptor(s) of secret %d (earliest deadline %v) received a connection", p.Name, p.HandshakeAt, cnt, s, minTO)}
					}
				}
			}
			for j, p := range peers {
				if !p.HandshakeDone {
					continue
				}
				if forged[j] {
					return &vsched.Violation{Key: "forged-client-handshake-completed", What: p.Name + " completed the handshake without the secret"}
				}
				if nSecret[peerSecret[j]] == 0 {
					return &vsched.Violation{Key: "unregistered-secret-handshake-completed", What: fmt.Sprintf("%s completed the handshake although nobody accepts secret %d", p.Name, peerSecret[j])}
				}
			}
			return nil
		}
		outcome := func(x *vsched.Exec) string {
			var parts []string
			for _, r := range res {
				switch {
				case r.err == nil:
					parts = append(parts, "conn")
				case strings.Contains(r.err.Error(), "already"):
					parts = append(parts, "dup")
				case errors.Is(r.err, vctx.Canceled):
					parts = append(parts, "cancel")
				default:
					parts = append(parts, "timeout")
				}
			}
			var hs []string
			for _, p := range peers {
				hs = append(hs, fmt.Sprint(p.HandshakeDone))
			}
			sort.Strings(hs)
			return x.Verdict + " " + strings.Join(parts, ",") + " hs=" + strings.Join(hs, ",")
		}
		return &vsched.Scenario{Setup: setup, Body: body, Check: check, Outcome: outcome}
	}
	return &instance{name: name, mk: mk, cfg: vsched.Config{PreemptBound: pb, MaxPoints: 6000, Prune: true}}
}
