package main

import "github.com/refraction-networking/conjure/pkg/zzverif/vh"

func enumHBLoss(fam string, parts []string) []*instance { return nil }
func enumFlow(fam string, parts []string) []*instance   { return nil }
func enumRoute(fam string, parts []string) []*instance  { return nil }
func runCred(a *vh.Args, name string)                   {}
