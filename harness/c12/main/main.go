//go:build verif

package main

import "github.com/refraction-networking/conjure/pkg/regserver/regprocessor"

func main() { regprocessor.VerifC12Main() }
