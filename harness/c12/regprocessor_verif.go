//go:build verif

package regprocessor

// C12 harness: bidirectional registration requests x registrar configurations
// x every class of every random draw (environment choices), through the real
// RegisterBidirectional; the forwarded ZMQ bytes go into a real station's
// parseRegMessage. Oracle: client view == forwarded == station registration.

import (
	"bytes"
	"crypto/ed25519"
	"encoding/binary"
	"fmt"
	"math/big"
	"net"
	"sort"
	"strings"
	"time"

	zmq "github.com/pebbe/zmq4"
	"github.com/refraction-networking/conjure/pkg/core"
	"github.com/refraction-networking/conjure/pkg/core/interfaces"
	"github.com/refraction-networking/conjure/pkg/metrics"
	"github.com/refraction-networking/conjure/pkg/phantoms"
	"github.com/refraction-networking/conjure/pkg/regserver/overrides"
	"github.com/refraction-networking/conjure/pkg/station/lib"
	"github.com/refraction-networking/conjure/pkg/transports"
	"github.com/refraction-networking/conjure/pkg/transports/wrapping/min"
	"github.com/refraction-networking/conjure/pkg/transports/wrapping/obfs4"
	"github.com/refraction-networking/conjure/pkg/transports/wrapping/prefix"
	"github.com/refraction-networking/conjure/pkg/zzverif/vcrand"
	"github.com/refraction-networking/conjure/pkg/zzverif/venum"
	"github.com/refraction-networking/conjure/pkg/zzverif/vfix"
	"github.com/refraction-networking/conjure/pkg/zzverif/vh"
	"github.com/refraction-networking/conjure/pkg/zzverif/vrand"
	pb "github.com/refraction-networking/conjure/proto"
	log "github.com/sirupsen/logrus"
	"google.golang.org/protobuf/proto"
	"google.golang.org/protobuf/types/known/anypb"
)

// ---- environment: every draw is a choice among classes ---------------------

type c12Env struct {
	choices       []int
	pos           int
	widths        []int
	labels        []string
	floatBounds   []float64
	intThresholds []int64
}

func (e *c12Env) pick(n int, label string) int {
	c := 0
	if e.pos < len(e.choices) {
		c = e.choices[e.pos]
	}
	e.pos++
	e.widths = append(e.widths, n)
	e.labels = append(e.labels, label)
	if c >= n {
		c = n - 1
	}
	return c
}

// intClasses: representative values of [0,max): 0, max-1, every threshold-1 and threshold that lies inside.
func (e *c12Env) intClasses(max int64) []int64 {
	set := map[int64]bool{0: true, max - 1: true}
	for _, t := range e.intThresholds {
		for _, v := range []int64{t - 1, t} {
			if v >= 0 && v < max {
				set[v] = true
			}
		}
	}
	if max >= 1000 {
		// quartile boundaries, so that a draw re-used against a weight table is still covered
		for k := int64(1); k <= 3; k++ {
			set[k*max/4-1], set[k*max/4] = true, true
		}
	}
	if max <= 16 {
		for i := int64(0); i < max; i++ {
			set[i] = true
		}
	}
	var out []int64
	for v := range set {
		out = append(out, v)
	}
	sort.Slice(out, func(i, j int) bool { return out[i] < out[j] })
	return out
}

func (e *c12Env) install() {
	vcrand.IntScript = func(max *big.Int) (*big.Int, bool) {
		if !max.IsInt64() || max.Int64() <= 0 {
			return nil, false
		}
		cl := e.intClasses(max.Int64())
		return big.NewInt(cl[e.pick(len(cl), fmt.Sprintf("Int(%d)", max.Int64()))]), true
	}
	vrand.Script = func(kind string, n int64) (float64, bool) {
		if kind != "Float64" {
			return 0, false
		}
		set := map[float64]bool{0: true, 0.999: true}
		for _, b := range e.floatBounds {
			for _, v := range []float64{b - 1e-9, b + 1e-9} {
				if v >= 0 && v < 1 {
					set[v] = true
				}
			}
		}
		var cl []float64
		for v := range set {
			cl = append(cl, v)
		}
		sort.Float64s(cl)
		return cl[e.pick(len(cl), "Float64")], true
	}
}

// ---- configurations ----------------------------------------------------------

type c12Cfg struct {
	name        string
	auth        bool
	overrides   string // none, rand, fixed, file
	enforce     bool
	subnets     []Subnet
	exclusions  []Subnet
	pMin, pPref float64
}

func c12Subnet(cidr string, w float64, tr string, pid prefix.PrefixID, port uint32) Subnet {
	_, n, err := net.ParseCIDR(cidr)
	if err != nil {
		panic(err)
	}
	return Subnet{CIDR: Ipnet{n}, Weight: w, Transport: tr, PrefixId: pid, Port: port}
}

// c12RefCumulative is the cumulative normalised weight table computed independently of the code under test.
func c12RefCumulative(ss []Subnet) []float64 {
	total := 0.0
	for _, s := range ss {
		total += s.Weight
	}
	if total <= 0 {
		return nil
	}
	var out []float64
	acc := 0.0
	for _, s := range ss {
		acc += s.Weight / total
		out = append(out, acc)
	}
	return out
}

func c12Configs() []c12Cfg {
	three := []Subnet{
		c12Subnet("198.51.100.0/28", 1, "Min_Transport", 0, 0), c12Subnet("198.51.100.64/28", 0, "Min_Transport", 0, 0), c12Subnet("198.51.100.128/28", 3, "Min_Transport", 0, 0),
		c12Subnet("203.0.113.0/28", 1, "Prefix_Transport", prefix.GetLong, 80), c12Subnet("203.0.113.64/28", 0, "Prefix_Transport", prefix.TLSClientHello, 443), c12Subnet("203.0.113.128/28", 3, "Prefix_Transport", prefix.OpenSSH2, 22),
	}
	// a zero weight between a heavier and a lighter subnet: a cumulative table that restarts after the zero entry
	// leaves the lighter one unreachable
	desc := []Subnet{
		c12Subnet("198.51.100.0/28", 3, "Min_Transport", 0, 0), c12Subnet("198.51.100.64/28", 0, "Min_Transport", 0, 0), c12Subnet("198.51.100.128/28", 1, "Min_Transport", 0, 0),
		c12Subnet("203.0.113.0/28", 3, "Prefix_Transport", prefix.GetLong, 80), c12Subnet("203.0.113.64/28", 0, "Prefix_Transport", prefix.TLSClientHello, 443), c12Subnet("203.0.113.128/28", 1, "Prefix_Transport", prefix.OpenSSH2, 22),
	}
	lastZero := []Subnet{
		c12Subnet("198.51.100.0/28", 2, "Min_Transport", 0, 0), c12Subnet("198.51.100.64/28", 0, "Min_Transport", 0, 0),
		c12Subnet("203.0.113.0/28", 2, "Prefix_Transport", prefix.GetLong, 80), c12Subnet("203.0.113.64/28", 0, "Prefix_Transport", prefix.TLSClientHello, 443),
	}
	one := []Subnet{c12Subnet("198.51.100.0/30", 1, "Min_Transport", 0, 0), c12Subnet("203.0.113.0/30", 1, "Prefix_Transport", prefix.HTTPResp, 8080)}
	four := []Subnet{
		c12Subnet("198.51.100.0/29", 1, "Min_Transport", 0, 0), c12Subnet("198.51.100.8/29", 1, "Min_Transport", 0, 0), c12Subnet("198.51.100.16/29", 1, "Min_Transport", 0, 0), c12Subnet("198.51.100.24/29", 1, "Min_Transport", 0, 0),
		c12Subnet("203.0.113.0/29", 1, "Prefix_Transport", prefix.GetLong, 80), c12Subnet("203.0.113.8/29", 1, "Prefix_Transport", prefix.PostLong, 80), c12Subnet("203.0.113.16/29", 1, "Prefix_Transport", prefix.HTTPResp, 80), c12Subnet("203.0.113.24/29", 2, "Prefix_Transport", prefix.DNSOverTCP, 53),
	}
	// override subnets whose prefix_id names no prefix (a typo in reg_config.toml): 99, the first id past the table, -2
	bad := func(id prefix.PrefixID) []Subnet {
		return []Subnet{c12Subnet("198.51.100.0/30", 1, "Min_Transport", 0, 0), c12Subnet("203.0.113.0/30", 1, "Prefix_Transport", id, 8443)}
	}
	excl := []Subnet{c12Subnet("192.122.190.0/24", 0, "", 0, 0), c12Subnet("141.219.0.0/16", 0, "", 0, 0), c12Subnet("35.8.0.0/16", 0, "", 0, 0)}
	var out []c12Cfg
	for _, auth := range []bool{false, true} {
		for _, ov := range []string{"none", "rand", "fixed", "file"} {
			out = append(out, c12Cfg{name: fmt.Sprintf("auth=%v;ov=%s;enforce=off", auth, ov), auth: auth, overrides: ov})
		}
	}
	for _, ov := range []string{"none", "rand"} {
		for si, ss := range [][]Subnet{nil, one, three, lastZero, four, desc, bad(99), bad(prefix.PrefixID(len(prefix.DefaultPrefixes))), bad(-2)} {
			for _, pc := range []float64{0, 25, 50, 100, 150} {
				for ei, ex := range [][]Subnet{nil, excl} {
					out = append(out, c12Cfg{name: fmt.Sprintf("auth=true;ov=%s;enforce=on;subnets=%d;pct=%v;excl=%d", ov, si, pc, ei), auth: true, overrides: ov, enforce: true, subnets: ss, exclusions: ex, pMin: pc, pPref: pc})
				}
			}
		}
	}
	return out
}

// ---- requests ------------------------------------------------------------------

type c12Req struct {
	name    string
	tt      pb.TransportType
	params  proto.Message
	v4, v6  bool
	disable bool
	forged  bool
	gen     uint32
	src     string // registration_source the client put into its own message ("" = none, as stock clients do)
}

func c12Requests(thorough bool) []c12Req {
	var out []c12Req
	type tp struct {
		n  string
		tt pb.TransportType
		p  proto.Message
	}
	tps := []tp{{"min:absent", pb.TransportType_Min, nil}, {"min:R", pb.TransportType_Min, &pb.GenericTransportParams{RandomizeDstPort: proto.Bool(true)}},
		{"obfs4:r", pb.TransportType_Obfs4, &pb.GenericTransportParams{RandomizeDstPort: proto.Bool(false)}},
		{"prefix:0:r", pb.TransportType_Prefix, &pb.PrefixTransportParams{PrefixId: proto.Int32(0), RandomizeDstPort: proto.Bool(false)}},
		{"prefix:4:R", pb.TransportType_Prefix, &pb.PrefixTransportParams{PrefixId: proto.Int32(4), RandomizeDstPort: proto.Bool(true)}},
		{"prefix:9:r:f2", pb.TransportType_Prefix, &pb.PrefixTransportParams{PrefixId: proto.Int32(9), RandomizeDstPort: proto.Bool(false), CustomFlushPolicy: proto.Int32(2)}}}
	if thorough {
		for id := int32(1); id <= 8; id++ {
			if id == 4 {
				continue
			}
			tps = append(tps, tp{fmt.Sprintf("prefix:%d:R", id), pb.TransportType_Prefix, &pb.PrefixTransportParams{PrefixId: proto.Int32(id), RandomizeDstPort: proto.Bool(true)}})
		}
	}
	for _, t := range tps {
		for _, fam := range [][2]bool{{true, false}, {false, true}, {true, true}} {
			for _, dis := range []bool{false, true} {
				for _, forged := range []bool{false, true} {
					for _, gen := range []uint32{1, 2} {
						out = append(out, c12Req{fmt.Sprintf("%s;v4=%v;v6=%v;disable=%v;forged=%v;gen=%d", t.n, fam[0], fam[1], dis, forged, gen), t.tt, t.p, fam[0], fam[1], dis, forged, gen, ""})
						if !forged && gen == 1 {
							// a client that fills in registration_source itself (the registrar only sets it when unspecified)
							for _, src := range []string{"API", "Detector", "DNS"} {
								out = append(out, c12Req{fmt.Sprintf("%s;v4=%v;v6=%v;disable=%v;forged=%v;gen=%d;client-source=%s", t.n, fam[0], fam[1], dis, forged, gen, src), t.tt, t.p, fam[0], fam[1], dis, forged, gen, src})
							}
						}
					}
				}
			}
		}
	}
	return out
}

type c12Sender struct{ msgs [][]byte }

func (s *c12Sender) SendBytes(b []byte, _ zmq.Flag) (int, error) {
	s.msgs = append(s.msgs, append([]byte{}, b...))
	return len(b), nil
}
func (s *c12Sender) Close() error { return nil }

var c12FilePrefixes = "100 50 1 80 GET\n100 100 4 443 TLS\n"

// VerifC12Main is the worker entry point.
func VerifC12Main() {
	a := vh.Parse()
	log.SetLevel(log.PanicLevel)
	e := venum.New(fmt.Sprintf("registrar:shard%d/%d", a.ShardI, a.ShardN), a)
	sel := vfix.Selector(vfix.SubnetsTOML)
	met := metrics.NewMetrics(log.NewEntry(log.StandardLogger()), 1000*time.Hour)
	pub, priv, _ := ed25519.GenerateKey(nil)
	reqs := c12Requests(a.Thorough())
	cfgs := c12Configs()
	n := 0
	// per (cfg, transport) bookkeeping for "every non-zero-weight subnet used, zero-weight ones never"
	used := map[string]map[string]bool{}
	substitutable := map[string]bool{}
	for ci, cfg := range cfgs {
		for _, rq := range reqs {
			if cfg.enforce && !a.Thorough() && (rq.forged || rq.gen == 1) {
				continue // quick: forged fields and the non-randomising generation are crossed with the enforce=off configurations only
			}
			n++
			if n%a.ShardN != a.ShardI {
				continue
			}
			minS, preS := splitOverrideSubnets(cfg.subnets)
			pMin, pPre := validateOverridePercentages(cfg.pMin, cfg.pPref)
			env := &c12Env{}
			for _, w := range [][]float64{processOverrideSubnetsWeights(minS), processOverrideSubnetsWeights(preS), c12RefCumulative(minS), c12RefCumulative(preS)} {
				env.floatBounds = append(env.floatBounds, w...) // class boundaries: the code's own table and the one computed here from the weights
			}
			env.intThresholds = []int64{int64(pMin * 10), int64(pPre * 10), 50}
			// DFS over draw classes
			var stack [][]int
			stack = append(stack, nil)
			for len(stack) > 0 {
				ch := stack[len(stack)-1]
				stack = stack[:len(stack)-1]
				if !e.Case() {
					goto done
				}
				env.choices, env.pos, env.widths, env.labels = ch, 0, nil, nil
				env.install()
				c12One(e, cfg, ci, rq, env, sel, met, pub, priv, minS, preS, pMin, pPre, used, substitutable)
				for i := len(ch); i < len(env.widths); i++ {
					for alt := 1; alt < env.widths[i]; alt++ {
						nc := make([]int, i+1)
						copy(nc, env.choices)
						for k := len(ch); k < i; k++ {
							nc[k] = 0
						}
						nc[i] = alt
						stack = append(stack, nc)
					}
				}
			}
		}
	}
done:
	vcrand.IntScript, vrand.Script = nil, nil
	// coverage oracle over draw classes
	if !e.Stopped {
		for key := range substitutable {
			parts := strings.SplitN(key, "|", 2)
			var cfg c12Cfg
			for _, c := range cfgs {
				if c.name == parts[0] {
					cfg = c
				}
			}
			for _, s := range cfg.subnets {
				if s.Transport != parts[1] {
					continue
				}
				u := used[key][s.CIDR.String()]
				if s.Transport == "Prefix_Transport" && s.PrefixId != prefix.Rand {
					if _, known := prefix.DefaultPrefixes[s.PrefixId]; !known {
						continue // a subnet whose prefix_id names no prefix cannot be applied: nothing says it has to be
					}
				}
				if s.Weight > 0 && !u {
					e.Violation("override-subnet-never-used", fmt.Sprintf("config %s transport %s: subnet %s has weight %v but no draw class selects it", cfg.name, parts[1], s.CIDR.String(), s.Weight), map[string]any{"case": key})
				}
				if s.Weight == 0 && u {
					e.Violation("zero-weight-override-subnet-used", fmt.Sprintf("config %s transport %s: subnet %s has weight 0 but is selected", cfg.name, parts[1], s.CIDR.String()), map[string]any{"case": key})
				}
			}
		}
	}
	e.Finish()
}

func c12One(e *venum.E, cfg c12Cfg, ci int, rq c12Req, env *c12Env, sel *phantoms.PhantomIPSelector, met *metrics.Metrics, pub ed25519.PublicKey, priv ed25519.PrivateKey,
	minS, preS []Subnet, pMin, pPre float64, used map[string]map[string]bool, substitutable map[string]bool) {
	snd := &c12Sender{}
	p := &RegProcessor{ipSelector: sel, sock: snd, metrics: met, authenticated: cfg.auth, privkey: priv,
		enforceSubnetOverrides: cfg.enforce, minOverrideSubnets: minS, prefixOverrideSubnets: preS,
		minOverrideSubnetsCumulativeWeights: processOverrideSubnetsWeights(minS), prefixOverrideSubnetsCumulativeWeights: processOverrideSubnetsWeights(preS),
		exclusionsFromOverride: cfg.exclusions, prcntMinRegsToOverride: pMin, prcntPrefixRegsToOverride: pPre}
	switch cfg.overrides {
	case "rand":
		p.regOverrides = interfaces.Overrides([]interfaces.RegOverride{overrides.NewRandPrefixOverride()})
	case "fixed":
		p.regOverrides = interfaces.Overrides([]interfaces.RegOverride{overrides.NewFixedPrefixOverride(prefix.DefaultPrefixes[prefix.GetLong])})
	case "file":
		po, err := overrides.ParsePrefixes(strings.NewReader(c12FilePrefixes))
		if err != nil {
			vh.Fatal("prefix overrides: %v", err)
		}
		p.regOverrides = interfaces.Overrides([]interfaces.RegOverride{po})
	}
	_ = p.AddTransport(pb.TransportType_Min, min.Transport{})
	_ = p.AddTransport(pb.TransportType_Obfs4, obfs4.Transport{})
	_ = p.AddTransport(pb.TransportType_Prefix, prefix.DefaultSet())
	m := vfix.Msg{Secret: vfix.Secret(40 + ci%3), Transport: rq.tt, Params: rq.params, V4: rq.v4, V6: rq.v6, Gen: rq.gen, LibVer: 4, Covert: "93.184.216.34:443", Source: pb.RegistrationSource_Unspecified}
	w := m.Wrapper()
	w.RegistrationSource = nil
	if rq.src != "" {
		cs := pb.RegistrationSource(pb.RegistrationSource_value[rq.src])
		w.RegistrationSource = &cs
	}
	w.RegistrationPayload.DisableRegistrarOverrides = proto.Bool(rq.disable)
	origParams := proto.Clone(w.RegistrationPayload).(*pb.ClientToStation).GetTransportParams()
	if rq.forged {
		fp, _ := anypb.New(&pb.PrefixTransportParams{PrefixId: proto.Int32(7)})
		w.RegistrationResponse = &pb.RegistrationResponse{Ipv4Addr: proto.Uint32(0x01010101), DstPort: proto.Uint32(1), TransportParams: fp}
		w.RegRespBytes = []byte("forged")
		w.RegRespSignature = []byte("forged-signature")
	}
	id := fmt.Sprintf("cfg=%s;req=%s;draws=%v", cfg.name, rq.name, env.choices)
	var resp *pb.RegistrationResponse
	var err error
	if pnc, msg, site := venum.Guard(func() {
		resp, err = p.RegisterBidirectional(w, pb.RegistrationSource_BidirectionalAPI, []byte{203, 0, 113, 50})
	}); pnc {
		e.Violation("panic:"+site, msg+" "+id, map[string]any{"case": id})
		return
	}
	id = fmt.Sprintf("cfg=%s;req=%s;draws=%v(%v)", cfg.name, rq.name, env.choices, env.labels)
	if err != nil {
		if len(snd.msgs) != 0 {
			e.Violation("forwarded-despite-error", id, map[string]any{"case": id})
		}
		return
	}
	e.Nontrivial(fmt.Sprintf("%s|%s|%v", cfg.name, rq.name, env.choices))
	if len(snd.msgs) != 1 {
		e.Violation("forward-count", fmt.Sprintf("%s: %d messages", id, len(snd.msgs)), map[string]any{"case": id})
		return
	}
	fw := &pb.C2SWrapper{}
	if uerr := proto.Unmarshal(snd.msgs[0], fw); uerr != nil {
		e.Violation("forward-unparsable", id, map[string]any{"case": id})
		return
	}
	// (1) returned == forwarded
	if !proto.Equal(resp, fw.GetRegistrationResponse()) {
		e.Violation("client-response-differs-from-forwarded", fmt.Sprintf("%s: client %v forwarded %v", id, resp, fw.GetRegistrationResponse()), map[string]any{"case": id})
	}
	// (3) forged fields
	if cfg.auth {
		rr := &pb.RegistrationResponse{}
		if uerr := proto.Unmarshal(fw.GetRegRespBytes(), rr); uerr != nil || !proto.Equal(rr, resp) || !ed25519.Verify(pub, fw.GetRegRespBytes(), fw.GetRegRespSignature()) {
			e.Violation("signed-response-mismatch", id, map[string]any{"case": id})
		}
	} else if fw.RegRespBytes != nil || fw.RegRespSignature != nil {
		e.Violation("forged-signature-fields-forwarded", id, map[string]any{"case": id})
	}
	if rq.forged && (resp.GetDstPort() == 1 || resp.GetIpv4Addr() == 0x01010101) {
		e.Violation("forged-response-survives", id, map[string]any{"case": id})
	}
	// (4) params only when allowed
	if rq.disable && resp.GetTransportParams() != nil {
		e.Violation("params-overridden-although-disabled", id, map[string]any{"case": id})
	}
	// derived phantom (what the client would compute itself)
	keys, _ := coreKeys(w.SharedSecret)
	var derived4 net.IP
	if rq.v4 {
		ph, serr := sel.Select(keys, uint(rq.gen), 4, false)
		if serr == nil {
			derived4 = *ph.IP()
		}
	}
	// (5)/(6) substitution
	if rq.v4 && derived4 != nil {
		got := make(net.IP, 4)
		binary.BigEndian.PutUint32(got, resp.GetIpv4Addr())
		tname := ""
		var pool []Subnet
		switch rq.tt {
		case pb.TransportType_Min:
			tname, pool = "Min_Transport", minS
		case pb.TransportType_Prefix:
			tname, pool = "Prefix_Transport", preS
		}
		excluded := false
		for _, x := range cfg.exclusions {
			if x.CIDR.Contains(derived4) {
				excluded = true
			}
		}
		if !got.Equal(derived4) {
			if excluded {
				e.Violation("excluded-phantom-replaced", fmt.Sprintf("%s: derived %v replaced by %v", id, derived4, got), map[string]any{"case": id})
			}
			in := ""
			for _, s := range pool {
				if s.CIDR.Contains(got) {
					in = s.CIDR.String()
				}
			}
			if in == "" {
				e.Violation("substitute-outside-override-subnets", fmt.Sprintf("%s: %v is in no override subnet configured for %s", id, got, tname), map[string]any{"case": id})
			} else {
				k := cfg.name + "|" + tname
				if used[k] == nil {
					used[k] = map[string]bool{}
				}
				used[k][in] = true
			}
		}
		// a (config, transport) pair can substitute if enforcement is on, a pool exists, the percentage is > 0,
		// the derived phantom is not excluded, and (prefix) overrides are not disabled
		pct := pMin
		if rq.tt == pb.TransportType_Prefix {
			pct = pPre
		}
		if cfg.enforce && len(pool) > 0 && pct > 0 && !excluded && !(rq.tt == pb.TransportType_Prefix && rq.disable) && tname != "" {
			substitutable[cfg.name+"|"+tname] = true
		}
	}
	// (2) station view
	rm := vfix.Manager(nil, sel, &vfix.Tester{}, vfix.AllWrapping, nil)
	regs, perr := rm.VerifParseRegMessage(snd.msgs[0])
	if perr != nil {
		e.Violation("station-rejects-forwarded", fmt.Sprintf("%s: %v", id, perr), map[string]any{"case": id})
		return
	}
	for _, r := range regs {
		if r.PhantomIp.To4() != nil {
			want := make(net.IP, 4)
			binary.BigEndian.PutUint32(want, resp.GetIpv4Addr())
			if !r.PhantomIp.Equal(want) {
				e.Violation("station-phantom-differs:v4", fmt.Sprintf("%s: client told %v, station %v", id, want, r.PhantomIp), map[string]any{"case": id})
			}
		} else if !bytes.Equal(r.PhantomIp.To16(), net.IP(resp.GetIpv6Addr()).To16()) {
			e.Violation("station-phantom-differs:v6", fmt.Sprintf("%s: client told %v, station %v", id, net.IP(resp.GetIpv6Addr()), r.PhantomIp), map[string]any{"case": id})
		}
		if uint32(r.PhantomPort) != resp.GetDstPort() {
			e.Violation("station-port-differs", fmt.Sprintf("%s: client told %d, station %d", id, resp.GetDstPort(), r.PhantomPort), map[string]any{"case": id})
		}
		wantParams := origParams
		if resp.GetTransportParams() != nil && !rq.disable {
			wantParams = resp.GetTransportParams()
		}
		if !c12ParamsEqual(rq.tt, r, wantParams) {
			e.Violation("station-params-differ", fmt.Sprintf("%s: station params %v, expected %v", id, r.TransportParams(), wantParams), map[string]any{"case": id})
		}
	}
	wantRegs := 0
	if rq.v4 {
		wantRegs++
	}
	if rq.v6 {
		wantRegs++
	}
	if len(regs) != wantRegs {
		e.Violation("station-registration-count", fmt.Sprintf("%s: %d registrations for v4=%v v6=%v", id, len(regs), rq.v4, rq.v6), map[string]any{"case": id})
	}
	if e.Out.Evaluations%5003 == 1 {
		e.Sample(map[string]any{"case": id, "ipv4": resp.GetIpv4Addr(), "port": resp.GetDstPort()})
	}
}

func c12ParamsEqual(tt pb.TransportType, r *lib.DecoyRegistration, want *anypb.Any) bool {
	got := r.TransportParams()
	if want == nil {
		if got == nil {
			return true
		}
		if m, ok := got.(proto.Message); ok {
			return m == nil || !m.ProtoReflect().IsValid()
		}
		return false
	}
	var exp proto.Message
	if tt == pb.TransportType_Prefix {
		exp = &pb.PrefixTransportParams{}
	} else {
		exp = &pb.GenericTransportParams{}
	}
	if err := transports.UnmarshalAnypbTo(proto.Clone(want).(*anypb.Any), exp); err != nil {
		return false
	}
	gm, ok := got.(proto.Message)
	return ok && proto.Equal(gm, exp)
}

func coreKeys(secret []byte) ([]byte, error) {
	k, err := core.GenSharedKeys(4, secret, 0)
	return k.ConjureSeed, err
}
