//go:build verif

package main

// C03: probe streams x segmentations x registry states x deadline draws through
// the real handleNewTCPConn on a virtual clock. Oracle: nothing written, no
// return (= close by the caller) before the classification deadline, deadline
// in [5 s, 10 s), everything offered before the deadline was read.

import (
	"bytes"
	"encoding/hex"
	"fmt"
	"github.com/refraction-networking/conjure/pkg/zzverif/vsync"
	"github.com/refraction-networking/conjure/pkg/zzverif/vtime"
	"io"
	"net"
	"os"
	"sort"
	"strings"
	"syscall"
	"time"

	cj "github.com/refraction-networking/conjure/pkg/station/lib"
	"github.com/refraction-networking/conjure/pkg/transports/wrapping/prefix"
	"github.com/refraction-networking/conjure/pkg/zzverif/vconn"
	"github.com/refraction-networking/conjure/pkg/zzverif/venum"
	"github.com/refraction-networking/conjure/pkg/zzverif/vfix"
	"github.com/refraction-networking/conjure/pkg/zzverif/vh"
	"github.com/refraction-networking/conjure/pkg/zzverif/vnet"
	"github.com/refraction-networking/conjure/pkg/zzverif/vrand"
	"github.com/refraction-networking/conjure/pkg/zzverif/vsched"
	pb "github.com/refraction-networking/conjure/proto"
	"google.golang.org/protobuf/proto"
)

type probeStream struct {
	name    string
	data    []byte
	derived bool  // contains material derived from a secret registered on the probed phantom
	cutAt   []int // additional structural cut positions for this stream
}

type probeResult struct {
	written    int
	dials      int
	closes     int
	closedAt   time.Duration
	calls      string
	returnedAt time.Duration
	deadline   time.Duration
	hasDL      bool
	read       int
	verdict    string
	detail     string
}

var c03Phantom = net.ParseIP("192.122.190.77").To4()
var c03Other = net.ParseIP("192.122.190.99").To4()

func c03Registry(kind string) *cj.RegistrationManager {
	var conf *cj.RegConfig
	if strings.HasPrefix(kind, "blocklisted-phantom") {
		// station configuration in which the probed phantom is on the phantom blocklist (e.g. added by a reload
		// while registrations for it are still tracked): what a prober sees on it must not differ
		conf = &cj.RegConfig{EnableIPv4: true, EnableIPv6: true, PhantomBlocklist: []string{"192.122.190.64/26"}}
		if err := cj.VerifParseBlocklists(conf); err != nil {
			vh.Fatal("phantom blocklist: %v", err)
		}
	}
	rm := vfix.Manager(conf, vfix.Selector(vfix.SubnetsTOML), &vfix.Tester{}, vfix.AllWrapping, nil)
	if conf != nil && !rm.IsBlocklistedPhantom(c03Phantom) {
		vh.Fatal("the probed phantom is not covered by the configured phantom blocklist")
	}
	var anns []cj.VerifDetectorMsg
	rm.VerifCaptureDetector(&anns)
	pp := &pb.PrefixTransportParams{PrefixId: proto.Int32(1)}
	gp := &pb.GenericTransportParams{RandomizeDstPort: proto.Bool(false)}
	// the secrets whose genuine flights are replayed live on another phantom in every registry
	addReg(rm, regSpec{secret: 11, tt: pb.TransportType_Min, params: gp, valid: true}, c03Other)
	addReg(rm, regSpec{secret: 12, tt: pb.TransportType_Prefix, params: pp, valid: true}, c03Other)
	addReg(rm, regSpec{secret: 13, tt: pb.TransportType_Obfs4, params: gp, valid: true}, c03Other)
	switch kind {
	case "none", "blocklisted-phantom":
	case "crowded:1500-held-connections", "crowded:1500-held-connections+min":
		// a prober that first opens many connections and leaves them idle (all of them inside their classification
		// window when the probe under test arrives): what the probe sees must not depend on the crowd
		c03Crowd[rm] = 1500
		if strings.HasSuffix(kind, "+min") {
			addReg(rm, regSpec{secret: 1, tt: pb.TransportType_Min, params: gp, valid: true}, c03Phantom)
		}
	case "geoip-v4only:client6":
		// GeoIP database files that hold IPv4 networks only (a valid MaxMind DB with ip_version 4): every lookup of an
		// IPv6 client address fails. The prober connects from an IPv6 address.
		rm.GeoIP = c17V4OnlyGeoIP()
		c03Client[rm] = net.ParseIP("2001:db8:77::77")
	case "blocklisted-phantom+min":
		addReg(rm, regSpec{secret: 1, tt: pb.TransportType_Min, params: gp, valid: true}, c03Phantom)
	case "unvalidated":
		addReg(rm, regSpec{secret: 1, tt: pb.TransportType_Min, params: gp, valid: false}, c03Phantom)
		addReg(rm, regSpec{secret: 2, tt: pb.TransportType_Prefix, params: pp, valid: false}, c03Phantom)
	case "min", "prefix", "obfs4":
		tt := map[string]pb.TransportType{"min": pb.TransportType_Min, "prefix": pb.TransportType_Prefix, "obfs4": pb.TransportType_Obfs4}[kind]
		var p proto.Message = gp
		if kind == "prefix" {
			p = pp
		}
		addReg(rm, regSpec{secret: 1, tt: tt, params: p, valid: true}, c03Phantom)
	case "validated-after-refusal":
		// a client connected before its registration was validated: its genuine flight was refused (correctly), the
		// registration became valid afterwards. Nothing of that refused connection may help the next one.
		early := regSpec{secret: 1, tt: pb.TransportType_Min, params: gp, valid: false}
		reg := addReg(rm, early, c03Phantom)
		c03Late[rm] = &c03LateReg{flight: clientFlight(early), validate: func() { rm.AddRegistration(reg) }}
	case "mixed3":
		addReg(rm, regSpec{secret: 1, tt: pb.TransportType_Min, params: gp, valid: true}, c03Phantom)
		addReg(rm, regSpec{secret: 2, tt: pb.TransportType_Prefix, params: pp, valid: true}, c03Phantom)
		addReg(rm, regSpec{secret: 3, tt: pb.TransportType_Obfs4, params: gp, valid: true}, c03Phantom)
	}
	return rm
}

type c03LateReg struct {
	flight   []byte
	validate func()
}

var c03Late = map[*cj.RegistrationManager]*c03LateReg{}

// c03Crowd: number of idle connections held open (by other threads) while the probe is handled
var c03Crowd = map[*cj.RegistrationManager]int{}

// c03Client: the prober's source address where a registry kind asks for a particular one (default 203.0.113.77)
var c03Client = map[*cj.RegistrationManager]net.IP{}

func runProbe(rm *cj.RegistrationManager, phantom net.IP, segs [][]byte, gaps []time.Duration, draw int64) probeResult {
	vrand.Script = func(kind string, n int64) (float64, bool) {
		if kind == "Int63n" {
			return float64(draw), true
		}
		return 0, false
	}
	defer func() { vrand.Script = nil }()
	cip := net.IPv4(203, 0, 113, 77)
	if ip := c03Client[rm]; ip != nil {
		cip = ip
	}
	conn := &vconn.Conn{Name: "client", Remote: &net.TCPAddr{IP: cip, Port: 54321}, Local: &net.TCPAddr{IP: phantom, Port: 443}}
	// with a crowd of held connections the probe enters one (virtual) millisecond after the start of the execution, when
	// every held connection has reached its first read; all times below are taken relative to that entry
	entry := time.Duration(0)
	if c03Crowd[rm] > 0 {
		entry = time.Millisecond
	}
	at := entry
	for i, s := range segs {
		if i > 0 {
			at += gaps[(i-1)%len(gaps)]
		}
		if len(s) == 0 {
			continue
		}
		conn.In = append(conn.In, vconn.Event{At: at, Data: s})
	}
	var res probeResult
	cm := newConnManager(nil)
	x, _ := vsched.RunOnce(nil, 0, func() *vsched.Scenario {
		return &vsched.Scenario{Body: func() {
			if draw != 0 {
				// non-initial state: the same connection manager has already classified (and given up on) an
				// unauthenticated connection; what it learnt there must not change how it treats the next one
				pc := &vconn.Conn{Name: "earlier-probe", Remote: &net.TCPAddr{IP: net.IPv4(198, 51, 100, 9), Port: 40001}, Local: &net.TCPAddr{IP: phantom, Port: 443},
					In: []vconn.Event{{Data: noise(200, "earlier")}, {Err: io.EOF}}}
				cm.handleNewTCPConn(rm, pc, phantom)
				pc.Close() // (the peer went away at once: no virtual time has passed)
			}
			if late := c03Late[rm]; late != nil {
				delete(c03Late, rm)
				pc := &vconn.Conn{Name: "early-client", Remote: &net.TCPAddr{IP: net.IPv4(198, 51, 100, 10), Port: 40002}, Local: &net.TCPAddr{IP: phantom, Port: 443},
					In: []vconn.Event{{Data: late.flight}, {Err: io.EOF}}}
				cm.handleNewTCPConn(rm, pc, phantom)
				pc.Close()
				late.validate()
			}
			vnet.DialHook = func(network, address string) (net.Conn, error) {
				res.dials++
				return nil, &net.OpError{Op: "dial", Net: network, Err: syscall.ECONNREFUSED}
			}
			var crowd vsync.WaitGroup
			if n := c03Crowd[rm]; n > 0 {
				for i := 0; i < n; i++ {
					idle := &vconn.Conn{Name: "held", Remote: &net.TCPAddr{IP: net.IPv4(198, 51, 100, byte(1+i%250)), Port: 20000 + i}, Local: &net.TCPAddr{IP: phantom, Port: 443}}
					crowd.Add(1)
					vsched.GoNamed("held", func() {
						defer crowd.Done()
						cm.handleNewTCPConn(rm, idle, phantom)
						idle.Close()
					})
				}
				vtime.Sleep(entry)
			}
			cm.handleNewTCPConn(rm, conn, phantom)
			res.returnedAt = time.Duration(vsched.ClockNanos()) - entry
			crowd.Wait()
			vnet.DialHook = nil
		}}
	})
	res.verdict, res.detail = x.Verdict, x.Detail
	res.written = len(conn.Written)
	res.closes = conn.CloseCalls
	res.closedAt = conn.ClosedAt
	if res.closedAt > 0 {
		res.closedAt -= entry
	}
	for i, c := range conn.Calls {
		if i >= len(conn.Calls)-14 {
			res.calls += fmt.Sprintf("[%s n=%d err=%q at=%v] ", c.Op, c.N, c.Err, c.At)
		}
	}
	res.read = conn.ReadBytes
	if len(conn.DeadlineSets) > 0 && !conn.DeadlineSets[0].IsZero() {
		res.hasDL = true
		res.deadline = conn.DeadlineSets[0].Sub(x.Base) - entry
	}
	return res
}

func c03Streams(a *vh.Args) []probeStream {
	var out []probeStream
	out = append(out, probeStream{"empty", nil, false, nil})
	for _, n := range []int{1, 31, 32, 33, 63, 64, 65, 8191, 8192, 8193, 16384} {
		out = append(out, probeStream{fmt.Sprintf("noise%d", n), noise(n, fmt.Sprintf("c03-%d-%d", n, a.Seed)), false, nil})
	}
	var ids []int
	for id := range prefix.DefaultPrefixes {
		ids = append(ids, int(id))
	}
	sort.Ints(ids)
	for _, id := range ids {
		pf := prefix.DefaultPrefixes[prefix.PrefixID(id)]
		sb := pf.Bytes()
		for _, d := range []int{-1, 0, 1} {
			n := len(sb) + 64 + d
			out = append(out, probeStream{fmt.Sprintf("prefix%d+noise(len=%d)", id, n), append(append([]byte{}, sb...), noise(64+d, fmt.Sprintf("p%d", id))...), false, nil})
		}
	}
	// degenerate key material where a tag would be: all-zero / all-one blocks and the small-order points of
	// Curve25519 (X25519 rejects them), alone and behind every static prefix
	lowOrder := [][]byte{
		make([]byte, 32),
		append([]byte{1}, make([]byte, 31)...),
		{0xe0, 0xeb, 0x7a, 0x7c, 0x3b, 0x41, 0xb8, 0xae, 0x16, 0x56, 0xe3, 0xfa, 0xf1, 0x9f, 0xc4, 0x6a, 0xda, 0x09, 0x8d, 0xeb, 0x9c, 0x32, 0xb1, 0xfd, 0x86, 0x62, 0x05, 0x16, 0x5f, 0x49, 0xb8, 0x00},
		{0x5f, 0x9c, 0x95, 0xbc, 0xa3, 0x50, 0x8c, 0x24, 0xb1, 0xd0, 0xb1, 0x55, 0x9c, 0x83, 0xef, 0x5b, 0x04, 0x44, 0x5c, 0xc4, 0x58, 0x1c, 0x8e, 0x86, 0xd8, 0x22, 0x4e, 0xdd, 0xd0, 0x9f, 0x11, 0x57},
		append([]byte{0xec}, append(bytes.Repeat([]byte{0xff}, 30), 0x7f)...),
		append([]byte{0xed}, append(bytes.Repeat([]byte{0xff}, 30), 0x7f)...),
		append([]byte{0xee}, append(bytes.Repeat([]byte{0xff}, 30), 0x7f)...),
		bytes.Repeat([]byte{0xff}, 32),
	}
	for li, lo := range lowOrder {
		body := append(append([]byte{}, lo...), noise(64, fmt.Sprintf("lo%d", li))...)
		out = append(out, probeStream{fmt.Sprintf("degenerate-key%d+noise", li), body, false, nil})
		if li < 2 || li == 7 {
			for _, id := range ids {
				sb := prefix.DefaultPrefixes[prefix.PrefixID(id)].Bytes()
				if len(sb) == 0 {
					continue
				}
				out = append(out, probeStream{fmt.Sprintf("prefix%d+degenerate-key%d+noise", id, li), append(append([]byte{}, sb...), body...), false, nil})
			}
		}
	}
	out = append(out, probeStream{"zeros200", make([]byte, 200), false, nil})
	out = append(out, probeStream{"tls-clienthello", append([]byte("\x16\x03\x01\x02\x00\x01\x00\x01\xfc\x03\x03"), noise(506, "tls")...), false, nil})
	out = append(out, probeStream{"http-get", []byte("GET /index.html HTTP/1.1\r\nHost: example.com\r\nUser-Agent: curl/8.0\r\nAccept: */*\r\n\r\n"), false, nil})
	out = append(out, probeStream{"ssh-banner", []byte("SSH-2.0-OpenSSH_8.9p1 Ubuntu-3\r\n"), false, nil})
	// genuine flights for secrets registered on ANOTHER phantom (valid there, not here)
	pp := &pb.PrefixTransportParams{PrefixId: proto.Int32(1)}
	gp := &pb.GenericTransportParams{RandomizeDstPort: proto.Bool(false)}
	out = append(out, probeStream{"genuine-min-other-phantom", clientFlight(regSpec{secret: 11, tt: pb.TransportType_Min, params: gp}), false, nil})
	out = append(out, probeStream{"genuine-prefix-other-phantom", clientFlight(regSpec{secret: 12, tt: pb.TransportType_Prefix, params: pp}), false, nil})
	out = append(out, probeStream{"genuine-obfs4-other-phantom", clientFlight(regSpec{secret: 13, tt: pb.TransportType_Obfs4, params: gp}), false, nil})
	// genuine flights for the secrets of THIS phantom with one bit flipped in each structural region
	flip := func(name string, fl []byte, pos []int) {
		if a.Thorough() {
			// thorough: one flipped bit at every byte position of short flights, every 8th position of long ones
			step := 1
			if len(fl) > 160 {
				step = 8
			}
			seen := map[int]bool{}
			for _, p := range pos {
				seen[p] = true
			}
			for p := 0; p < len(fl); p += step {
				if !seen[p] {
					pos = append(pos, p)
				}
			}
		}
		for _, p := range pos {
			if p < 0 || p >= len(fl) {
				continue
			}
			m := append([]byte{}, fl...)
			m[p] ^= 0x10
			out = append(out, probeStream{fmt.Sprintf("%s-bitflip@%d", name, p), m, true, nil})
		}
		if len(fl) > 1 {
			out = append(out, probeStream{name + "-truncated", fl[:len(fl)-1], true, nil})
		}
	}
	fm := clientFlight(regSpec{secret: 1, tt: pb.TransportType_Min, params: gp})
	flip("genuine-min", fm, []int{0, 15, 31})
	fp := clientFlight(regSpec{secret: 2, tt: pb.TransportType_Prefix, params: pp})
	flip("genuine-prefix1", fp, []int{0, 15, 16, 40, 47, 48, 60, len(fp) - 1})
	fp1 := clientFlight(regSpec{secret: 1, tt: pb.TransportType_Prefix, params: pp})
	flip("genuine-prefix1-secret1", fp1, []int{16, len(fp1) - 1})
	fo := clientFlight(regSpec{secret: 3, tt: pb.TransportType_Obfs4, params: gp})
	flip("genuine-obfs4", fo, []int{0, 31, 40, len(fo) - 32, len(fo) - 17, len(fo) - 16, len(fo) - 1})
	fo1 := clientFlight(regSpec{secret: 1, tt: pb.TransportType_Obfs4, params: gp})
	flip("genuine-obfs4-secret1", fo1, []int{0, len(fo1) - 17, len(fo1) - 1})
	// an altered genuine obfs4 flight (valid mark, broken MAC) followed by more data than the
	// upstream close-after-delay logic will ever discard (at most 8191 bytes)
	for _, f := range [][]byte{fo, fo1} {
		m := append([]byte{}, f...)
		m[len(m)-1] ^= 0x10
		out = append(out, probeStream{"genuine-obfs4-macflip+trailing16k", append(m, noise(16384, "trail")...), true, []int{len(m) - 1, len(m), len(m) + 1}})
	}
	return out
}

var c03Thorough bool

func c03Cuts(n int, extra []int) [][]int {
	th := []int{1, 16, 17, 21, 31, 32, 33, 63, 64, 65, 69, 70, 72, 78, 80, 81, 85, 86, 96, 4095, 4096, 4097, 8191, 8192}
	var set []int
	th = append(th, extra...)
	sort.Ints(th)
	for _, t := range th {
		if t > 0 && t < n {
			set = append(set, t)
		}
	}
	if n > 2 {
		set = append(set, n-1)
	}
	out := [][]int{nil}
	for _, c := range set {
		out = append(out, []int{c})
	}
	if c03Thorough {
		// thorough: 3-cuts over the main thresholds
		var main []int
		for _, t := range []int{1, 16, 32, 64, 70, 4096, 8192} {
			if t < n {
				main = append(main, t)
			}
		}
		for i := 0; i < len(main); i++ {
			for j := i + 1; j < len(main); j++ {
				for k := j + 1; k < len(main); k++ {
					out = append(out, []int{main[i], main[j], main[k]})
				}
			}
		}
	}
	for i := 0; i < len(set); i++ {
		for j := i + 1; j < len(set); j++ {
			if set[i] < set[j] {
				out = append(out, []int{set[i], set[j]})
			}
		}
	}
	return out
}

func split(data []byte, cuts []int) [][]byte {
	var segs [][]byte
	prev := 0
	for _, c := range cuts {
		segs = append(segs, data[prev:c])
		prev = c
	}
	return append(segs, data[prev:])
}

func c03Debug() {
	gp := &pb.GenericTransportParams{RandomizeDstPort: proto.Bool(false)}
	rm := c03Registry("obfs4")
	fo1 := clientFlight(regSpec{secret: 1, tt: pb.TransportType_Obfs4, params: gp})
	m := append([]byte{}, fo1...)
	m[len(m)-1] ^= 0x10
	for i := 0; i < 6; i++ {
		r := runProbe(rm, c03Phantom, split(m, []int{69, len(m) - 1}), []time.Duration{4900 * time.Millisecond, 0}, 0)
		fmt.Fprintf(os.Stderr, "len=%d closedAt=%v closes=%d returned=%v calls=%s\n", len(m), r.closedAt, r.closes, r.returnedAt, r.calls)
	}
}

// c03Replay is the replay artefact of one case: everything needed to run it again without the enumeration
// (the stream bytes are kept because genuine flights are freshly randomised in every run).
func c03Replay(id, registry string, st probeStream, segs [][]byte, gaps []time.Duration, draw int64) map[string]any {
	var lens []int
	for _, sg := range segs {
		lens = append(lens, len(sg))
	}
	var g []int64
	for _, d := range gaps {
		g = append(g, int64(d))
	}
	return map[string]any{"case": id, "registry": registry, "stream": st.name, "stream_hex": hex.EncodeToString(st.data), "derived": st.derived, "segment_lengths": lens, "gaps_ns": g, "draw": draw}
}

// c03Judge is the oracle for one probe run; it returns (key, description) pairs.
func c03Judge(id string, r probeResult, derived bool, segs [][]byte, gaps []time.Duration, sleepPath map[string]bool, stream string) [][2]string {
	var out [][2]string
	if r.verdict != vsched.VOK {
		key := r.verdict
		if r.verdict == vsched.VPanic {
			key = "panic"
		}
		return append(out, [2]string{key, id + ": " + r.detail})
	}
	if r.dials != 0 {
		out = append(out, [2]string{"unauthenticated-connection-proxied", fmt.Sprintf("%s: the station dialed a covert address %d time(s)", id, r.dials)})
	}
	if r.written != 0 {
		out = append(out, [2]string{"bytes-written-to-unauthenticated-peer", fmt.Sprintf("%s: %d bytes written", id, r.written)})
	}
	if !r.hasDL {
		return append(out, [2]string{"no-classification-deadline", id})
	}
	if r.deadline < 5*time.Second || r.deadline >= 10*time.Second {
		out = append(out, [2]string{"deadline-out-of-range", fmt.Sprintf("%s: deadline %v after entry", id, r.deadline)})
	}
	if r.closes > 0 && r.closedAt < r.deadline {
		k := "closed-before-deadline"
		if derived {
			k += ":secret-derived-input"
		}
		out = append(out, [2]string{k, fmt.Sprintf("%s: connection closed after %v, deadline %v; calls: %s", id, r.closedAt, r.deadline, r.calls)})
	}
	if r.returnedAt < r.deadline {
		k := "returned-before-deadline"
		if derived {
			k += ":secret-derived-input"
		}
		out = append(out, [2]string{k, fmt.Sprintf("%s: handler returned (connection closed) after %v, deadline %v", id, r.returnedAt, r.deadline)})
	}
	if r.returnedAt > r.deadline+time.Millisecond {
		// the deadline is drawn once, on arrival; a connection that is held longer for some streams than for others
		// (e.g. the clock restarted when the last transport ruled itself out) reacts to how far the probe got
		k := "held-past-deadline"
		if derived {
			k += ":secret-derived-input"
		}
		out = append(out, [2]string{k, fmt.Sprintf("%s: deadline %v after arrival, handler returned (connection closed) only after %v", id, r.deadline, r.returnedAt)})
	}
	// everything offered before the deadline must have been read
	offered := 0
	at := time.Duration(0)
	for i, sgm := range segs {
		if i > 0 {
			at += gaps[(i-1)%len(gaps)]
		}
		if at < r.deadline {
			offered += len(sgm)
		}
	}
	if r.read < offered {
		if derived {
			sleepPath[stream] = true // documented sleep path: only reachable with secret-derived material
		} else {
			out = append(out, [2]string{"stopped-reading-before-deadline", fmt.Sprintf("%s: %d of %d offered bytes read", id, r.read, offered)})
		}
	}
	return out
}

// c03RunReplay runs exactly the case stored in a replay file.
func c03RunReplay(a *vh.Args) {
	quiet()
	rp := vh.LoadReplay(a.Replay)
	data, err := hex.DecodeString(rp["stream_hex"].(string))
	if err != nil {
		vh.Fatal("replay stream: %v", err)
	}
	var segs [][]byte
	off := 0
	for _, l := range vh.Ints(rp["segment_lengths"]) {
		segs = append(segs, data[off:off+l])
		off += l
	}
	var gaps []time.Duration
	for _, g := range vh.Ints(rp["gaps_ns"]) {
		gaps = append(gaps, time.Duration(g))
	}
	draw, _ := rp["draw"].(float64)
	derived, _ := rp["derived"].(bool)
	id, _ := rp["case"].(string)
	r := runProbe(c03Registry(rp["registry"].(string)), c03Phantom, segs, gaps, int64(draw))
	loud()
	o := &vh.Out{Name: "replay", Evaluations: 1}
	for _, v := range c03Judge(id, r, derived, segs, gaps, map[string]bool{}, "") {
		o.Violations = append(o.Violations, &vh.Violation{Key: v[0], What: v[1]})
	}
	vh.Emit(o)
}

func verifC03(a *vh.Args) {
	if os.Getenv("VERIF_C03_DEBUG") != "" {
		c03Debug()
		return
	}
	if a.Replay != "" {
		c03RunReplay(a)
		return
	}
	quiet()
	e := venum.New(fmt.Sprintf("probes:shard%d/%d", a.ShardI, a.ShardN), a)
	c03Thorough = a.Thorough()
	streams := c03Streams(a)
	regKinds := []string{"none", "unvalidated", "validated-after-refusal", "min", "prefix", "obfs4", "mixed3", "blocklisted-phantom", "blocklisted-phantom+min", "geoip-v4only:client6", "crowded:1500-held-connections", "crowded:1500-held-connections+min"}
	sleepPath := map[string]bool{}
	n := 0
	crowdN := 0
	for _, rk := range regKinds {
		rm := c03Registry(rk)
		for _, st := range streams {
			type segm struct {
				name string
				segs [][]byte
				gaps []time.Duration
			}
			var sg []segm
			cuts := c03Cuts(len(st.data), st.cutAt)
			if !a.Thorough() && len(cuts) > 40 {
				// quick: all 1-cuts and every third 2-cut
				var r [][]int
				for i, c := range cuts {
					if len(c) < 2 || i%3 == 0 {
						r = append(r, c)
					}
				}
				cuts = r
			}
			for _, c := range cuts {
				gapSets := [][]time.Duration{{0}}
				if len(c) > 0 {
					gapSets = [][]time.Duration{{0}, {time.Second}, {4900 * time.Millisecond, 0}}
					if a.Thorough() {
						gapSets = append(gapSets, []time.Duration{2400 * time.Millisecond, 2500 * time.Millisecond}, []time.Duration{0, 4999 * time.Millisecond}, []time.Duration{9 * time.Second})
					}
				}
				for _, g := range gapSets {
					sg = append(sg, segm{fmt.Sprintf("cuts=%v;gaps=%v", c, g), split(st.data, c), g})
				}
			}
			if len(st.data) > 1 {
				var bw [][]byte
				lim := len(st.data)
				if lim > 96 {
					lim = 96
				}
				for i := 0; i < lim; i++ {
					bw = append(bw, st.data[i:i+1])
				}
				if lim < len(st.data) {
					bw = append(bw, st.data[lim:])
				}
				sg = append(sg, segm{"bytewise96;gaps=[10ms]", bw, []time.Duration{10 * time.Millisecond}})
			}
			for _, s := range sg {
				for _, draw := range []int64{0, 4999} {
					if strings.HasPrefix(rk, "crowded") {
						// (1500 threads per execution: a thinned menu of streams and segmentations)
						crowdN++
						if crowdN%179 != 1 {
							continue
						}
					}
					n++
					if n%a.ShardN != a.ShardI {
						continue
					}
					if !e.Case() {
						goto done
					}
					id := fmt.Sprintf("registry=%s;stream=%s;%s;draw=%d", rk, st.name, s.name, draw)
					if rk == "validated-after-refusal" {
						rm = c03Registry(rk) // the early client comes first in every case
					}
					r := runProbe(rm, c03Phantom, s.segs, s.gaps, draw)
					rep := c03Replay(id, rk, st, s.segs, s.gaps, draw)
					for _, v := range c03Judge(id, r, st.derived, s.segs, s.gaps, sleepPath, st.name) {
						e.Violation(v[0], v[1], rep)
					}
					e.Nontrivial(fmt.Sprintf("%s|%s|%s", rk, st.name, s.name))
					if n%7919 == 0 {
						e.Sample(map[string]any{"case": id, "deadline": r.deadline.String(), "returned_at": r.returnedAt.String(), "bytes_read": r.read})
					}
				}
			}
		}
	}
done:
	var sp []string
	for k := range sleepPath {
		sp = append(sp, k)
	}
	sort.Strings(sp)
	e.Out.Extra["inputs_reaching_non_draining_path"] = sp
	e.Out.Extra["streams"] = len(streams)
	loud()
	e.Finish()
}
