//go:build verif

package main

import (
	"bytes"
	"context"
	"crypto/sha256"
	"encoding/binary"
	"fmt"
	"io"
	"net"
	"os"
	"path/filepath"
	"time"

	cj "github.com/refraction-networking/conjure/pkg/station/lib"
	"github.com/refraction-networking/conjure/pkg/station/log"
	"github.com/refraction-networking/conjure/pkg/transports/wrapping/min"
	"github.com/refraction-networking/conjure/pkg/transports/wrapping/obfs4"
	"github.com/refraction-networking/conjure/pkg/transports/wrapping/prefix"
	"github.com/refraction-networking/conjure/pkg/zzverif/vfix"
	"github.com/refraction-networking/conjure/pkg/zzverif/vh"
	pb "github.com/refraction-networking/conjure/proto"
	"google.golang.org/protobuf/proto"
)

var realStdout *os.File

// quiet sends everything the handler prints to /dev/null and keeps the real
// stdout for RESULT lines.
func quiet() {
	realStdout = os.Stdout
	dn, err := os.OpenFile(os.DevNull, os.O_WRONLY, 0)
	if err == nil {
		os.Stdout = dn
	}
	log.SetLevel(log.ErrorLevel)
}

func loud() {
	if realStdout != nil {
		os.Stdout = realStdout
	}
}

func noise(n int, salt string) []byte {
	out := make([]byte, 0, n+32)
	var ctr uint64
	for len(out) < n {
		var c [8]byte
		binary.BigEndian.PutUint64(c[:], ctr)
		ctr++
		h := sha256.Sum256(append([]byte(salt), c[:]...))
		out = append(out, h[:]...)
	}
	return out[:n]
}

// regSpec describes one registration to put on a phantom.
type regSpec struct {
	secret int
	tt     pb.TransportType
	params proto.Message
	valid  bool
	v6     bool
	gen    uint32
}

func (r regSpec) msg() vfix.Msg {
	g := r.gen
	if g == 0 {
		g = 1
	}
	return vfix.Msg{Secret: vfix.Secret(r.secret), Transport: r.tt, Params: r.params, V4: !r.v6, V6: r.v6, Gen: g, LibVer: 4, Covert: "93.184.216.34:443", Source: pb.RegistrationSource_API, Addr: []byte{203, 0, 113, 77}}
}

// addReg builds the registration through the real ingest constructor and tracks/validates it.
// phantom, if non-nil, overrides the derived phantom (registrar override), so that several
// secrets can share one phantom address.
func addReg(rm *cj.RegistrationManager, r regSpec, phantom net.IP) *cj.DecoyRegistration {
	w := r.msg().Wrapper()
	if phantom != nil {
		if p4 := phantom.To4(); p4 != nil {
			w.RegistrationResponse = &pb.RegistrationResponse{Ipv4Addr: proto.Uint32(binary.BigEndian.Uint32(p4))}
		} else {
			w.RegistrationResponse = &pb.RegistrationResponse{Ipv6Addr: phantom}
		}
	}
	reg, err := rm.NewRegistrationC2SWrapper(w, r.v6)
	if err != nil {
		vh.Fatal("building registration: %v", err)
	}
	if err := rm.TrackRegistration(reg); err != nil {
		vh.Fatal("tracking registration: %v", err)
	}
	if r.valid {
		rm.AddRegistration(reg)
	}
	return reg
}

type recConn struct {
	bytes.Buffer
	in io.Reader
}

func (c *recConn) Read(p []byte) (int, error) {
	if c.in == nil {
		return 0, io.EOF
	}
	return c.in.Read(p)
}
func (c *recConn) Close() error                     { return nil }
func (c *recConn) LocalAddr() net.Addr              { return &net.TCPAddr{} }
func (c *recConn) RemoteAddr() net.Addr             { return &net.TCPAddr{} }
func (c *recConn) SetDeadline(time.Time) error      { return nil }
func (c *recConn) SetReadDeadline(time.Time) error  { return nil }
func (c *recConn) SetWriteDeadline(time.Time) error { return nil }

var flightMem = map[string][]byte{}

// clientFlight returns the genuine first flight of the real client transport for r. The real clients
// draw ephemeral keys and padding from crypto/rand, so two calls give different bytes (and, for
// obfs4, different lengths). Within one run all worker processes must enumerate over the same
// flights: the first process to need a flight publishes it (atomically, link(2)) in the directory
// named by VERIF_FLIGHTS, everybody else reads it from there. A replay preloads flightMem.
func clientFlight(r regSpec) []byte {
	var pbytes []byte
	if r.params != nil {
		pbytes, _ = proto.MarshalOptions{Deterministic: true}.Marshal(r.params)
	}
	key := fmt.Sprintf("s%d-t%d-%x", r.secret, int32(r.tt), sha256.Sum256(pbytes))[:40]
	if f, ok := flightMem[key]; ok {
		return f
	}
	dir := os.Getenv("VERIF_FLIGHTS")
	if dir == "" {
		f := genClientFlight(r)
		flightMem[key] = f
		return f
	}
	path := filepath.Join(dir, key+".bin")
	if b, err := os.ReadFile(path); err == nil {
		flightMem[key] = b
		return b
	}
	f := genClientFlight(r)
	tmp, err := os.CreateTemp(dir, "tmp-*")
	if err != nil {
		vh.Fatal("flight cache: %v", err)
	}
	_, _ = tmp.Write(f)
	tmp.Close()
	_ = os.Link(tmp.Name(), path) // loses silently if another process was first
	os.Remove(tmp.Name())
	b, err := os.ReadFile(path)
	if err != nil {
		vh.Fatal("flight cache: %v", err)
	}
	flightMem[key] = b
	return b
}

func genClientFlight(r regSpec) []byte {
	secret := vfix.Secret(r.secret)
	switch r.tt {
	case pb.TransportType_Min:
		ct := &min.ClientTransport{}
		_ = ct.SetParams(r.params)
		_ = ct.Prepare(context.Background(), nil)
		_ = ct.PrepareKeys(vfix.StationPub, secret, nil)
		rc := &recConn{}
		if _, err := ct.WrapConn(rc); err != nil {
			vh.Fatal("min client: %v", err)
		}
		return append([]byte{}, rc.Bytes()...)
	case pb.TransportType_Prefix:
		ct := &prefix.ClientTransport{}
		if err := ct.SetParams(r.params); err != nil {
			vh.Fatal("prefix client params: %v", err)
		}
		_ = ct.Prepare(context.Background(), nil)
		_ = ct.PrepareKeys(vfix.StationPub, secret, nil)
		rc := &recConn{}
		if _, err := ct.WrapConn(rc); err != nil {
			vh.Fatal("prefix client: %v", err)
		}
		return append([]byte{}, rc.Bytes()...)
	case pb.TransportType_Obfs4:
		return obfs4Flight(secret)
	}
	vh.Fatal("no client for %v", r.tt)
	return nil
}

// obfs4Flight runs the real obfs4 client against a pipe and captures its first flight.
func obfs4Flight(secret []byte) []byte {
	keys, _ := coreKeysReader(secret)
	ct := &obfs4.ClientTransport{}
	_ = ct.SetParams(&pb.GenericTransportParams{RandomizeDstPort: proto.Bool(false)})
	_ = ct.Prepare(context.Background(), nil)
	if err := ct.PrepareKeys(vfix.StationPub, secret, keys); err != nil {
		vh.Fatal("obfs4 keys: %v", err)
	}
	c1, c2 := net.Pipe()
	go func() { _, _ = ct.WrapConn(c1) }()
	buf := make([]byte, 16384)
	_ = c2.SetReadDeadline(time.Now().Add(5 * time.Second))
	var out []byte
	for {
		n, err := c2.Read(buf)
		out = append(out, buf[:n]...)
		if err != nil || n == 0 {
			break
		}
		// the handshake is one flight; a short quiet period ends it
		_ = c2.SetReadDeadline(time.Now().Add(150 * time.Millisecond))
	}
	c1.Close()
	c2.Close()
	if len(out) < 64 {
		vh.Fatal("could not capture an obfs4 client flight (%d bytes)", len(out))
	}
	return out
}

func fmtCuts(c []int) string { return fmt.Sprint(c) }

// replayCase returns the case id stored in a replay file ("" when not replaying); the enumeration is then
// run unsharded and every other case is skipped.
func replayCase(a *vh.Args) string {
	if a.Replay == "" {
		return ""
	}
	a.ShardI, a.ShardN = 0, 1
	id, _ := vh.LoadReplay(a.Replay)["case"].(string)
	if id == "" {
		vh.Fatal("replay file has no case id")
	}
	return id
}
