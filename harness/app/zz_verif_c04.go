//go:build verif

package main

// C04: a registered client's first flight, split at every 1-cut / 2-cut
// position, goes through the real handler and the real Proxy to an echoing
// covert; the real client code produces the flight (and, for obfs4, completes
// the handshake interactively as a controlled thread).

import (
	"bytes"
	"context"
	"fmt"
	"github.com/refraction-networking/conjure/pkg/zzverif/vtime"
	"io"
	"net"
	"strings"
	"time"

	cj "github.com/refraction-networking/conjure/pkg/station/lib"
	"github.com/refraction-networking/conjure/pkg/transports/wrapping/min"
	"github.com/refraction-networking/conjure/pkg/transports/wrapping/obfs4"
	"github.com/refraction-networking/conjure/pkg/transports/wrapping/prefix"
	"github.com/refraction-networking/conjure/pkg/zzverif/vconn"
	"github.com/refraction-networking/conjure/pkg/zzverif/venum"
	"github.com/refraction-networking/conjure/pkg/zzverif/vfix"
	"github.com/refraction-networking/conjure/pkg/zzverif/vh"
	"github.com/refraction-networking/conjure/pkg/zzverif/vnet"
	"github.com/refraction-networking/conjure/pkg/zzverif/vrand"
	"github.com/refraction-networking/conjure/pkg/zzverif/vsched"
	"github.com/refraction-networking/conjure/pkg/zzverif/vsync"
	pb "github.com/refraction-networking/conjure/proto"
	"google.golang.org/protobuf/proto"
)

type c04Result struct {
	verdict, detail string
	covertGot       []byte
	clientGot       []byte
	clientErr       string
	used, usedFound bool
	updFor          *cj.DecoyRegistration
	dlCleared       bool
	dialed          []string
	handlerReturned bool
}

// wrapClient runs the real client transport over conn (handshake material is written by it).
func wrapClient(r regSpec, conn net.Conn) (net.Conn, error) {
	secret := vfix.Secret(r.secret)
	switch r.tt {
	case pb.TransportType_Min:
		ct := &min.ClientTransport{}
		_ = ct.SetParams(r.params)
		_ = ct.Prepare(context.Background(), nil)
		_ = ct.PrepareKeys(vfix.StationPub, secret, nil)
		return ct.WrapConn(conn)
	case pb.TransportType_Prefix:
		ct := &prefix.ClientTransport{}
		if err := ct.SetParams(r.params); err != nil {
			return nil, err
		}
		_ = ct.Prepare(context.Background(), nil)
		_ = ct.PrepareKeys(vfix.StationPub, secret, nil)
		return ct.WrapConn(conn)
	case pb.TransportType_Obfs4:
		rd, _ := coreKeysReader(secret)
		ct := &obfs4.ClientTransport{}
		_ = ct.SetParams(&pb.GenericTransportParams{RandomizeDstPort: proto.Bool(false)})
		_ = ct.Prepare(context.Background(), nil)
		if err := ct.PrepareKeys(vfix.StationPub, secret, rd); err != nil {
			return nil, err
		}
		return ct.WrapConn(conn)
	}
	return nil, fmt.Errorf("no client")
}

// c04Pause: quiet period between the client's first exchange and its second one (0 = none)
var c04Pause time.Duration

// c04Late: per manager, a registration that still has to be validated after a first, refused round of connections
var c04Late = map[*cj.RegistrationManager]*c03LateReg{}

func runC04(rm *cj.RegistrationManager, anns *[]cj.VerifDetectorMsg, phantom net.IP, me regSpec, early, later []byte, cuts []int, gaps []time.Duration, greeting []byte, prior string) c04Result {
	vrand.Script = func(kind string, n int64) (float64, bool) {
		if kind == "Int63n" {
			return 2500, true
		}
		return 0, false
	}
	defer func() { vrand.Script = nil; vnet.DialHook = nil }()
	*anns = (*anns)[:0]
	caddr := &net.TCPAddr{IP: net.IPv4(203, 0, 113, 77), Port: 54321}
	paddr := &net.TCPAddr{IP: phantom, Port: 443}
	cli := &vconn.Conn{Name: "client-end", Local: caddr, Remote: paddr}
	sta := &vconn.Conn{Name: "station-end", Local: paddr, Remote: caddr}
	cli.PipeTo, sta.PipeTo = sta, cli
	cli.PipeCuts, cli.PipeGap = cuts, gaps
	covert := &vconn.Conn{Name: "covert", Echo: true}
	if len(greeting) > 0 {
		// the covert destination speaks first (SMTP / SSH style): the client sends its flight and nothing else until it has read the greeting
		covert.In = []vconn.Event{{Data: greeting}}
	}
	var res c04Result
	vnet.DialHook = func(network, address string) (net.Conn, error) {
		res.dialed = append(res.dialed, address)
		return covert, nil
	}
	cm := newConnManager(nil)
	x, _ := vsched.RunOnce(nil, 200000, func() *vsched.Scenario {
		return &vsched.Scenario{Body: func() {
			// a station handles many connections with one connection manager: optionally the same manager has
			// already handled an unauthenticated probe (every transport ruled itself out for that connection)
			// or a session of another transport before the connection under test arrives
			if late := c04Late[rm]; late != nil {
				// the registration under test was tracked but not yet validated (liveness probe still running) when
				// its impatient client - and a prober - first connected: both were refused, correctly. It has been
				// validated since; nothing of those refused connections may stand between the client and its covert.
				delete(c04Late, rm)
				for i, data := range [][]byte{late.flight, noise(200, "early-probe")} {
					pc := &vconn.Conn{Name: "before-validation", Local: paddr, Remote: &net.TCPAddr{IP: net.IPv4(198, 51, 100, 10), Port: 40010 + i},
						In: []vconn.Event{{Data: data}, {Err: io.EOF}}}
					cm.handleNewTCPConn(rm, pc, phantom)
					pc.Close()
				}
				late.validate()
			}
			switch prior {
			case "probe":
				pc := &vconn.Conn{Name: "prior-probe", Local: paddr, Remote: &net.TCPAddr{IP: net.IPv4(198, 51, 100, 9), Port: 40001},
					In: []vconn.Event{{Data: noise(200, "prior")}, {Err: io.EOF}}}
				cm.handleNewTCPConn(rm, pc, phantom)
				pc.Close()
			case "half-flight":
				// a client that sends the first 40 bytes of a valid-looking flight and goes away
				pc := &vconn.Conn{Name: "prior-half", Local: paddr, Remote: &net.TCPAddr{IP: net.IPv4(198, 51, 100, 9), Port: 40002},
					In: []vconn.Event{{Data: noise(40, "prior-half")}, {Err: io.EOF}}}
				cm.handleNewTCPConn(rm, pc, phantom)
				pc.Close()
			}
			var wg vsync.WaitGroup
			wg.Add(2)
			vsched.GoNamed("client", func() {
				defer wg.Done()
				c, err := wrapClient(me, cli)
				if err != nil {
					res.clientErr = "handshake: " + err.Error()
					cli.Close()
					return
				}
				if len(greeting) > 0 {
					buf := make([]byte, len(greeting))
					n, err := io.ReadFull(c, buf)
					res.clientGot = append(res.clientGot, buf[:n]...)
					if err != nil {
						res.clientErr = "read greeting: " + err.Error()
						c.Close()
						return
					}
				}
				for ci, chunk := range [][]byte{early, later} {
					if len(chunk) == 0 {
						continue
					}
					if ci == 1 && c04Pause > 0 {
						// an interactive session: after the first exchange both sides are quiet for a while (less than the
						// relay's stall timeout), then the client speaks again
						vtime.Sleep(c04Pause)
					}
					if _, err := c.Write(chunk); err != nil {
						res.clientErr = "write: " + err.Error()
						break
					}
					buf := make([]byte, len(chunk))
					n, err := io.ReadFull(c, buf)
					res.clientGot = append(res.clientGot, buf[:n]...)
					if err != nil {
						res.clientErr = "read: " + err.Error()
						break
					}
				}
				c.Close()
			})
			vsched.GoNamed("handler", func() {
				defer wg.Done()
				cm.handleNewTCPConn(rm, sta, phantom)
				res.handlerReturned = true
				sta.Close() // what handleNewConn's deferred Close does
			})
			wg.Wait()
		}}
	})
	res.verdict, res.detail = x.Verdict, x.Detail
	res.covertGot = covert.Written
	for _, d := range sta.DeadlineSets {
		if d.IsZero() {
			res.dlCleared = true
		}
	}
	for _, an := range *anns {
		if an.Op == "Update" {
			res.updFor = an.Reg
		}
	}
	return res
}

func verifC04(a *vh.Args) {
	only := replayCase(a)
	quiet()
	e := venum.New(fmt.Sprintf("flights:shard%d/%d", a.ShardI, a.ShardN), a)
	phantom := net.ParseIP("192.122.190.77").To4()
	gp := &pb.GenericTransportParams{RandomizeDstPort: proto.Bool(false)}
	type tcase struct {
		name string
		spec regSpec
	}
	var tcs []tcase
	tcs = append(tcs, tcase{"min", regSpec{secret: 1, tt: pb.TransportType_Min, params: gp, valid: true}})
	for id := int32(0); id <= 9; id++ {
		tcs = append(tcs, tcase{fmt.Sprintf("prefix%d", id), regSpec{secret: 1, tt: pb.TransportType_Prefix, params: &pb.PrefixTransportParams{PrefixId: proto.Int32(id)}, valid: true}})
	}
	tcs = append(tcs, tcase{"obfs4", regSpec{secret: 1, tt: pb.TransportType_Obfs4, params: gp, valid: true}})
	coRes := []string{"alone", "one-same-transport", "three-mixed"}
	later := noise(100, "later")
	n := 0
	for _, tc := range tcs {
		flightLen := len(clientFlight(tc.spec))
		if tc.spec.tt == pb.TransportType_Obfs4 {
			flightLen = 8192
		}
		var earlySizes []int
		if tc.spec.tt == pb.TransportType_Obfs4 {
			earlySizes = []int{0}
		} else {
			earlySizes = []int{0, 1, 4095 - flightLen, 4096 - flightLen, 4097 - flightLen, 65536}
		}
		earlySizes = append(earlySizes, -1) // -1: no early data and the covert speaks first (flight alone must be recognised)
		coHere := coRes
		if tc.spec.tt == pb.TransportType_Prefix {
			coHere = append(append([]string{}, coRes...), "alone;station-holds-two-keys")
		}
		coHere = append(append([]string{}, coHere...), "alone;connected-before-validation")
		for _, co := range coHere {
			vfix.PrefixKeyRotation = strings.Contains(co, "two-keys")
			rm := vfix.Manager(nil, vfix.Selector(vfix.SubnetsTOML), &vfix.Tester{}, vfix.AllWrapping, nil)
			vfix.PrefixKeyRotation = false
			var anns []cj.VerifDetectorMsg
			rm.VerifCaptureDetector(&anns)
			var mine *cj.DecoyRegistration
			if strings.Contains(co, "before-validation") {
				pending := tc.spec
				pending.valid = false
				mine = addReg(rm, pending, phantom)
				reg := mine
				c04Late[rm] = &c03LateReg{flight: clientFlight(tc.spec), validate: func() { rm.AddRegistration(reg) }}
			} else {
				mine = addReg(rm, tc.spec, phantom)
			}
			switch co {
			case "one-same-transport":
				o := tc.spec
				o.secret = 2
				addReg(rm, o, phantom)
			case "three-mixed":
				addReg(rm, regSpec{secret: 2, tt: pb.TransportType_Min, params: gp, valid: true}, phantom)
				addReg(rm, regSpec{secret: 3, tt: pb.TransportType_Prefix, params: &pb.PrefixTransportParams{PrefixId: proto.Int32(0)}, valid: true}, phantom)
				addReg(rm, regSpec{secret: 4, tt: pb.TransportType_Obfs4, params: gp, valid: true}, phantom)
			}
			for _, E := range earlySizes {
				var greeting []byte
				if E < 0 {
					E, greeting = 0, []byte("220 covert ready\r\n")
				}
				early := noise(E, "early")
				// cut positions: every position of flight + min(E,64) for min/prefix; structural + every 64th for obfs4
				var pos []int
				if tc.spec.tt == pb.TransportType_Obfs4 {
					for p := 1; p < 8192; p += 64 {
						pos = append(pos, p)
					}
					pos = append(pos, 31, 32, 33, 47, 48, 49, 63, 64, 65, 4095, 4096, 4097)
				} else {
					lim := flightLen + E
					if E > 64 {
						lim = flightLen + 64
					}
					for p := 1; p < lim; p++ {
						pos = append(pos, p)
					}
					if E > 4096 {
						pos = append(pos, 4095, 4096, 4097, 8192)
					}
				}
				var cutSets [][]int
				cutSets = append(cutSets, nil)
				for _, p := range pos {
					cutSets = append(cutSets, []int{p})
				}
				stride := 1
				if !a.Thorough() {
					stride = 5
				}
				if tc.spec.tt == pb.TransportType_Obfs4 {
					stride *= 8
				}
				k := 0
				for i := 0; i < len(pos) && (greeting == nil || a.Thorough()); i++ { // covert-speaks-first: whole + every 1-cut (2-cuts only in the thorough tier)
					for j := i + 1; j < len(pos); j++ {
						if pos[i] < pos[j] {
							k++
							if k%stride == 0 {
								cutSets = append(cutSets, []int{pos[i], pos[j]})
							}
						}
					}
				}
				for ci, cuts := range cutSets {
					gaps := []time.Duration{0}
					if ci%7 == 3 {
						gaps = []time.Duration{time.Second, 2 * time.Second}
					}
					n++
					if n%a.ShardN != a.ShardI {
						continue
					}
					id := fmt.Sprintf("transport=%s;coresident=%s;early=%d;cuts=%v;gaps=%v", tc.name, co, E, cuts, gaps)
					if greeting != nil {
						id += ";covert-speaks-first"
					}
					prior := ""
					if ci%11 == 1 {
						prior = "probe"
					} else if ci%11 == 2 {
						prior = "half-flight"
					}
					if prior != "" {
						id += ";after=" + prior
					}
					c04Pause = 0
					if E > 0 && greeting == nil {
						switch ci % 9 {
						case 4:
							c04Pause = 40 * time.Second
						case 7:
							c04Pause = 100 * time.Second
						}
					}
					if c04Pause > 0 {
						id += fmt.Sprintf(";quiet=%v", c04Pause)
					}
					if only != "" && id != only {
						continue // replay: run exactly the recorded case
					}
					if !e.Case() {
						goto done
					}
					r := runC04(rm, &anns, phantom, tc.spec, early, later, cuts, gaps, greeting, prior)
					rep := map[string]any{"case": id}
					cls := tc.name
					if len(cls) > 6 && cls[:6] == "prefix" {
						cls = "prefix"
					}
					if r.verdict == vsched.VPanic {
						e.Violation("panic:"+cls, id+": "+r.detail, rep)
						continue
					}
					want := append(append([]byte{}, early...), later...)
					switch {
					case len(r.dialed) == 0:
						e.Violation("flight-not-recognised:"+cls, fmt.Sprintf("%s: no covert dial (client: %s; verdict %s %s)", id, r.clientErr, r.verdict, r.detail), rep)
					case !bytes.Equal(r.covertGot, want):
						e.Violation("covert-stream-differs:"+cls, fmt.Sprintf("%s: covert received %d bytes, client sent %d after the handshake material (first difference at %d; client: %s)", id, len(r.covertGot), len(want), firstDiff(r.covertGot, want), r.clientErr), rep)
					case !bytes.Equal(r.clientGot, append(append([]byte{}, greeting...), want...)):
						e.Violation("reply-stream-differs:"+cls, fmt.Sprintf("%s: client received %d of %d echoed bytes (%s)", id, len(r.clientGot), len(want), r.clientErr), rep)
					case r.verdict != vsched.VOK:
						e.Violation("stalled:"+cls, id+": "+r.verdict+" "+r.detail, rep)
					}
					if len(r.dialed) > 0 {
						if r.updFor != mine {
							e.Violation("matched-other-registration:"+cls, id, rep)
						}
						if used, found := rm.VerifIsUsed(mine); !found || !used {
							e.Violation("registration-not-marked-used:"+cls, id, rep)
						}
						if !r.dlCleared {
							e.Violation("classification-deadline-not-cleared:"+cls, id, rep)
						}
						e.Nontrivial(id)
					}
					if n%9973 == 0 {
						e.Sample(map[string]any{"case": id, "covert_bytes": len(r.covertGot), "client_bytes": len(r.clientGot)})
					}
				}
			}
		}
	}
	// ---- recognition of a genuine obfs4 flight of the maximum handshake length (the client drew the maximum padding:
	// once in about 8000 handshakes, so the live client above practically never produces it). The flight is captured
	// from the real client and replayed statically: recognition, the covert dial, the used mark and the cleared
	// deadline can be checked under every segmentation; data integrity needs the live client and is covered above.
	if only == "" || strings.Contains(only, "obfs4-maxlen-static") {
		spec := regSpec{secret: 1, tt: pb.TransportType_Obfs4, params: gp, valid: true}
		fls := vfix.Obfs4FlightsOfLens(vfix.Secret(1), []int{141, 8192}, 200000)
		e.Out.Extra["obfs4_maxlen_flight_found"] = fls[8192] != nil
		e.Out.Extra["obfs4_minlen_flight_found"] = fls[141] != nil
		for _, flight := range [][]byte{fls[8192], fls[141]} {
			if flight == nil {
				continue
			}
			cutSets := [][]int{nil, {1}, {31}, {32}, {64}, {4095}, {4096}, {4097}, {8191}, {4096, 8191}, {1, 8191}, {32, 4096}}
			if len(flight) < 200 {
				cutSets = [][]int{nil, {1}, {31}, {32}, {64}, {77}, {109}, {124}, {125}, {140}, {32, 140}, {64, 125}}
			}
			for ci, cuts := range cutSets {
				if ci%a.ShardN != a.ShardI {
					continue
				}
				for _, co := range []string{"alone", "three-mixed"} {
					id := fmt.Sprintf("transport=obfs4-maxlen-static;len=%d;coresident=%s;cuts=%v", len(flight), co, cuts)
					if only != "" && id != only {
						continue
					}
					if !e.Case() {
						goto done
					}
					rm := vfix.Manager(nil, vfix.Selector(vfix.SubnetsTOML), &vfix.Tester{}, vfix.AllWrapping, nil)
					var anns []cj.VerifDetectorMsg
					rm.VerifCaptureDetector(&anns)
					mine := addReg(rm, spec, phantom)
					if co == "three-mixed" {
						addReg(rm, regSpec{secret: 2, tt: pb.TransportType_Min, params: gp, valid: true}, phantom)
						addReg(rm, regSpec{secret: 3, tt: pb.TransportType_Prefix, params: &pb.PrefixTransportParams{PrefixId: proto.Int32(0)}, valid: true}, phantom)
						addReg(rm, regSpec{secret: 4, tt: pb.TransportType_Obfs4, params: gp, valid: true}, phantom)
					}
					r := runC04Static(rm, &anns, phantom, flight, cuts)
					rep := map[string]any{"case": id}
					switch {
					case r.verdict == vsched.VPanic:
						e.Violation("panic:obfs4", id+": "+r.detail, rep)
					case len(r.dialed) == 0:
						e.Violation("flight-not-recognised:obfs4", fmt.Sprintf("%s: a genuine %d-byte obfs4 flight led to no covert dial (verdict %s %s)", id, len(flight), r.verdict, r.detail), rep)
					default:
						if r.updFor != mine {
							e.Violation("matched-other-registration:obfs4", id, rep)
						}
						if used, found := rm.VerifIsUsed(mine); !found || !used {
							e.Violation("registration-not-marked-used:obfs4", id, rep)
						}
						if !r.dlCleared {
							e.Violation("classification-deadline-not-cleared:obfs4", id, rep)
						}
						e.Nontrivial(id)
					}
				}
			}
		}
	}
done:
	loud()
	e.Finish()
}

// runC04Static replays a captured first flight (no live client): the client end writes the flight under the given
// segmentation, waits for the station's answer and closes.
func runC04Static(rm *cj.RegistrationManager, anns *[]cj.VerifDetectorMsg, phantom net.IP, flight []byte, cuts []int) c04Result {
	vrand.Script = func(kind string, n int64) (float64, bool) {
		if kind == "Int63n" {
			return 2500, true
		}
		return 0, false
	}
	defer func() { vrand.Script = nil; vnet.DialHook = nil }()
	*anns = (*anns)[:0]
	caddr := &net.TCPAddr{IP: net.IPv4(203, 0, 113, 77), Port: 54321}
	paddr := &net.TCPAddr{IP: phantom, Port: 443}
	cli := &vconn.Conn{Name: "client-end", Local: caddr, Remote: paddr}
	sta := &vconn.Conn{Name: "station-end", Local: paddr, Remote: caddr}
	cli.PipeTo, sta.PipeTo = sta, cli
	cli.PipeCuts, cli.PipeGap = cuts, []time.Duration{0}
	covert := &vconn.Conn{Name: "covert", Echo: true}
	var res c04Result
	vnet.DialHook = func(network, address string) (net.Conn, error) {
		res.dialed = append(res.dialed, address)
		return covert, nil
	}
	cm := newConnManager(nil)
	x, _ := vsched.RunOnce(nil, 200000, func() *vsched.Scenario {
		return &vsched.Scenario{Body: func() {
			var wg vsync.WaitGroup
			wg.Add(2)
			vsched.GoNamed("client", func() {
				defer wg.Done()
				_, _ = cli.Write(flight)
				_ = cli.SetReadDeadline(vsched.VNow().Add(20 * time.Second))
				buf := make([]byte, 8192)
				_, _ = cli.Read(buf) // the station's handshake answer (or the end of the connection)
				cli.Close()
			})
			vsched.GoNamed("handler", func() {
				defer wg.Done()
				cm.handleNewTCPConn(rm, sta, phantom)
				sta.Close()
			})
			wg.Wait()
		}}
	})
	res.verdict, res.detail = x.Verdict, x.Detail
	for _, d := range sta.DeadlineSets {
		if d.IsZero() {
			res.dlCleared = true
		}
	}
	for _, an := range *anns {
		if an.Op == "Update" {
			res.updFor = an.Reg
		}
	}
	return res
}

func firstDiff(a, b []byte) int {
	for i := 0; i < len(a) && i < len(b); i++ {
		if a[i] != b[i] {
			return i
		}
	}
	if len(a) < len(b) {
		return len(a)
	}
	return len(b)
}
