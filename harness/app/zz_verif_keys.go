//go:build verif

package main

import (
	"io"

	"github.com/refraction-networking/conjure/pkg/core"
)

// coreKeysReader returns the station/client shared HKDF stream positioned after the seed
// (what both sides hand to transports as dRand).
func coreKeysReader(secret []byte) (io.Reader, []byte) {
	k, err := core.GenSharedKeys(4, secret, 0)
	if err != nil {
		panic(err)
	}
	return k.TransportReader, k.ConjureSeed
}
