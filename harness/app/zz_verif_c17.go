//go:build verif

package main

// C17: error shape x I/O call site x direction x outcome x client address
// family through the real handler and relay with client-address logging off;
// everything written to the logs / statistics is captured and searched for
// every textual form of the client address.

import (
	"encoding/hex"
	"errors"
	"fmt"
	"io"
	"net"
	"os"
	"strings"
	"syscall"

	cj "github.com/refraction-networking/conjure/pkg/station/lib"
	"github.com/refraction-networking/conjure/pkg/station/log"
	"github.com/refraction-networking/conjure/pkg/zzverif/vconn"
	"github.com/refraction-networking/conjure/pkg/zzverif/venum"
	"github.com/refraction-networking/conjure/pkg/zzverif/vfix"
	"github.com/refraction-networking/conjure/pkg/zzverif/vh"
	"github.com/refraction-networking/conjure/pkg/zzverif/vnet"
	"github.com/refraction-networking/conjure/pkg/zzverif/vrand"
	"github.com/refraction-networking/conjure/pkg/zzverif/vsched"
	"github.com/refraction-networking/conjure/pkg/zzverif/vsync"
	pb "github.com/refraction-networking/conjure/proto"
	"google.golang.org/protobuf/proto"
)

type c17Err struct {
	name string
	mk   func(op string, local, remote net.Addr) error
}

func c17Errors() []c17Err {
	var out []c17Err
	errnos := []syscall.Errno{syscall.ECONNRESET, syscall.ECONNREFUSED, syscall.ECONNABORTED, syscall.EHOSTUNREACH, syscall.EPIPE, syscall.ETIMEDOUT, syscall.ENETUNREACH, syscall.ENETDOWN, syscall.ENOBUFS, syscall.ENOTCONN, syscall.EINVAL, syscall.EIO}
	names := []string{"ECONNRESET", "ECONNREFUSED", "ECONNABORTED", "EHOSTUNREACH", "EPIPE", "ETIMEDOUT", "ENETUNREACH", "ENETDOWN", "ENOBUFS", "ENOTCONN", "EINVAL", "EIO"}
	for i, en := range errnos {
		en := en
		out = append(out, c17Err{names[i] + ":bare", func(string, net.Addr, net.Addr) error { return en }})
		out = append(out, c17Err{names[i] + ":SyscallError", func(op string, _, _ net.Addr) error { return os.NewSyscallError(op, en) }})
		out = append(out, c17Err{names[i] + ":OpError", func(op string, l, r net.Addr) error {
			return &net.OpError{Op: op, Net: "tcp", Source: l, Addr: r, Err: os.NewSyscallError(op, en)}
		}})
		// an OpError that names the peer only (what datagram sockets, dial and conn wrappers such as the repository's own
		// queuepacketconn produce), bare and wrapped
		out = append(out, c17Err{names[i] + ":OpError-peer-only", func(op string, _, r net.Addr) error {
			return &net.OpError{Op: op, Net: "tcp", Addr: r, Err: os.NewSyscallError(op, en)}
		}})
		if i%4 == 0 {
			out = append(out, c17Err{names[i] + ":wrapped-OpError-peer-only", func(op string, _, r net.Addr) error {
				return fmt.Errorf("transport: %w", &net.OpError{Op: op, Net: "udp", Addr: r, Err: os.NewSyscallError(op, en)})
			}})
		}
		out = append(out, c17Err{names[i] + ":wrapped-OpError", func(op string, l, r net.Addr) error {
			return fmt.Errorf("transport: %w", &net.OpError{Op: op, Net: "tcp", Source: l, Addr: r, Err: os.NewSyscallError(op, en)})
		}})
	}
	out = append(out, c17Err{"io.EOF", func(string, net.Addr, net.Addr) error { return io.EOF }})
	out = append(out, c17Err{"io.ErrUnexpectedEOF", func(string, net.Addr, net.Addr) error { return io.ErrUnexpectedEOF }})
	out = append(out, c17Err{"net.ErrClosed:OpError", func(op string, l, r net.Addr) error {
		return &net.OpError{Op: op, Net: "tcp", Source: l, Addr: r, Err: net.ErrClosed}
	}})
	out = append(out, c17Err{"deadline:OpError", func(op string, l, r net.Addr) error {
		return &net.OpError{Op: op, Net: "tcp", Source: l, Addr: r, Err: os.ErrDeadlineExceeded}
	}})
	out = append(out, c17Err{"timeout:OpError", func(op string, l, r net.Addr) error {
		return &net.OpError{Op: op, Net: "tcp", Source: l, Addr: r, Err: vconn.Timeout()}
	}})
	out = append(out, c17Err{"errors.Join(OpError)", func(op string, l, r net.Addr) error {
		return errors.Join(errors.New("cleanup failed"), &net.OpError{Op: op, Net: "tcp", Source: l, Addr: r, Err: syscall.ENETDOWN})
	}})
	return out
}

type c17Site struct {
	conn string // client | covert | dial
	op   string
	idx  int
}

func needles(ip net.IP) []string {
	var out []string
	add := func(s string) {
		if s != "" {
			out = append(out, s, strings.ToUpper(s))
		}
	}
	add(ip.String())
	if v4 := ip.To4(); v4 != nil {
		add(v4.String())
		add("::ffff:" + v4.String())
		add(hex.EncodeToString(v4))
	} else {
		b := ip.To16()
		var parts []string
		for i := 0; i < 16; i += 2 {
			parts = append(parts, fmt.Sprintf("%02x%02x", b[i], b[i+1]))
		}
		add(strings.Join(parts, ":"))
		add(hex.EncodeToString(b))
	}
	return out
}

func verifC17(a *vh.Args) {
	only := replayCase(a)
	log.SetLevel(log.ErrorLevel) // what main() sets by default
	logClientIP = false
	realStdout = os.Stdout
	capf, err := os.CreateTemp(vfix.WorkDir(), "c17-out-*")
	if err != nil {
		vh.Fatal("%v", err)
	}
	defer os.Remove(capf.Name())
	os.Stdout = capf
	os.Stderr = capf
	// loggers created before this point (package-level ones, the standard library's default logger, the runtime) hold
	// the original descriptors: point descriptors 1 and 2 themselves at the capture file as well, keeping a duplicate of
	// the real standard output for the harness's own report
	saved, err := syscall.Dup(1)
	if err != nil {
		vh.Fatal("dup: %v", err)
	}
	vh.ReportFd = saved
	realStdout = os.NewFile(uintptr(saved), "real-stdout")
	if err := syscall.Dup2(int(capf.Fd()), 1); err != nil {
		vh.Fatal("dup2: %v", err)
	}
	if err := syscall.Dup2(int(capf.Fd()), 2); err != nil {
		vh.Fatal("dup2: %v", err)
	}
	e := venum.New(fmt.Sprintf("logs:shard%d/%d", a.ShardI, a.ShardN), a)
	phantom := net.ParseIP("192.122.190.77").To4()
	gp := &pb.GenericTransportParams{RandomizeDstPort: proto.Bool(false)}
	me := regSpec{secret: 1, tt: pb.TransportType_Min, params: gp, valid: true}
	flight := clientFlight(me)
	errs := c17Errors()
	clients := []net.IP{net.ParseIP("203.0.113.77").To4(), net.ParseIP("2001:db8:77::77"), net.ParseIP("203.0.113.77").To16()}
	var sites []c17Site
	for i := 0; i < 6; i++ {
		sites = append(sites, c17Site{"client", "Read", i})
	}
	for i := 0; i < 3; i++ {
		sites = append(sites, c17Site{"client", "Write", i}, c17Site{"covert", "Write", i}, c17Site{"covert", "Read", i})
	}
	for i := 0; i < 7; i++ {
		sites = append(sites, c17Site{"client", "SetDeadline", i}, c17Site{"covert", "SetDeadline", i})
	}
	for i := 0; i < 2; i++ {
		sites = append(sites, c17Site{"client", "Close", i}, c17Site{"covert", "Close", i})
	}
	sites = append(sites, c17Site{"dial", "Dial", 0})
	outcomes := []string{"found", "no-registration", "no-transport-left", "transport-error"}
	if a.Thorough() {
		// thorough: the session also runs over the prefix transport (its wrapped connection type sits between the
		// relay and the socket, so errors travel through another layer), with and without a client address of the
		// IPv4-mapped form, and with more call positions
		outcomes = append(outcomes, "found-prefix")
		clients = append(clients, net.ParseIP("::ffff:203.0.113.77"), net.ParseIP("2001:db8::1"))
		for i := 3; i < 6; i++ {
			sites = append(sites, c17Site{"client", "Write", i}, c17Site{"covert", "Write", i}, c17Site{"covert", "Read", i})
		}
		for i := 6; i < 9; i++ {
			sites = append(sites, c17Site{"client", "Read", i})
		}
	}
	n := 0
	for _, oc := range outcomes {
		rm := vfix.Manager(nil, vfix.Selector(vfix.SubnetsTOML), &vfix.Tester{}, vfix.AllWrapping, capf)
		var anns []cj.VerifDetectorMsg
		rm.VerifCaptureDetector(&anns)
		var stream []byte
		switch oc {
		case "found":
			addReg(rm, me, phantom)
			stream = append(append([]byte{}, flight...), noise(40, "c17")...)
		case "found-prefix":
			pr := regSpec{secret: 3, tt: pb.TransportType_Prefix, params: &pb.PrefixTransportParams{PrefixId: proto.Int32(1)}, valid: true}
			addReg(rm, pr, phantom)
			stream = append(append([]byte{}, clientFlight(pr)...), noise(40, "c17p")...)
		case "no-registration":
			stream = noise(200, "c17-nr")
		case "no-transport-left":
			addReg(rm, me, phantom)
			stream = noise(9000, "c17-nt")
		case "transport-error":
			// a prefix registration approached with the wrong prefix: ErrIncorrectPrefix from the transport
			pr := regSpec{secret: 2, tt: pb.TransportType_Prefix, params: &pb.PrefixTransportParams{PrefixId: proto.Int32(1)}, valid: true}
			addReg(rm, pr, phantom)
			wrong := pr
			wrong.params = &pb.PrefixTransportParams{PrefixId: proto.Int32(4)}
			stream = clientFlight(wrong)
		}
		for _, cip := range clients {
			nd := needles(cip)
			for _, site := range sites {
				if !strings.HasPrefix(oc, "found") && (site.conn != "client" || site.op == "Write") {
					continue
				}
				for _, er := range errs {
					if site.conn == "dial" && (strings.HasPrefix(er.name, "EPIPE") || strings.HasPrefix(er.name, "io.") || strings.HasPrefix(er.name, "net.ErrClosed") || !strings.Contains(er.name, "OpError")) {
						continue // connect(2)/Dial cannot fail with EPIPE, EOF or "closed", and always wraps its error in *net.OpError
					}
					n++
					if n%a.ShardN != a.ShardI {
						continue
					}
					id := fmt.Sprintf("outcome=%s;client=%v;site=%s.%s#%d;error=%s", oc, cip, site.conn, site.op, site.idx, er.name)
					if only != "" && id != only {
						continue // replay: run exactly the recorded case
					}
					if !e.Case() {
						goto done
					}
					_ = capf.Truncate(0)
					_, _ = capf.Seek(0, 0)
					caddr := &net.TCPAddr{IP: cip, Port: 54321}
					paddr := &net.TCPAddr{IP: phantom, Port: 443}
					hit := false
					client := &vconn.Conn{Name: "client", Local: paddr, Remote: caddr,
						In: []vconn.Event{{Data: stream[:len(stream)/2]}, {Data: stream[len(stream)/2:]}, {Data: noise(20, "later"), AfterWrites: 40}, {Err: io.EOF, AfterWrites: 60}}}
					covert := &vconn.Conn{Name: "covert", Echo: true, Local: &net.TCPAddr{IP: net.IPv4(192, 0, 2, 200), Port: 40000}, Remote: &net.TCPAddr{IP: net.IPv4(93, 184, 216, 34), Port: 443}}
					if !strings.HasPrefix(oc, "found") {
						client.In = []vconn.Event{{Data: stream[:len(stream)/2]}, {Data: stream[len(stream)/2:]}}
					}
					inject := func(c *vconn.Conn, which string) {
						c.FaultAt = func(op string, idx int) *vconn.Fault {
							if site.conn == which && site.op == op && site.idx == idx {
								hit = true
								lop := strings.ToLower(op)
								if op == "SetDeadline" {
									lop = "set"
								}
								return &vconn.Fault{Name: er.name, Err: er.mk(lop, c.Local, c.Remote)}
							}
							return nil
						}
					}
					inject(client, "client")
					inject(covert, "covert")
					vnet.DialHook = func(network, address string) (net.Conn, error) {
						if site.conn == "dial" {
							hit = true
							return nil, er.mk("dial", covert.Local, covert.Remote)
						}
						return covert, nil
					}
					vrand.Script = func(kind string, n int64) (float64, bool) { return 0, kind == "Int63n" }
					cm := newConnManager(nil)
					x, _ := vsched.RunOnce(nil, 100000, func() *vsched.Scenario {
						return &vsched.Scenario{Body: func() {
							if n%2 == 1 {
								// non-initial state: the connection manager has already handled (and given up on) a
								// connection from another client; what is written for this one must not depend on it
								pc := &vconn.Conn{Name: "earlier", Local: paddr, Remote: &net.TCPAddr{IP: net.IPv4(198, 51, 100, 9), Port: 40001},
									In: []vconn.Event{{Data: noise(200, "earlier")}, {Err: io.EOF}}}
								cm.handleNewTCPConn(rm, pc, phantom)
								pc.Close()
							}
							var wg vsync.WaitGroup
							wg.Add(1)
							vsched.GoNamed("handler", func() {
								defer wg.Done()
								cm.handleNewTCPConn(rm, client, phantom)
								client.Close()
							})
							wg.Wait()
						}}
					})
					vnet.DialHook, vrand.Script = nil, nil
					// statistics reporting is part of what the station writes
					cm.PrintAndReset(log.New(capf, "[STATS] ", 0))
					cj.GetProxyStats().PrintAndReset(log.New(capf, "[STATS] ", 0))
					out, _ := os.ReadFile(capf.Name())
					text := string(out)
					if x.Verdict == vsched.VPanic {
						e.Violation("panic", id+": "+x.Detail, map[string]any{"case": id})
						continue
					}
					if !hit {
						continue // this call position is not reached in this outcome
					}
					if len(text) > 0 {
						e.Nontrivial(id)
					}
					for _, needle := range nd {
						if i := strings.Index(text, needle); i >= 0 {
							lo := i - 120
							if lo < 0 {
								lo = 0
							}
							hi := i + len(needle) + 40
							if hi > len(text) {
								hi = len(text)
							}
							shape := er.name
							if j := strings.IndexByte(shape, ':'); j >= 0 {
								shape = shape[j+1:]
							}
							where := "log"
							if strings.Contains(text[lo:hi], "proxy closed") {
								where = "tunnel-summary"
							}
							e.Violation(fmt.Sprintf("client-address-in-%s:%s.%s:%s", where, site.conn, site.op, shape), fmt.Sprintf("%s: output contains %q: ...%s...", id, needle, strings.ReplaceAll(text[lo:hi], "\n", " | ")), map[string]any{"case": id})
							break
						}
					}
					if n%2003 == 0 {
						e.Sample(map[string]any{"case": id, "output_bytes": len(text), "verdict": x.Verdict})
					}
				}
			}
		}
	}
	verifC17Other(e, a, only, capf)
done:
	_ = syscall.Dup2(saved, 1)
	vh.ReportFd = 1
	os.Stdout = os.NewFile(1, "/dev/stdout")
	e.Finish()
}
