//go:build verif

package main

// Worker entry for the checks that drive the real connection handler
// (handleNewTCPConn) of cmd/application: C03, C04, C17, C02-handler part.
// The binary is the station application itself; with VERIF_WORKER set the
// harness runs from init() and exits before main().

import (
	"os"

	"github.com/refraction-networking/conjure/pkg/zzverif/vh"
)

func init() {
	w := os.Getenv("VERIF_WORKER")
	if w == "" {
		return
	}
	a := vh.Parse()
	switch w {
	case "c03":
		verifC03(a)
	case "c04":
		verifC04(a)
	case "c17":
		verifC17(a)
	default:
		vh.Fatal("unknown VERIF_WORKER %q", w)
	}
	os.Exit(0)
}
