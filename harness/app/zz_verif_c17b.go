//go:build verif

package main

// C17, second part: the places outside the TCP classification / relay path where the station handles a client
// address: the accept path (handleNewConn: descriptor duplication on a real socket), the GeoIP lookups (a valid
// database file that holds IPv4 networks only answers an IPv6 lookup with an error naming the address), and the
// connecting transports (the station dials the client; the real DTLS transport flattens its dial and accept errors
// into text with %v, so no *net.OpError is left to scrub).

import (
	"bufio"
	"context"
	"errors"
	"fmt"
	"io"
	"net"
	"os"
	"path/filepath"
	"strconv"
	"strings"
	"syscall"

	"github.com/refraction-networking/conjure/pkg/station/geoip"
	cj "github.com/refraction-networking/conjure/pkg/station/lib"
	"github.com/refraction-networking/conjure/pkg/station/log"
	"github.com/refraction-networking/conjure/pkg/transports"
	dtlst "github.com/refraction-networking/conjure/pkg/transports/connecting/dtls"
	"github.com/refraction-networking/conjure/pkg/zzverif/vconn"
	"github.com/refraction-networking/conjure/pkg/zzverif/venum"
	"github.com/refraction-networking/conjure/pkg/zzverif/vfix"
	"github.com/refraction-networking/conjure/pkg/zzverif/vh"
	"github.com/refraction-networking/conjure/pkg/zzverif/vnet"
	"github.com/refraction-networking/conjure/pkg/zzverif/vsched"
	pb "github.com/refraction-networking/conjure/proto"
	"google.golang.org/protobuf/proto"
)

// mmdbV4Only renders a valid MaxMind DB file of the given type with ip_version 4 and an empty search tree (one
// node, both records "no data"): every IPv4 lookup finds nothing, every IPv6 lookup is an error.
func mmdbV4Only(dbType string) []byte {
	var b []byte
	b = append(b, 0, 0, 1, 0, 0, 1)    // node 0: left = right = node_count (no data), record size 24
	b = append(b, make([]byte, 16)...) // data section separator; empty data section
	b = append(b, 0xab, 0xcd, 0xef)
	b = append(b, "MaxMind.com"...)
	str := func(s string) { b = append(b, byte(2<<5|len(s))); b = append(b, s...) }
	u16 := func(v uint16) {
		switch {
		case v == 0:
			b = append(b, 5<<5)
		case v < 256:
			b = append(b, 5<<5|1, byte(v))
		default:
			b = append(b, 5<<5|2, byte(v>>8), byte(v))
		}
	}
	b = append(b, 7<<5|9) // map, 9 entries
	str("binary_format_major_version")
	u16(2)
	str("binary_format_minor_version")
	u16(0)
	str("build_epoch")
	b = append(b, 4, 2, 0x60, 0, 0, 0) // uint64 (extended type 9), 4 bytes
	str("database_type")
	str(dbType)
	str("description")
	b = append(b, 7<<5) // empty map
	str("ip_version")
	u16(4)
	str("languages")
	b = append(b, 0, 4) // empty array (extended type 11)
	str("node_count")
	b = append(b, 6<<5|1, 1) // uint32 1
	str("record_size")
	u16(24)
	return b
}

func c17V4OnlyGeoIP() geoip.Database {
	dir := vfix.WorkDir()
	// one pair of files per worker process: the readers map the files into memory, so a sibling shard that
	// rewrites a shared file truncates it under a live mapping (SIGBUS in the library; seen when 16 shards started together)
	cc := filepath.Join(dir, fmt.Sprintf("c17-v4only-country-%d.mmdb", os.Getpid()))
	asn := filepath.Join(dir, fmt.Sprintf("c17-v4only-asn-%d.mmdb", os.Getpid()))
	if err := os.WriteFile(cc, mmdbV4Only("GeoLite2-Country"), 0o644); err != nil {
		vh.Fatal("%v", err)
	}
	if err := os.WriteFile(asn, mmdbV4Only("GeoLite2-ASN"), 0o644); err != nil {
		vh.Fatal("%v", err)
	}
	db, err := geoip.New(&geoip.DBConfig{CCDBPath: cc, ASNDBPath: asn})
	if err != nil {
		vh.Fatal("the IPv4-only GeoIP database files were not accepted: %v", err)
	}
	if c, err := db.CC(net.ParseIP("203.0.113.77")); err != nil {
		vh.Fatal("IPv4 lookup in the IPv4-only database: %q %v", c, err)
	}
	// the mappings stay valid after the names are gone
	_ = os.Remove(cc)
	_ = os.Remove(asn)
	return db
}

// c17Statement: the leading words of a log line's message (after prefix, date and time), lower-case, dash-joined.
func c17Statement(line string) string {
	f := strings.Fields(line)
	var w []string
	for _, x := range f {
		raw := x
		x = strings.ToLower(strings.Trim(x, ",:;.()"))
		if x == "" || strings.ContainsAny(raw, "0123456789/[]") {
			if len(w) > 0 {
				break
			}
			continue
		}
		w = append(w, x)
		if len(w) == 6 {
			break
		}
	}
	return strings.Join(w, "-")
}

// c17RedisRefusingPublish speaks enough of the redis protocol to refuse every PUBLISH with an error reply.
func c17RedisRefusingPublish(c net.Conn) {
	defer c.Close()
	r := bufio.NewReader(c)
	for {
		line, err := r.ReadString('\n')
		if err != nil || !strings.HasPrefix(line, "*") {
			return
		}
		n, _ := strconv.Atoi(strings.TrimSpace(line[1:]))
		var args [][]byte
		for i := 0; i < n; i++ {
			l, err := r.ReadString('\n')
			if err != nil || !strings.HasPrefix(l, "$") {
				return
			}
			sz, _ := strconv.Atoi(strings.TrimSpace(l[1:]))
			buf := make([]byte, sz+2)
			if _, err := io.ReadFull(r, buf); err != nil {
				return
			}
			args = append(args, buf[:sz])
		}
		if len(args) > 0 && strings.EqualFold(string(args[0]), "PUBLISH") {
			_, _ = c.Write([]byte("-OOM command not allowed when used memory > 'maxmemory'.\r\n"))
		} else {
			_, _ = c.Write([]byte("+OK\r\n"))
		}
	}
}

// c17Connecting is the real DTLS transport (parameters, identifier, port) with a scripted Connect.
type c17Connecting struct {
	dtlst.Transport
	connect func(context.Context, transports.Registration) (net.Conn, error)
}

func (c *c17Connecting) Connect(ctx context.Context, r transports.Registration) (net.Conn, error) {
	return c.connect(ctx, r)
}

type c17ConnectOutcome struct {
	name string
	mk   func(client *net.UDPAddr) (net.Conn, error)
}

// the failure texts are built exactly as pkg/transports/connecting/dtls Connect builds them
func c17ConnectOutcomes() []c17ConnectOutcome {
	dialErr := func(c *net.UDPAddr, en syscall.Errno) error {
		return &net.OpError{Op: "dial", Net: "udp", Source: &net.UDPAddr{IP: net.IPv4zero, Port: 41245}, Addr: c, Err: os.NewSyscallError("connect", en)}
	}
	hsErr := func(c *net.UDPAddr) error {
		return &net.OpError{Op: "read", Net: "udp", Source: &net.UDPAddr{IP: net.IPv4zero, Port: 41245}, Addr: c, Err: os.NewSyscallError("read", syscall.ECONNREFUSED)}
	}
	acc := fmt.Errorf("error accepting dtls connection from secret: %v", context.Canceled)
	return []c17ConnectOutcome{
		{"deadline", func(*net.UDPAddr) (net.Conn, error) { return nil, context.DeadlineExceeded }},
		{"dnat", func(*net.UDPAddr) (net.Conn, error) {
			return nil, fmt.Errorf("%v, %v", fmt.Errorf("error adding DNAT entry: %v", errors.New("write tun: input/output error")), acc)
		}},
		{"dial-unreachable+accept", func(c *net.UDPAddr) (net.Conn, error) {
			return nil, fmt.Errorf("%v, %v", fmt.Errorf("error connecting to dtls client: %v", dialErr(c, syscall.ENETUNREACH)), acc)
		}},
		{"accept+handshake-refused", func(c *net.UDPAddr) (net.Conn, error) {
			return nil, fmt.Errorf("%v, %v", acc, fmt.Errorf("error connecting to dtls client: %v", hsErr(c)))
		}},
		{"dial-only", func(c *net.UDPAddr) (net.Conn, error) {
			return nil, fmt.Errorf("error connecting to dtls client: %v", dialErr(c, syscall.EPERM))
		}},
		{"bare-OpError", func(c *net.UDPAddr) (net.Conn, error) { return nil, dialErr(c, syscall.EHOSTUNREACH) }},
		{"wrapped-OpError", func(c *net.UDPAddr) (net.Conn, error) {
			return nil, fmt.Errorf("connect: %w", dialErr(c, syscall.ENETDOWN))
		}},
		{"connected", nil},
	}
}

func verifC17Other(e *venum.E, a *vh.Args, only string, capf *os.File) {
	phantom := net.ParseIP("192.122.190.77").To4()
	clients := []net.IP{net.ParseIP("203.0.113.77").To4(), net.ParseIP("2001:db8:77::77"), net.ParseIP("203.0.113.77").To16()}
	v4only := c17V4OnlyGeoIP()
	judge := func(id string, nd []string, key string) {
		out, _ := os.ReadFile(capf.Name())
		text := string(out)
		if len(text) > 0 {
			e.Nontrivial(id)
		}
		for _, needle := range nd {
			if i := strings.Index(text, needle); i >= 0 {
				lo, hi := i-120, i+len(needle)+40
				if lo < 0 {
					lo = 0
				}
				if hi > len(text) {
					hi = len(text)
				}
				e.Violation(key, fmt.Sprintf("%s: output contains %q: ...%s...", id, needle, strings.ReplaceAll(text[lo:hi], "\n", " | ")), map[string]any{"case": id})
				return
			}
		}
	}
	reset := func() {
		_ = capf.Truncate(0)
		_, _ = capf.Seek(0, 0)
	}
	run := func(id string) bool {
		if only != "" && id != only {
			return false
		}
		return e.Case()
	}
	if a.ShardI != 0 {
		return
	}
	// (1) GeoIP: TCP classification path with a database that answers IPv6 lookups with an error
	for _, geo := range []string{"none", "v4only"} {
		for _, cip := range clients {
			id := fmt.Sprintf("part=geoip-tcp;geoip=%s;client=%v", geo, cip)
			if !run(id) {
				continue
			}
			reset()
			rm := vfix.Manager(nil, vfix.Selector(vfix.SubnetsTOML), &vfix.Tester{}, vfix.AllWrapping, capf)
			if geo == "v4only" {
				rm.GeoIP = v4only
			}
			client := &vconn.Conn{Name: "client", Local: &net.TCPAddr{IP: phantom, Port: 443}, Remote: &net.TCPAddr{IP: cip, Port: 54321},
				In: []vconn.Event{{Data: noise(200, "c17-geo")}, {Err: io.EOF}}}
			cm := newConnManager(nil)
			x, _ := vsched.RunOnce(nil, 100000, func() *vsched.Scenario {
				return &vsched.Scenario{Body: func() { cm.handleNewTCPConn(rm, client, phantom); client.Close() }}
			})
			if x.Verdict == vsched.VPanic {
				e.Violation("panic", id+": "+x.Detail, map[string]any{"case": id})
				continue
			}
			cm.PrintAndReset(log.New(capf, "[STATS] ", 0))
			judge(id, needles(cip), "client-address-in-log:geoip-lookup:tcp")
		}
	}
	// (2) connecting transports: the ingest pipeline's dial-the-client step, per Connect outcome x GeoIP x client
	for _, geo := range []string{"none", "v4only"} {
		for _, cip := range clients {
			for _, oc := range c17ConnectOutcomes() {
				id := fmt.Sprintf("part=connecting;geoip=%s;client=%v;connect=%s", geo, cip, oc.name)
				if !run(id) {
					continue
				}
				reset()
				rm := vfix.Manager(nil, vfix.Selector(vfix.SubnetsTOML), &vfix.Tester{}, vfix.AllWrapping, capf)
				if geo == "v4only" {
					rm.GeoIP = v4only
				}
				cm := newConnManager(nil)
				rm.VerifSetConnectingStats(cm)
				caddr := &net.UDPAddr{IP: cip, Port: 4000}
				covert := &vconn.Conn{Name: "covert", Echo: true, Local: &net.TCPAddr{IP: net.IPv4(192, 0, 2, 200), Port: 40000}, Remote: &net.TCPAddr{IP: net.IPv4(93, 184, 216, 34), Port: 443}}
				oc := oc
				ct := &c17Connecting{connect: func(context.Context, transports.Registration) (net.Conn, error) {
					if oc.mk != nil {
						return oc.mk(caddr)
					}
					// connected: the session then fails at the client's first read with an address-bearing error
					c := &vconn.Conn{Name: "client-udp", Local: &net.UDPAddr{IP: phantom, Port: 443}, Remote: caddr,
						In: []vconn.Event{{Data: noise(30, "c17-udp")}}}
					c.FaultAt = func(op string, idx int) *vconn.Fault {
						if op == "Read" && idx == 1 {
							return &vconn.Fault{Name: "EHOSTUNREACH", Err: &net.OpError{Op: "read", Net: "udp", Source: c.Local, Addr: c.Remote, Err: os.NewSyscallError("read", syscall.EHOSTUNREACH)}}
						}
						return nil
					}
					return c, nil
				}}
				_ = rm.AddTransport(pb.TransportType_DTLS, ct)
				var anns []cj.VerifDetectorMsg
				rm.VerifCaptureDetector(&anns)
				addr := []byte(cip)
				// the client's own public address (what it learnt from STUN), in the slot of its family
				dp := &pb.DTLSTransportParams{}
				if v4 := cip.To4(); v4 != nil {
					dp.SrcAddr4 = &pb.Addr{IP: v4, Port: proto.Uint32(4000)}
				} else {
					dp.SrcAddr6 = &pb.Addr{IP: addr, Port: proto.Uint32(4000)}
				}
				m := vfix.Msg{Secret: vfix.Secret(9), Transport: pb.TransportType_DTLS, Params: dp, V4: true, V6: true, Gen: 1, LibVer: 4,
					Covert: "93.184.216.34:443", Source: pb.RegistrationSource_API, Addr: addr}
				regs, err := rm.VerifParseRegMessage(m.Bytes())
				if (err != nil || len(regs) == 0) && geo == "none" {
					// (not a harness error: a station may refuse the message; what it wrote about that is judged below)
					e.Out.Extra["connecting_registration_refused"] = fmt.Sprint(err)
				}
				vnet.DialHook = func(network, address string) (net.Conn, error) { return covert, nil }
				x, _ := vsched.RunOnce(nil, 100000, func() *vsched.Scenario {
					return &vsched.Scenario{Body: func() {
						for _, r := range regs {
							if r != nil {
								rm.VerifHandleConnectingTpReg(r)
							}
						}
					}}
				})
				vnet.DialHook = nil
				if x.Verdict == vsched.VPanic {
					e.Violation("panic", id+": "+x.Detail, map[string]any{"case": id})
					continue
				}
				cm.PrintAndReset(log.New(capf, "[STATS] ", 0))
				cj.GetProxyStats().PrintAndReset(log.New(capf, "[STATS] ", 0))
				key := "client-address-in-log:connecting:" + oc.name
				if geo == "v4only" {
					key = "client-address-in-log:geoip-lookup:connecting"
				}
				judge(id, needles(cip), key)
			}
		}
	}
	// (4) the detector channel does not take the announcement: the redis connection is refused, or the server answers
	// PUBLISH with an error reply (out of memory, loading, read-only replica). The announcement carries the registrant's
	// address as text; whatever the station says about the failure must not.
	for _, mode := range []string{"refused", "error-reply"} {
		for _, cip := range clients {
			id := fmt.Sprintf("part=detector-channel;redis=%s;client=%v", mode, cip)
			if !run(id) {
				continue
			}
			reset()
			cj.VerifSetRedis(func() (net.Conn, error) {
				if mode == "refused" {
					return nil, &net.OpError{Op: "dial", Net: "tcp", Addr: &net.TCPAddr{IP: net.IPv4(127, 0, 0, 1), Port: 6379}, Err: os.NewSyscallError("connect", syscall.ECONNREFUSED)}
				}
				c, srv := net.Pipe()
				go c17RedisRefusingPublish(srv)
				return c, nil
			})
			rm := vfix.Manager(nil, vfix.Selector(vfix.SubnetsTOML), &vfix.Tester{}, vfix.AllWrapping, capf)
			sharedLogger = rm.Logger
			addr := []byte(cip)
			if v4 := cip.To4(); v4 != nil && len(cip) == 4 {
				addr = v4
			}
			m := vfix.Msg{Secret: vfix.Secret(31), Transport: pb.TransportType_Min, V4: true, V6: true, Gen: 1, LibVer: 4, Covert: "93.184.216.34:443", Source: pb.RegistrationSource_API, Addr: addr}
			if p, msg, site := venum.Guard(func() {
				regs, err := rm.VerifParseRegMessage(m.Bytes())
				if err != nil {
					return
				}
				for _, r := range regs {
					if r == nil {
						continue
					}
					rm.VerifIngest(r)
					rm.MarkActive(r)
				}
				rm.VerifCleanup()
			}); p {
				e.Violation("panic:"+site, id+": "+msg, map[string]any{"case": id})
				continue
			}
			cj.GetProxyStats().PrintAndReset(log.New(capf, "[STATS] ", 0))
			judge(id, needles(cip), "client-address-in-log:detector-channel:"+mode)
		}
	}
	// (5) the ingest pipeline's own log lines: what the station says about a registration it drops (covert refused by
	// policy or malformed, phantom answers the liveness probe, phantom blocklisted) or admits, per registrant family
	for _, oc := range []struct{ name, covert string }{{"covert-blocklisted", "127.0.0.1:22"}, {"covert-malformed", "no covert here"}, {"covert-empty", ""}, {"phantom-live", "93.184.216.34:443"}, {"admitted", "93.184.216.34:443"}, {"admitted-twice", "93.184.216.34:443"}} {
		for _, cip := range clients {
			id := fmt.Sprintf("part=ingest;outcome=%s;registrant=%v", oc.name, cip)
			if !run(id) {
				continue
			}
			reset()
			conf := &cj.RegConfig{EnableIPv4: true, EnableIPv6: true, CovertBlocklistSubnets: []string{"127.0.0.0/8", "10.0.0.0/8"}}
			if err := cj.VerifParseBlocklists(conf); err != nil {
				vh.Fatal("%v", err)
			}
			tester := &vfix.Tester{}
			if oc.name == "phantom-live" {
				tester.Live = func(string, uint16) bool { return true }
			}
			rm := vfix.Manager(conf, vfix.Selector(vfix.SubnetsTOML), tester, vfix.AllWrapping, capf)
			var anns []cj.VerifDetectorMsg
			rm.VerifCaptureDetector(&anns)
			addr := []byte(cip)
			m := vfix.Msg{Secret: vfix.Secret(41), Transport: pb.TransportType_Min, V4: true, V6: true, Gen: 1, LibVer: 4, Covert: oc.covert, Source: pb.RegistrationSource_API, Addr: addr}
			if p, msg, site := venum.Guard(func() {
				rounds := 1
				if oc.name == "admitted-twice" {
					rounds = 2
				}
				for i := 0; i < rounds; i++ {
					regs, err := rm.VerifParseRegMessage(m.Bytes())
					if err != nil {
						return
					}
					for _, r := range regs {
						if r != nil {
							rm.VerifIngest(r)
						}
					}
				}
				rm.RemoveOldRegistrations()
			}); p {
				e.Violation("panic:"+site, id+": "+msg, map[string]any{"case": id})
				continue
			}
			// the key names the log statement that carries the address (its leading words), so that a listed finding
			// stands for one statement and a second leaking statement under the same outcome is still reported
			out, _ := os.ReadFile(capf.Name())
			site := ""
			for _, line := range strings.Split(string(out), "\n") {
				for _, nd := range needles(cip) {
					if site == "" && strings.Contains(line, nd) {
						site = c17Statement(line)
					}
				}
			}
			judge(id, needles(cip), "client-address-in-log:ingest:"+oc.name+":"+site)
		}
	}
	// (6) DTLS registrations whose parameters carry the client's own address in a form the station may refuse: port 0,
	// port beyond 16 bits, an IPv4 address in the IPv6 slot, a 5-byte address. Whatever is said about the refusal
	// (the ingest pipeline logs registration-creation errors at the default level) must not quote the address.
	for _, shape := range []string{"wellformed", "port0", "port70123", "v4-in-v6-slot", "5-byte-address", "both-slots-same"} {
		for _, cip := range clients {
			id := fmt.Sprintf("part=ingest-dtls-params;shape=%s;client=%v", shape, cip)
			if !run(id) {
				continue
			}
			reset()
			rm := vfix.Manager(nil, vfix.Selector(vfix.SubnetsTOML), &vfix.Tester{}, vfix.AllWrapping, capf)
			_ = rm.AddTransport(pb.TransportType_DTLS, &dtlst.Transport{})
			var anns []cj.VerifDetectorMsg
			rm.VerifCaptureDetector(&anns)
			ipb := []byte(cip)
			if v4 := cip.To4(); v4 != nil {
				ipb = v4
			}
			port := uint32(4000)
			switch shape {
			case "port0":
				port = 0
			case "port70123":
				port = 70123
			case "5-byte-address":
				ipb = append(append([]byte{}, ipb[:4]...), 9)
			}
			a4, a6 := &pb.Addr{IP: ipb, Port: proto.Uint32(port)}, (*pb.Addr)(nil)
			if len(ipb) == 16 {
				a4, a6 = nil, a4
			}
			switch shape {
			case "v4-in-v6-slot":
				a4, a6 = nil, &pb.Addr{IP: ipb, Port: proto.Uint32(port)}
			case "both-slots-same":
				a4, a6 = &pb.Addr{IP: ipb, Port: proto.Uint32(port)}, &pb.Addr{IP: ipb, Port: proto.Uint32(port)}
			}
			m := vfix.Msg{Secret: vfix.Secret(10), Transport: pb.TransportType_DTLS, Params: &pb.DTLSTransportParams{SrcAddr4: a4, SrcAddr6: a6}, V4: true, V6: true, Gen: 1, LibVer: 4,
				Covert: "93.184.216.34:443", Source: pb.RegistrationSource_API, Addr: []byte{198, 51, 100, 200}}
			if p, msg, site := venum.Guard(func() { _, _ = rm.VerifParseRegMessage(m.Bytes()) }); p {
				e.Violation("panic:"+site, id+": "+msg, map[string]any{"case": id})
				continue
			}
			judge(id, needles(cip), "client-address-in-log:ingest-dtls-params:"+shape)
		}
	}
	// (3) accept path on a real loopback socket: duplicating the descriptor fails (descriptor limit reached)
	id := "part=accept;client=127.0.0.77;fault=EMFILE-at-File"
	if run(id) {
		reset()
		rm := vfix.Manager(nil, vfix.Selector(vfix.SubnetsTOML), &vfix.Tester{}, vfix.AllWrapping, capf)
		ln, err := net.Listen("tcp4", "127.0.0.1:0")
		if err != nil {
			vh.Fatal("listen: %v", err)
		}
		d := net.Dialer{LocalAddr: &net.TCPAddr{IP: net.IPv4(127, 0, 0, 77)}}
		cc, err := d.Dial("tcp4", ln.Addr().String())
		if err != nil {
			vh.Fatal("dial: %v", err)
		}
		sc, err := ln.Accept()
		if err != nil {
			vh.Fatal("accept: %v", err)
		}
		var old syscall.Rlimit
		_ = syscall.Getrlimit(syscall.RLIMIT_NOFILE, &old)
		low := old
		low.Cur = 0
		if err := syscall.Setrlimit(syscall.RLIMIT_NOFILE, &low); err != nil {
			vh.Fatal("setrlimit: %v", err)
		}
		cm := newConnManager(nil)
		sharedLogger = rm.Logger // as main() does
		cm.handleNewConn(rm, sc.(*net.TCPConn))
		_ = syscall.Setrlimit(syscall.RLIMIT_NOFILE, &old)
		cc.Close()
		ln.Close()
		judge(id, []string{"127.0.0.77"}, "client-address-in-log:accept-path:File")
	}
}
