//go:build verif

package main

import "github.com/refraction-networking/conjure/pkg/zzverif/vh"

func verifC17(a *vh.Args) { vh.Fatal("not built") }
