//go:build verif

package main

import "github.com/refraction-networking/conjure/pkg/zzverif/vh"

func verifC04(a *vh.Args) { vh.Fatal("not built") }
func verifC17(a *vh.Args) { vh.Fatal("not built") }
