//go:build verif

package main

// C19: configuration-key grammar x housekeeping x reload sequences on the real
// ParseConfig / NewRegistrationManager / OnReload / stats modules.

import (
	"context"
	"fmt"
	"net"
	"net/netip"
	"os"
	"path/filepath"
	"regexp"
	"strings"
	"sync"
	"time"

	"github.com/refraction-networking/conjure/pkg/station/lib"
	"github.com/refraction-networking/conjure/pkg/station/liveness"
	"github.com/refraction-networking/conjure/pkg/zzverif/venum"
	"github.com/refraction-networking/conjure/pkg/zzverif/vfix"
	"github.com/refraction-networking/conjure/pkg/zzverif/vh"
	"github.com/refraction-networking/conjure/pkg/zzverif/vnet"
	pb "github.com/refraction-networking/conjure/proto"
)

type kv struct {
	key  string
	vals []string // TOML right-hand sides; "" = unset
}

var dir string

func writeFile(name, content string) string {
	p := filepath.Join(dir, name)
	if err := os.WriteFile(p, []byte(content), 0o644); err != nil {
		vh.Fatal("%v", err)
	}
	return p
}

const subnetsA = `[Networks]
    [Networks.1]
        Generation = 1
        [[Networks.1.WeightedSubnets]]
            Weight = 1
            Subnets = ["192.122.190.0/24", "2001:48a8:687f:1::/64"]
`
const subnetsB = `[Networks]
    [Networks.1]
        Generation = 1
        [[Networks.1.WeightedSubnets]]
            Weight = 1
            Subnets = ["198.18.0.0/16", "2001:db8:b::/64"]
`

// decisions: the observable behaviour of the two reloadable parts.
func policyVector(rm *lib.RegistrationManager) string {
	var sb strings.Builder
	for _, c := range []string{"93.184.216.34:443", "10.1.2.3:443", "172.16.5.5:80", "192.168.9.9:80", "127.0.0.1:22", "[fd00::7]:443", "[::1]:443", "[fe80::1]:80", "[2606:2800::1]:443", "203.0.113.9:443", "localhost:80", "intra.corp:80", "8.8.8.8:53"} {
		r, _ := rm.ParseOrResolveBlocklisted(c)
		if r == "" {
			sb.WriteByte('x')
		} else {
			sb.WriteByte('o')
		}
	}
	sb.WriteByte('|')
	for _, p := range []string{"192.122.190.7", "198.18.3.3", "2001:48a8:687f:1::9", "10.0.0.1", "203.0.113.200"} {
		if rm.IsBlocklistedPhantom(net.ParseIP(p)) {
			sb.WriteByte('x')
		} else {
			sb.WriteByte('o')
		}
	}
	return sb.String()
}

func selectorVector(rm *lib.RegistrationManager) string {
	var sb strings.Builder
	for i := 0; i < 3; i++ {
		for _, v6 := range []bool{false, true} {
			ip, err := rm.PhantomSelector.Select(vfix.Secret(60 + i)[:16], 1, 4, v6)
			if err != nil {
				sb.WriteString("err,")
			} else {
				sb.WriteString(ip.IP().String() + ",")
			}
		}
	}
	return sb.String()
}

// rawEnforced: independent evaluation that every raw list entry of an accepted configuration is enforced.
func rawEnforced(c *lib.Config, rm *lib.RegistrationManager) (string, string) {
	check := func(list string, entries []string, hit func(a netip.Addr) bool, skipIf bool) (string, string) {
		for _, s := range entries {
			pf, err := netip.ParsePrefix(strings.TrimSpace(s))
			if err != nil {
				return "accepted-config-with-unparsable-entry:" + list, fmt.Sprintf("%s entry %q cannot be parsed but the configuration was accepted", list, s)
			}
			if skipIf {
				continue
			}
			a := pf.Masked().Addr()
			if !hit(a) {
				return "entry-not-enforced:" + list, fmt.Sprintf("%s entry %q is not enforced for %v", list, s, a)
			}
			if u := a.Unmap(); u != a && !hit(u) {
				return "entry-not-enforced:" + list, fmt.Sprintf("%s entry %q is not enforced for %v", list, s, u)
			}
		}
		return "", ""
	}
	allowOn := len(c.CovertAllowlistSubnets) > 0
	blockedCovert := func(a netip.Addr) bool {
		r, _ := rm.ParseOrResolveBlocklisted(netip.AddrPortFrom(a, 443).String())
		return r == ""
	}
	if k, w := check("covert_blocklist_subnets", c.CovertBlocklistSubnets, blockedCovert, allowOn); k != "" {
		return k, w
	}
	if k, w := check("covert_allowlist_subnets", c.CovertAllowlistSubnets, func(a netip.Addr) bool { return !blockedCovert(a) }, false); k != "" {
		return k, w
	}
	if k, w := check("phantom_blocklist", c.PhantomBlocklist, func(a netip.Addr) bool { return rm.IsBlocklistedPhantom(net.IP(a.AsSlice())) }, false); k != "" {
		return k, w
	}
	for _, d := range c.CovertBlocklistDomains {
		if _, err := regexp.Compile(d); err != nil {
			return "accepted-config-with-unparsable-entry:covert_blocklist_domains", fmt.Sprintf("pattern %q does not compile but the configuration was accepted", d)
		}
	}
	return "", ""
}

func render(keys []kv, idx []int) string {
	var sb strings.Builder
	for i, k := range keys {
		v := k.vals[idx[i]]
		if v == "" {
			continue
		}
		fmt.Fprintf(&sb, "%s = %s\n", k.key, v)
	}
	return sb.String()
}

// load follows main(): ParseConfig, then (pre-checked) liveness.New, then NewRegistrationManager.
func load(confPath, subnetsPath string) (*lib.Config, *lib.RegistrationManager, error) {
	os.Setenv("CJ_STATION_CONFIG", confPath)
	os.Setenv("PHANTOM_SUBNET_LOCATION", subnetsPath)
	c, err := lib.ParseConfig()
	if err != nil {
		return nil, nil, err
	}
	if _, err := liveness.New(c.RegConfig.LivenessConfig()); err != nil {
		return nil, nil, fmt.Errorf("liveness: %w", err) // NewRegistrationManager would Fatal: not an accepted configuration
	}
	rm := lib.NewRegistrationManager(c.RegConfig)
	if rm == nil {
		return nil, nil, fmt.Errorf("manager not created")
	}
	rm.Logger = lib.VerifQuietLogger()
	return c, rm, nil
}

func housekeeping(rm *lib.RegistrationManager) {
	lg := lib.VerifQuietLogger()
	step := func() {
		rm.LivenessTester.PrintAndReset(lg)
		rm.LivenessTester.PrintStats(lg)
		lib.GetProxyStats().PrintAndReset(lg)
		rm.PrintAndReset(lg)
		rm.RemoveOldRegistrations()
	}
	step()
	// some traffic: one ingest (liveness probe goes to a closed loopback port quickly or is skipped for v6)
	var anns []lib.VerifDetectorMsg
	rm.VerifCaptureDetector(&anns)
	m := vfix.Msg{Secret: vfix.Secret(70), Transport: pb.TransportType_Min, V6: true, Gen: 1, LibVer: 4, Covert: "93.184.216.34:443", Source: pb.RegistrationSource_API, Addr: []byte{203, 0, 113, 7}}
	if regs, err := rm.VerifParseRegMessage(m.Bytes()); err == nil {
		for _, r := range regs {
			rm.VerifIngest(r)
		}
	}
	step()
	step()
	// the worker settings of an accepted configuration are used when the ingest pipeline starts: start it, hand it a
	// registration, request the stop (what main() does between start-up and SIGTERM)
	ctx, cancel := context.WithCancel(context.Background())
	regChan := make(chan interface{}, 1)
	var wg sync.WaitGroup
	wg.Add(1)
	done := make(chan any, 1)
	go func() {
		defer func() { done <- recover() }()
		rm.HandleRegUpdates(ctx, regChan, &wg)
	}()
	select {
	case regChan <- m.Bytes():
	default:
	}
	time.Sleep(2 * time.Millisecond)
	cancel()
	select {
	case p := <-done:
		if p != nil {
			panic(fmt.Sprintf("ingest pipeline: %v", p))
		}
	case <-time.After(20 * time.Second):
		// not a verdict here (C09 decides wind-down); leave the pipeline behind
	}
}

func main() {
	a := vh.Parse()
	var err error
	dir, err = os.MkdirTemp(vfix.WorkDir(), "c19-")
	if err != nil {
		vh.Fatal("%v", err)
	}
	defer os.RemoveAll(dir)
	vnet.ResolveHook = func(network, host string) (*net.IPAddr, error) {
		return &net.IPAddr{IP: net.ParseIP("93.184.216.34")}, nil
	}
	e := venum.New(fmt.Sprintf("config:shard%d/%d", a.ShardI, a.ShardN), a)
	sa, sb := writeFile("subnets_a.toml", subnetsA), writeFile("subnets_b.toml", subnetsB)
	sMal := writeFile("subnets_malformed.toml", "[Networks\n  broken = ")
	sGone := filepath.Join(dir, "no-such-subnets.toml")
	// well-formed TOML that is not a usable subnet file: a generation key that is not a number after a good
	// generation (a typo: letter O for zero: the loader refuses it), and a generation whose list holds something that
	// is not a CIDR (the loader does not look at entries: such a file loads, at start-up and on reload alike)
	sKey := writeFile("subnets_badkey.toml", subnetsB+"    [Networks.2O]\n        Generation = 20\n        [[Networks.2O.WeightedSubnets]]\n            Weight = 1\n            Subnets = [\"203.0.113.0/24\"]\n")
	sCidr := writeFile("subnets_badcidr.toml", subnetsB+"    [Networks.2]\n        Generation = 2\n        [[Networks.2.WeightedSubnets]]\n            Weight = 1\n            Subnets = [\"203.0.113.0/24\", \"not-a-cidr\"]\n")
	garbage := writeFile("garbage.mmdb", "this is not a maxmind database")
	valid4, valid6 := `"10.0.0.0/8"`, `"fc00::/7"`
	listVals := func(valid string, malformed string) []string {
		// (the last one: other notations of valid entries - an IPv4 subnet written as an IPv4-mapped IPv6 CIDR, an IPv6 subnet)
		return []string{"", "[]", "[" + valid + "]", "[" + valid + ", " + malformed + "]", "[" + malformed + "]", "[" + valid[:len(valid)-1] + ` "]`, "[" + valid + `, "::ffff:172.20.0.0/110", "fd00:77::/32"]`}
	}
	liveKeys := []kv{
		{"cache_expiration_time", []string{"", `""`, `"2.0h"`, `"bogus"`}},
		{"cache_expiration_nonlive", []string{"", `""`, `"30m"`, `"bogus"`}},
		{"cache_capacity", []string{"", "0", "2", "-1"}},
		{"cache_capacity_nonlive", []string{"", "0", "2", "-1"}},
	}
	listKeys := []kv{
		{"covert_blocklist_subnets", listVals(valid4, `"192.168.0.0"`)},
		{"covert_allowlist_subnets", listVals(`"93.184.0.0/16"`, `"2606:2800::/129"`)},
		{"covert_blocklist_domains", []string{"", "[]", `["localhost"]`, `["localhost", "("]`, `["("]`, `["^intra\\.corp$"]`}},
		{"phantom_blocklist", listVals(`"192.122.190.0/25"`, `"not-a-cidr"`)},
		{"covert_blocklist_public_addrs", []string{"", "true", "false"}},
	}
	miscKeys := []kv{
		{"geoip_cc_db_path", []string{"", `"` + filepath.Join(dir, "missing.mmdb") + `"`, `"` + garbage + `"`}},
		{"geoip_asn_db_path", []string{"", `"` + garbage + `"`}},
		{"ingest_worker_count", []string{"", "0", "1", "-1", "-10", "10"}},
		{"enable_v4", []string{"", "true", "false"}},
		{"enable_v6", []string{"true", "false"}},
		{"covert_blocklist_public_addrs", []string{"", "true"}},
	}
	_ = valid6
	type group struct {
		name  string
		keys  []kv
		fixed string
	}
	groups := []group{
		{"liveness", liveKeys, "enable_v6 = true\ncovert_blocklist_subnets = [\"10.0.0.0/8\"]\n"},
		{"lists", listKeys, "enable_v6 = true\ncache_expiration_time = \"2.0h\"\ncache_expiration_nonlive = \"30m\"\n"},
		{"misc", miscKeys, "cache_expiration_nonlive = \"30m\"\ncovert_blocklist_subnets = [\"10.0.0.0/8\"]\n"},
	}
	// reload material
	otherConf := writeFile("other.toml", "enable_v6 = true\ncovert_blocklist_subnets = [\"172.16.0.0/12\", \"::1/128\"]\ncovert_blocklist_domains = [\"^intra\\\\.corp$\"]\nphantom_blocklist = [\"198.18.0.0/16\"]\n")
	malConf := writeFile("malformed.toml", "enable_v6 = true\ncovert_blocklist_subnets = [\"10.0.0.0/8\", \"192.168.0.0\"]\ncovert_blocklist_domains = [\"(\"]\n")
	malConf2 := writeFile("malformed2.toml", "enable_v6 = true\ncovert_blocklist_public_addrs = true\ncovert_blocklist_subnets = [\"172.16.0.0/12\"]\nphantom_blocklist = [\"198.18.0.0/33\"]\n")
	synConf := writeFile("syntax.toml", "enable_v6 = [true\n")
	goneConf := filepath.Join(dir, "no-such-config.toml")
	// a file caught in the middle of being rewritten: empty, or cut after a first key that is not a station setting
	emptyConf := writeFile("empty.toml", "")
	cutConf := writeFile("cut.toml", "log_level = \"error\"\n")
	// the lists of otherConf plus GeoIP database paths that cannot be opened: the configuration loads, OnReload gives up
	// at the GeoIP step; the address policies must then be entirely the new or entirely the previous ones
	geoConf := writeFile("other-geoip-broken.toml", "enable_v6 = true\ncovert_blocklist_subnets = [\"172.16.0.0/12\", \"::1/128\"]\ncovert_blocklist_domains = [\"^intra\\\\.corp$\"]\nphantom_blocklist = [\"198.18.0.0/16\"]\ngeoip_cc_db_path = \""+garbage+"\"\ngeoip_asn_db_path = \""+filepath.Join(dir, "missing.mmdb")+"\"\n")
	type reloadStep struct {
		name, conf, subnets string
		equiv               string // configuration with the same lists that a fresh start accepts ("" = conf itself)
	}
	var steps []reloadStep
	for _, c := range [][3]string{{"conf-valid", otherConf, ""}, {"conf-malformed", malConf, ""}, {"conf-malformed-pubaddrs", malConf2, ""}, {"conf-syntax", synConf, ""}, {"conf-unreadable", goneConf, ""}, {"conf-empty", emptyConf, ""}, {"conf-cut-after-first-key", cutConf, ""}, {"conf-valid-geoip-unopenable", geoConf, otherConf}} {
		for _, s := range [][2]string{{"subnets-valid", sb}, {"subnets-malformed", sMal}, {"subnets-unreadable", sGone}, {"subnets-malformed-key", sKey}, {"subnets-valid-with-non-cidr-entry", sCidr}} {
			steps = append(steps, reloadStep{c[0] + "+" + s[0], c[1], s[1], c[2]})
		}
	}
	caseNo := 0
	runCase := func(id, confText string, deep bool) {
		caseNo++
		if caseNo%a.ShardN != a.ShardI {
			return
		}
		if !e.Case() {
			return
		}
		confPath := writeFile(fmt.Sprintf("case-%d.toml", a.ShardI), confText)
		var c *lib.Config
		var rm *lib.RegistrationManager
		var lerr error
		if p, msg, site := venum.Guard(func() { c, rm, lerr = load(confPath, sa) }); p {
			e.Violation("panic-at-load:"+site, msg+" "+id, map[string]any{"case": id, "config": confText})
			return
		}
		if lerr != nil {
			return // not an accepted configuration
		}
		e.Nontrivial(id)
		if p, msg, site := venum.Guard(func() { housekeeping(rm) }); p {
			e.Violation("panic-in-housekeeping:"+site, msg+" "+id, map[string]any{"case": id, "config": confText})
			return
		}
		if k, w := rawEnforced(c, rm); k != "" {
			e.Violation(k, w+" ("+id+")", map[string]any{"case": id, "config": confText})
		}
		// reload sequences following main()'s SIGHUP path
		depth := 1
		if deep {
			depth = 2
			if a.Thorough() {
				depth = 3
			}
		}
		var rec func(seq []int)
		rec = func(seq []int) {
			if len(seq) > 0 {
				if !e.Case() {
					return
				}
				// fresh manager, replay the sequence
				_, m2, err := load(confPath, sa)
				if err != nil {
					return
				}
				curConf, curSub := confPath, sa
				sid := id + ";reload="
				bad := false
				for _, si := range seq {
					st := steps[si]
					sid += st.name + ","
					os.Setenv("CJ_STATION_CONFIG", st.conf)
					os.Setenv("PHANTOM_SUBNET_LOCATION", st.subnets)
					beforeP, beforeS := policyVector(m2), selectorVector(m2)
					var perr error
					if p, msg, site := venum.Guard(func() {
						nc, err := lib.ParseConfig()
						perr = err
						if err == nil {
							m2.OnReload(nc.RegConfig)
						}
					}); p {
						e.Violation("panic-in-reload:"+site, msg+" "+sid, map[string]any{"case": sid})
						bad = true
						break
					}
					confLoaded := perr == nil
					subLoaded := confLoaded && strings.HasPrefix(st.name[strings.Index(st.name, "+")+1:], "subnets-valid")
					if confLoaded {
						curConf = st.conf
						if st.equiv != "" {
							curConf = st.equiv
						}
					}
					if subLoaded {
						curSub = st.subnets
					}
					afterP, afterS := policyVector(m2), selectorVector(m2)
					if confLoaded && st.equiv != "" && afterP != beforeP {
						// the reload stopped part-way (by design: an unopenable GeoIP database): all-new or all-previous
						if _, fresh, err := load(st.equiv, curSub); err == nil && policyVector(fresh) != afterP {
							e.Violation("reload-replaced-policies-partially", fmt.Sprintf("%s: policy decisions %s -> %s; the new lists alone give %s", sid, beforeP, afterP, policyVector(fresh)), map[string]any{"case": sid})
						}
					}
					if !confLoaded && afterP != beforeP {
						e.Violation("failed-reload-changed-policies", fmt.Sprintf("%s: policy decisions %s -> %s although the configuration did not load", sid, beforeP, afterP), map[string]any{"case": sid})
					}
					if !subLoaded && afterS != beforeS {
						e.Violation("failed-reload-changed-subnets", fmt.Sprintf("%s: selections changed although the subnet file did not load", sid), map[string]any{"case": sid})
					}
				}
				if !bad {
					// differential: state reached by reloads == state reached from start with the same files
					_, ref, err := load(curConf, curSub)
					if err == nil {
						if policyVector(ref) != policyVector(m2) {
							e.Violation("reload-differs-from-fresh-start:policies", fmt.Sprintf("%s: after reloads %s, fresh start with the same files %s", sid, policyVector(m2), policyVector(ref)), map[string]any{"case": sid})
						}
						if selectorVector(ref) != selectorVector(m2) {
							e.Violation("reload-differs-from-fresh-start:subnets", sid, map[string]any{"case": sid})
						}
					}
					if p, msg, site := venum.Guard(func() { housekeeping(m2) }); p {
						e.Violation("panic-in-housekeeping-after-reload:"+site, msg+" "+sid, map[string]any{"case": sid})
					}
				}
			}
			if len(seq) < depth {
				for i := range steps {
					rec(append(append([]int{}, seq...), i))
				}
			}
		}
		rec(nil)
		if caseNo%97 == 0 {
			e.Sample(map[string]any{"case": id, "config": confText})
		}
	}
	for _, g := range groups {
		total := 1
		for _, k := range g.keys {
			total *= len(k.vals)
		}
		idx := make([]int, len(g.keys))
		for n := 0; n < total; n++ {
			x := n
			for i := len(g.keys) - 1; i >= 0; i-- {
				idx[i] = x % len(g.keys[i].vals)
				x /= len(g.keys[i].vals)
			}
			runCase(fmt.Sprintf("%s:%v", g.name, idx), g.fixed+render(g.keys, idx), n%41 == 0)
		}
	}
	// the shipped file verbatim
	root := os.Getenv("VERIF_REPO")
	if root == "" {
		root = "/repo"
	}
	if b, err := os.ReadFile(root + "/cmd/application/app_config.toml"); err == nil {
		runCase("shipped:app_config.toml", string(b), true)
	}
	if b, err := os.ReadFile(root + "/simulation/phantombox/config/application/config.toml"); err == nil {
		runCase("shipped:phantombox", string(b), false)
	}
	e.Finish()
}
