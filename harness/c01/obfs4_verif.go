//go:build verif

package obfs4

// VerifKeys exposes the client's derived obfs4 keys.
func (t *ClientTransport) VerifKeys() Obfs4Keys { return t.keys }
