//go:build verif

package dtls

import (
	"crypto/ecdsa"
	"crypto/x509"
	"encoding/hex"
)

// VerifCreds returns a textual digest of the credentials derived from seed:
// client and server certificate public keys, template serials/validity, and
// the ClientHello random. (Signatures are randomised and excluded.)
func VerifCreds(seed []byte) (string, error) {
	c, s, err := certsFromSeed(seed)
	if err != nil {
		return "", err
	}
	r, err := clientHelloRandomFromSeed(seed)
	if err != nil {
		return "", err
	}
	out := ""
	for _, cert := range [][]byte{c.Certificate[0], s.Certificate[0]} {
		x, err := x509.ParseCertificate(cert)
		if err != nil {
			return "", err
		}
		pk := x.PublicKey.(*ecdsa.PublicKey)
		out += pk.X.Text(16) + "." + pk.Y.Text(16) + "." + x.SerialNumber.Text(16) + "." + x.NotBefore.UTC().Format("20060102150405") + "." + x.NotAfter.UTC().Format("20060102150405") + "/"
	}
	return out + hex.EncodeToString(r[:]), nil
}
