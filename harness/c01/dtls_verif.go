//go:build verif

package dtls

import (
	"crypto/ecdsa"
	"crypto/x509"
	"encoding/hex"
	"time"
)

// verifDay is the UTC midnight of t (the certificate template's validity starts at "today").
func verifDay(t time.Time) time.Time {
	u := t.UTC()
	return time.Date(u.Year(), u.Month(), u.Day(), 0, 0, 0, 0, time.UTC)
}

// VerifCreds returns a textual digest of the credentials derived from seed:
// client and server certificate public keys, template serials/validity, and
// the ClientHello random. (Signatures are randomised and excluded.)
// The validity window is by design anchored at the current UTC day, so it is
// reported relative to the day of the call ("today" / "+1month"), never as a
// date: a digest that contains a date goes stale at the next midnight.
func VerifCreds(seed []byte) (string, error) {
	d0 := verifDay(time.Now())
	c, s, err := certsFromSeed(seed)
	if err != nil {
		return "", err
	}
	r, err := clientHelloRandomFromSeed(seed)
	if err != nil {
		return "", err
	}
	d1 := verifDay(time.Now())
	out := ""
	for _, cert := range [][]byte{c.Certificate[0], s.Certificate[0]} {
		x, err := x509.ParseCertificate(cert)
		if err != nil {
			return "", err
		}
		pk := x.PublicKey.(*ecdsa.PublicKey)
		out += pk.X.Text(16) + "." + pk.Y.Text(16) + "." + x.SerialNumber.Text(16) + "." + verifRel(x.NotBefore, d0, d1) + "." + verifUntil(x.NotBefore, x.NotAfter) + "/"
	}
	return out + hex.EncodeToString(r[:]), nil
}

// verifRel: "today" iff the validity starts at the UTC midnight of the day on
// which the credentials were derived (d0/d1: the day before and after the
// derivation, equal unless midnight passed in between).
func verifRel(nb, d0, d1 time.Time) string {
	if nb.Equal(d0) || nb.Equal(d1) {
		return "today"
	}
	return "day" + nb.UTC().Format("20060102150405")
}

// verifUntil: "+1month" iff the validity ends one calendar month after it starts.
func verifUntil(nb, na time.Time) string {
	if na.Equal(nb.UTC().AddDate(0, 1, 0)) {
		return "+1month"
	}
	return na.Sub(nb).String()
}
