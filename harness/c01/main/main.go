//go:build verif

package main

// C01: the station's derivation of phantom, port and transport secrets equals
// the client's and equals the pinned (golden / independently re-implemented)
// algorithm, over the complete cross product secrets x libver x family x
// subnet-config grammar x transport/params.

import (
	"bytes"
	"context"
	"crypto/rand"
	"crypto/sha256"
	"encoding/hex"
	"encoding/json"
	"fmt"
	"io"
	"math/big"
	"net"
	"os"
	"sort"
	"strings"
	"time"

	compat0 "github.com/refraction-networking/conjure/internal/compatability/v0"
	compat1 "github.com/refraction-networking/conjure/internal/compatability/v1"
	"github.com/refraction-networking/conjure/pkg/core"
	cj "github.com/refraction-networking/conjure/pkg/core/interfaces"
	pdtls "github.com/refraction-networking/conjure/pkg/dtls"
	"github.com/refraction-networking/conjure/pkg/phantoms"
	"github.com/refraction-networking/conjure/pkg/station/lib"
	"github.com/refraction-networking/conjure/pkg/transports"
	"github.com/refraction-networking/conjure/pkg/transports/connecting/dtls"
	"github.com/refraction-networking/conjure/pkg/transports/wrapping/min"
	"github.com/refraction-networking/conjure/pkg/transports/wrapping/obfs4"
	"github.com/refraction-networking/conjure/pkg/transports/wrapping/prefix"
	"github.com/refraction-networking/conjure/pkg/zzverif/vcrand"
	"github.com/refraction-networking/conjure/pkg/zzverif/venum"
	"github.com/refraction-networking/conjure/pkg/zzverif/vfix"
	"github.com/refraction-networking/conjure/pkg/zzverif/vh"
	pb "github.com/refraction-networking/conjure/proto"
	"golang.org/x/crypto/curve25519"
	"golang.org/x/crypto/hkdf"
	"google.golang.org/protobuf/proto"
)

// ---------------------------------------------------------------- alphabets

type grp struct {
	name string
	nets []string
}

var groups = []grp{
	{"A", []string{"192.122.190.0/24", "2001:48a8:687f:1::/64"}},
	{"B", []string{"10.0.0.0/31"}},
	{"C", []string{"10.0.0.7/32", "2001:db8::1/128"}},
	{"D", []string{"141.219.0.0/16", "35.8.0.0/16"}},
	{"E", []string{"2001:db8:5::/120"}},
	// IPv6 subnets with more than 64 host bits, and IPv4 / IPv6 prefixes that are not a multiple of 8
	{"F", []string{"2001:48a8::/32", "2001:db8:40::/48", "10.1.16.0/20", "192.0.2.16/28", "2001:db8:0:f000::/52"}},
}

type cfg struct {
	id     string
	groups []*pb.PhantomSubnets
	quick  bool
}

func mkg(g grp, w uint32, r bool) *pb.PhantomSubnets {
	return &pb.PhantomSubnets{Weight: proto.Uint32(w), Subnets: g.nets, RandomizeDstPort: proto.Bool(r)}
}

func rs(b bool) string {
	if b {
		return "R"
	}
	return "r"
}

func configs() []cfg {
	var out []cfg
	for _, g := range groups {
		for _, r := range []bool{true, false} {
			out = append(out, cfg{fmt.Sprintf("%s%d%s", g.name, 1, rs(r)), []*pb.PhantomSubnets{mkg(g, 1, r)}, true})
		}
	}
	for _, g1 := range groups {
		for _, g2 := range groups {
			for wi, w := range [][2]uint32{{1, 1}, {1, 9}, {9, 1}} {
				for ri, r := range [][2]bool{{true, false}, {false, true}} {
					out = append(out, cfg{fmt.Sprintf("%s%d%s+%s%d%s", g1.name, w[0], rs(r[0]), g2.name, w[1], rs(r[1])),
						[]*pb.PhantomSubnets{mkg(g1, w[0], r[0]), mkg(g2, w[1], r[1])}, wi < 2 && ri == 0})
				}
			}
		}
	}
	for _, w := range [][3]uint32{{1, 1, 9}, {1, 1, 1}} {
		for _, r := range [][3]bool{{true, false, true}, {false, true, false}} {
			out = append(out, cfg{fmt.Sprintf("A%d%s+D%d%s+C%d%s", w[0], rs(r[0]), w[1], rs(r[1]), w[2], rs(r[2])),
				[]*pb.PhantomSubnets{mkg(groups[0], w[0], r[0]), mkg(groups[3], w[1], r[1]), mkg(groups[2], w[2], r[2])}, true})
		}
	}
	// 4 and 5 groups
	out = append(out, cfg{"A1R+B1r+C9R+D1r", []*pb.PhantomSubnets{mkg(groups[0], 1, true), mkg(groups[1], 1, false), mkg(groups[2], 9, true), mkg(groups[3], 1, false)}, true})
	out = append(out, cfg{"A1R+B1r+C9R+D1r+E1R", []*pb.PhantomSubnets{mkg(groups[0], 1, true), mkg(groups[1], 1, false), mkg(groups[2], 9, true), mkg(groups[3], 1, false), mkg(groups[4], 1, true)}, true})
	out = append(out, cfg{"A9R+B9r+C9R+D9r+E9R", []*pb.PhantomSubnets{mkg(groups[0], 9, true), mkg(groups[1], 9, false), mkg(groups[2], 9, true), mkg(groups[3], 9, false), mkg(groups[4], 9, true)}, false})
	// group weights whose sum does not fit 32 bits (the weight field is a uint32; the published algorithm sums in 64 bits)
	for _, w := range [][2]uint32{{3000000000, 2000000000}, {4294967295, 1}, {4294967295, 4294967295}} {
		out = append(out, cfg{fmt.Sprintf("A%dR+D%dr", w[0], w[1]), []*pb.PhantomSubnets{mkg(groups[0], w[0], true), mkg(groups[3], w[1], false)}, true})
	}
	return out
}

type tparam struct {
	id     string
	tt     pb.TransportType
	params proto.Message // nil = absent
	heavy  bool          // DTLS credentials etc: crossed with few configs only
}

func tparams() []tparam {
	var out []tparam
	gen := func(b bool) proto.Message { return &pb.GenericTransportParams{RandomizeDstPort: proto.Bool(b)} }
	out = append(out, tparam{"min:absent", pb.TransportType_Min, nil, false}, tparam{"min:r", pb.TransportType_Min, gen(false), false}, tparam{"min:R", pb.TransportType_Min, gen(true), false})
	out = append(out, tparam{"obfs4:absent", pb.TransportType_Obfs4, nil, false}, tparam{"obfs4:r", pb.TransportType_Obfs4, gen(false), false}, tparam{"obfs4:R", pb.TransportType_Obfs4, gen(true), false})
	out = append(out, tparam{"prefix:absent", pb.TransportType_Prefix, nil, false})
	for id := int32(0); id <= 10; id++ {
		for _, r := range []bool{false, true} {
			for fl := int32(0); fl <= 2; fl++ {
				out = append(out, tparam{fmt.Sprintf("prefix:%d:%s:f%d", id, rs(r), fl), pb.TransportType_Prefix,
					&pb.PrefixTransportParams{PrefixId: proto.Int32(id), RandomizeDstPort: proto.Bool(r), CustomFlushPolicy: proto.Int32(fl)}, false})
			}
		}
	}
	dt := func(b bool) proto.Message { return &pb.DTLSTransportParams{RandomizeDstPort: proto.Bool(b)} }
	out = append(out, tparam{"dtls:absent", pb.TransportType_DTLS, nil, true}, tparam{"dtls:r", pb.TransportType_DTLS, dt(false), true}, tparam{"dtls:R", pb.TransportType_DTLS, dt(true), true})
	return out
}

// rejectionSecrets: the published port algorithm draws with rejection sampling (crypto/rand.Int over the seeded
// stream): a first draw >= range size is discarded and the next one is taken. Roughly 1.6 % (range 1024..65535) and
// 0.035 % (22..65535) of all secrets take that branch; the alphabet contains one secret per (library version 3 / 4,
// port range) that does, found by search with the reference implementation below (not with the code under test).
func rejectionSecrets() [][]byte {
	var out [][]byte
	for _, lv := range []uint{3, 4} {
		for _, lo := range []int64{1024, 22} {
			for i := 0; i < 2000000; i++ {
				h := sha256.Sum256([]byte(fmt.Sprintf("c01-rejection-%d-%d-%d", lv, lo, i)))
				seed, _ := refSeed(h[:], lv)
				var first [2]byte
				_, _ = io.ReadFull(hkdf.New(sha256.New, seed, nil, []byte("phantom-select-dst-port")), first[:])
				if int64(first[0])<<8|int64(first[1]) >= 65535-lo {
					out = append(out, h[:])
					break
				}
			}
		}
	}
	return out
}

func fixedSecrets(n int) [][]byte {
	out := append([][]byte{vfix.Secret(-1), vfix.Secret(-2)}, rejectionSecrets()...)
	c := make([]byte, 32)
	for i := range c {
		c[i] = byte(i)
	}
	out = append(out, c)
	for i := 0; len(out) < n; i++ {
		out = append(out, vfix.Secret(100+i))
	}
	return out[:n]
}

// ---------------------------------------------------------------- reference R

func refSeed(secret []byte, libver uint) ([]byte, io.Reader) {
	r := hkdf.New(sha256.New, secret, []byte("conjureconjureconjureconjure"), nil)
	if libver < 4 {
		skip := make([]byte, 104)
		_, _ = io.ReadFull(r, skip)
	}
	seed := make([]byte, 16)
	_, _ = io.ReadFull(r, seed)
	return seed, r
}

// refSelect re-implements the HKDF-era (libver >= 2) selection.
func refSelect(seed []byte, groups []*pb.PhantomSubnets, v6 bool) (net.IP, bool, bool) {
	type g struct {
		w    int64
		nets []string
		rnd  bool
	}
	var ch []g
	tot := int64(0)
	for _, x := range groups {
		if x.Subnets == nil {
			continue
		}
		ch = append(ch, g{int64(x.GetWeight()), x.Subnets, x.GetRandomizeDstPort()})
		tot += int64(x.GetWeight())
	}
	if tot <= 0 {
		return nil, false, false
	}
	sort.Slice(ch, func(i, j int) bool { return ch[i].w < ch[j].w })
	rnd, err := rand.Int(hkdf.New(sha256.New, seed, nil, []byte("phantom-select-subnet")), big.NewInt(tot))
	if err != nil {
		return nil, false, false
	}
	x := rnd.Int64()
	var pick *g
	for i := range ch {
		x -= ch[i].w
		if x < 0 {
			pick = &ch[i]
			break
		}
	}
	if pick == nil {
		return nil, false, false
	}
	type rng struct {
		lo, hi *big.Int
		n      *net.IPNet
	}
	var rr []rng
	total := big.NewInt(0)
	for _, s := range pick.nets {
		_, n, err := net.ParseCIDR(s)
		if err != nil {
			return nil, false, false
		}
		is4 := n.IP.To4() != nil
		if is4 == v6 {
			continue
		}
		ones, bits := n.Mask.Size()
		lo := new(big.Int).Set(total)
		total.Add(total, new(big.Int).Lsh(big.NewInt(1), uint(bits-ones)))
		rr = append(rr, rng{lo, new(big.Int).Sub(total, big.NewInt(1)), n})
	}
	if total.Sign() <= 0 {
		return nil, false, false
	}
	id, err := rand.Int(hkdf.New(sha256.New, seed, nil, []byte("phantom-addr-id")), total)
	if err != nil {
		return nil, false, false
	}
	for _, r := range rr {
		if id.Cmp(r.lo) >= 0 && id.Cmp(r.hi) <= 0 {
			off := new(big.Int).Sub(id, r.lo)
			base := r.n.IP.To4()
			l := 4
			if base == nil {
				base = r.n.IP.To16()
				l = 16
			}
			v := new(big.Int).Add(new(big.Int).SetBytes(base), off)
			ip := make(net.IP, l)
			v.FillBytes(ip)
			return ip, pick.rnd, true
		}
	}
	return nil, false, false
}

// refPort: published port ranges are [1024,65535) for min/prefix/dtls and [22,65535) for obfs4.
func refPort(seed []byte, tt pb.TransportType) uint16 {
	lo := int64(1024)
	if tt == pb.TransportType_Obfs4 {
		lo = 22
	}
	p, _ := rand.Int(hkdf.New(sha256.New, seed, nil, []byte("phantom-select-dst-port")), big.NewInt(65535-lo))
	return uint16(p.Int64() + lo)
}

// ---------------------------------------------------------------- views

type recConn struct{ bytes.Buffer }

func (c *recConn) Read([]byte) (int, error)         { return 0, io.EOF }
func (c *recConn) Close() error                     { return nil }
func (c *recConn) LocalAddr() net.Addr              { return &net.TCPAddr{} }
func (c *recConn) RemoteAddr() net.Addr             { return &net.TCPAddr{} }
func (c *recConn) SetDeadline(time.Time) error      { return nil }
func (c *recConn) SetReadDeadline(time.Time) error  { return nil }
func (c *recConn) SetWriteDeadline(time.Time) error { return nil }

// publishedPrefixes: the bytes of each prefix id as released (pinned here like the golden digests: station and in-tree
// client read one table, so a change to it moves both sides together and only a pinned copy can tell).
var publishedPrefixes = map[int32]string{
	0: "", 1: "GET / HTTP/1.1\r\n", 2: "POST / HTTP/1.1\r\n", 3: "HTTP/1.1 200\r\n", 4: "\x16\x03\x03\x40\x00\x01", 5: "\x16\x03\x03\x40\x00\x02\r\n",
	6: "\x15\x03\x01\x00\x02", 7: "\x15\x03\x02\x00\x02", 8: "\x05\xDC\x5F\xE0\x01\x20", 9: "SSH-2.0-OpenSSH_8.9p1",
}

func unhex(s string) string { b, _ := hex.DecodeString(s); return string(b) }

type view struct {
	err   string
	ip    string
	port  uint16
	tag   string // hex of identifier / connection tag
	rndOK bool
	wire  string // client only: hex of the fixed bytes the client writes in front of its tag (prefix transport)
	pfxID int32
}

func (v view) String() string {
	if v.err != "" {
		return "ERR"
	}
	return fmt.Sprintf("%s|%d|%s", v.ip, v.port, v.tag)
}

var dtlsCache = map[string]string{}

// stationView derives through the real station ingest path.
func stationView(rm *lib.RegistrationManager, secret []byte, libver uint, v6 bool, gen uint32, tp tparam) view {
	m := vfix.Msg{Secret: secret, Transport: tp.tt, Params: tp.params, V4: !v6, V6: v6, Gen: gen, LibVer: uint32(libver), Covert: "1.2.3.4:443", Source: pb.RegistrationSource_API, Addr: []byte{10, 0, 0, 1}}
	reg, err := rm.NewRegistrationC2SWrapper(m.Wrapper(), v6)
	if err != nil {
		return view{err: err.Error()}
	}
	v := view{ip: reg.PhantomIp.String(), port: reg.PhantomPort}
	v.tag = hex.EncodeToString([]byte(rm.VerifIdentifier(reg)))
	return v
}

// dualView: the two registrations the real parseRegMessage makes of one dual-stack message; identifiers are
// taken in the given order.
func dualView(rm *lib.RegistrationManager, secret []byte, libver uint, gen uint32, tp tparam, v6first bool) (v4, v6 view, err error) {
	m := vfix.Msg{Secret: secret, Transport: tp.tt, Params: tp.params, V4: true, V6: true, Gen: gen, LibVer: uint32(libver), Covert: "1.2.3.4:443", Source: pb.RegistrationSource_API, Addr: []byte{10, 0, 0, 1}}
	regs, err := rm.VerifParseRegMessage(m.Bytes())
	if err != nil {
		return v4, v6, err
	}
	var r4, r6 *lib.DecoyRegistration
	for _, r := range regs {
		if r == nil {
			continue
		}
		if r.PhantomIp.To4() != nil {
			r4 = r
		} else {
			r6 = r
		}
	}
	if r4 == nil || r6 == nil {
		return v4, v6, fmt.Errorf("%d registrations, IPv4 %v IPv6 %v", len(regs), r4 != nil, r6 != nil)
	}
	mk := func(r *lib.DecoyRegistration) view {
		return view{ip: r.PhantomIp.String(), port: r.PhantomPort, tag: hex.EncodeToString([]byte(rm.VerifIdentifier(r)))}
	}
	if v6first {
		v6 = mk(r6)
		v4 = mk(r4)
	} else {
		v4 = mk(r4)
		v6 = mk(r6)
	}
	return v4, v6, nil
}

// clientView derives through the real client-side code.
func clientView(secret []byte, libver uint, v6 bool, plist *pb.PhantomSubnetsList, tp tparam) view {
	// keys: the in-repo client derivation is the library version 4 one; older
	// clients drew 104 more bytes first (the station's documented skip rule).
	seed, reader := refSeed(secret, libver)
	if libver >= 4 {
		// real client key schedule for the current version (rest of GenerateClientSharedKeys)
		r := hkdf.New(sha256.New, secret, []byte("conjureconjureconjureconjure"), nil)
		s2 := make([]byte, 16)
		_, _ = io.ReadFull(r, s2)
		seed, reader = s2, r
	}
	var ip net.IP
	rnd := false
	switch {
	case libver == 0:
		f := compat0.V4Only
		if v6 {
			f = compat0.V6Only
		}
		p, err := compat0.SelectPhantom(seed, plist, f, true)
		if err != nil || p == nil {
			return view{err: fmt.Sprint(err)}
		}
		ip = *p
	case libver == 1:
		f := compat1.V4Only
		if v6 {
			f = compat1.V6Only
		}
		p, err := compat1.SelectPhantom(seed, plist, f, true)
		if err != nil || p == nil {
			return view{err: fmt.Sprint(err)}
		}
		ip = *p
	default:
		f := phantoms.V4Only
		if v6 {
			f = phantoms.V6Only
		}
		p, err := phantoms.SelectPhantom(seed, plist, f, true)
		if err != nil {
			return view{err: err.Error()}
		}
		ip = *p.IP()
		rnd = p.SupportRandomPort()
	}
	v := view{ip: ip.String(), rndOK: rnd}
	var ct cj.Transport
	switch tp.tt {
	case pb.TransportType_Min:
		ct = &min.ClientTransport{}
	case pb.TransportType_Obfs4:
		ct = &obfs4.ClientTransport{}
	case pb.TransportType_Prefix:
		ct = &prefix.ClientTransport{}
	case pb.TransportType_DTLS:
		ct = &dtls.ClientTransport{}
	}
	if tp.params != nil {
		if err := ct.SetParams(tp.params); err != nil {
			return view{err: "setparams: " + err.Error()}
		}

	} else if tp.tt == pb.TransportType_Prefix {
		return view{err: "client never registers prefix without params"}
	}
	if tp.tt == pb.TransportType_Prefix && libver < 3 {
		return view{err: "the prefix transport does not exist in client library versions < 3"}
	}
	if tp.tt == pb.TransportType_DTLS {
		// Prepare copies the parameters into the session and then asks a STUN server for the
		// public address; the dial seam refuses at once (no network), which Prepare reports
		// after the session parameters are in place.
		_ = ct.Prepare(context.Background(), func(ctx context.Context, network, laddr, raddr string) (net.Conn, error) {
			return nil, fmt.Errorf("no network in harness")
		})
	} else if err := ct.Prepare(context.Background(), nil); err != nil {
		return view{err: "prepare: " + err.Error()}
	}
	if err := ct.PrepareKeys(vfix.StationPub, secret, reader); err != nil {
		return view{err: "preparekeys: " + err.Error()}
	}
	// port: clients before version 3 always used 443; otherwise 443 unless the
	// chosen phantom's subnet allows randomisation (policy applied by the dialer)
	v.port = 443
	if libver >= 3 && rnd {
		p, err := ct.GetDstPort(seed)
		if err != nil {
			return view{err: "getdstport: " + err.Error()}
		}
		v.port = p
	}
	switch t := ct.(type) {
	case *min.ClientTransport:
		rc := &recConn{}
		if _, err := t.WrapConn(rc); err != nil {
			return view{err: err.Error()}
		}
		v.tag = hex.EncodeToString(rc.Bytes())
	case *prefix.ClientTransport:
		rc := &recConn{}
		if _, err := t.WrapConn(rc); err != nil {
			return view{err: err.Error()}
		}
		b := rc.Bytes()
		if len(b) < 64 {
			return view{err: "short prefix flight"}
		}
		tag, err := transports.CTRObfuscator{}.TryReveal(b[len(b)-64:], vfix.StationPriv)
		if err != nil {
			return view{err: err.Error()}
		}
		v.tag = hex.EncodeToString(tag)
		v.wire = "x" + hex.EncodeToString(b[:len(b)-64])
		v.pfxID = int32(t.Prefix.ID())
	case *obfs4.ClientTransport:
		k := t.VerifKeys()
		v.tag = hex.EncodeToString(k.PublicKey.Bytes()[:]) + hex.EncodeToString(k.NodeID.Bytes()[:])
	case *dtls.ClientTransport:
		v.tag = hex.EncodeToString(core.ConjureHMAC(secret, "dtlsTrasportHMACString"))
	}
	return v
}

// ---------------------------------------------------------------- main

func main() {
	a := vh.Parse()
	gen := os.Getenv("VERIF_C01_GEN") != ""
	thorough := a.Thorough() || gen
	cfgsAll := configs()
	// the two checked-in subnet files
	type fileGen struct {
		id   string
		list []*pb.PhantomSubnets
	}
	var files []fileGen
	for _, f := range []string{"pkg/phantoms/test/phantom_subnets.toml", "pkg/station/lib/test/phantom_subnets.toml"} {
		root := os.Getenv("VERIF_REPO")
		if root == "" {
			root = "/repo"
		}
		s, err := phantoms.SubnetsFromTomlFile(root + "/" + f)
		if err != nil {
			vh.Fatal("%v", err)
		}
		var gens []int
		for g := range s.Networks {
			gens = append(gens, int(g))
		}
		sort.Ints(gens)
		for _, g := range gens {
			files = append(files, fileGen{fmt.Sprintf("file:%s:gen%d", f[strings.LastIndex(f[:strings.LastIndex(f, "/test")], "/")+1:strings.LastIndex(f, "/test")], g), s.Networks[uint(g)].WeightedSubnets})
		}
	}
	for _, f := range files {
		cfgsAll = append(cfgsAll, cfg{f.id, f.list, true})
	}
	var cfgs []cfg
	for _, c := range cfgsAll {
		if thorough || c.quick {
			cfgs = append(cfgs, c)
		}
	}
	sel := &phantoms.PhantomIPSelector{Networks: map[uint]*phantoms.SubnetConfig{}}
	for i, c := range cfgs {
		sel.AddGeneration(i+1, &phantoms.SubnetConfig{WeightedSubnets: c.groups})
	}
	rm := vfix.Manager(nil, sel, &vfix.Tester{}, vfix.AllWrapping, nil)
	_ = rm.AddTransport(pb.TransportType_DTLS, &dtls.Transport{})
	tps := tparams()
	nfixed := 10
	if thorough {
		nfixed = 16
	}
	secrets := fixedSecrets(nfixed)
	nseeded := 2
	if a.Thorough() {
		nseeded = 4
	}
	// seeded secrets come from the real client key generation with a deterministic entropy stream
	var seeded [][]byte
	if !gen {
		vcrand.SetDeterministic(fmt.Sprintf("c01-%d", a.Seed))
		for i := 0; i < nseeded; i++ {
			k, err := core.GenerateClientSharedKeys(vfix.StationPub)
			if err != nil {
				vh.Fatal("client keys: %v", err)
			}
			// station's view of the same secret: X25519(stationPriv, clientPub) is what the
			// registration carries; the client library sends SharedSecret itself in the C2SWrapper
			s2, _ := curve25519.X25519(vfix.StationPriv[:], curve25519.Basepoint)
			_ = s2
			seeded = append(seeded, k.SharedSecret)
			// the client's own seed must equal the version-4 schedule
			rs4, _ := refSeed(k.SharedSecret, 4)
			if !bytes.Equal(rs4, k.ConjureSeed) {
				fmt.Printf("RESULT %s\n", `{"name":"keys","evaluations":1,"exhaustive":false,"violations":[{"key":"client-seed-schedule","what":"GenerateClientSharedKeys seed differs from the published version-4 schedule"}]}`)
				return
			}
		}
		vcrand.SetReal()
	}
	golden := map[string]string{}
	if !gen {
		b, err := os.ReadFile(os.Getenv("VERIF_GOLDEN"))
		if err != nil {
			vh.Fatal("golden: %v", err)
		}
		if err := json.Unmarshal(b, &golden); err != nil {
			vh.Fatal("golden: %v", err)
		}
	}
	e := venum.New(fmt.Sprintf("derive:shard%d/%d", a.ShardI, a.ShardN), a)
	out := map[string]string{}
	all := append(append([][]byte{}, secrets...), seeded...)
	blk := 0
	for si, secret := range all {
		isFixed := si < len(secrets)
		for libver := uint(0); libver <= 4; libver++ {
			for ci, c := range cfgs {
				blk++
				if blk%a.ShardN != a.ShardI {
					continue
				}
				plist := &pb.PhantomSubnetsList{WeightedSubnets: c.groups}
				h := sha256.New()
				heavyOK := c.id == "A1R" || c.id == "A1r" || c.id == "A1R+D9r" || c.id == "D1R" || strings.HasPrefix(c.id, "file:lib")
				_ = ci
				single := map[string]view{} // station view per family/transport of this block, for the dual-stack comparison
				for _, v6 := range []bool{false, true} {
					for _, tp := range tps {
						if tp.heavy && !heavyOK {
							continue
						}
						if !e.Case() {
							goto done
						}
						id := fmt.Sprintf("secret=%x;libver=%d;cfg=%s;v6=%v;tp=%s", secret[:4], libver, c.id, v6, tp.id)
						var S, C view
						if p, msg, site := venum.Guard(func() {
							S = stationView(rm, secret, libver, v6, uint32(ci+1), tp)
						}); p {
							e.Violation("panic:"+site, msg+" "+id, map[string]any{"case": id})
							continue
						}
						fmt.Fprintf(h, "%s=%s\n", id[strings.Index(id, ";v6"):], S.String())
						single[fmt.Sprintf("%v/%s", v6, tp.id)] = S
						if gen {
							continue
						}
						if p, msg, site := venum.Guard(func() { C = clientView(secret, libver, v6, plist, tp) }); p {
							e.Violation("panic-client:"+site, msg+" "+id, map[string]any{"case": id})
							continue
						}
						cls := fmt.Sprintf("libver%d:%s", libver, strings.SplitN(tp.id, ":", 2)[0])
						if S.err == "" && C.err == "" {
							e.Nontrivial(fmt.Sprintf("%x/%d/%s/%v/%s", secret[:4], libver, c.id, v6, tp.id))
							if S.ip != C.ip {
								e.Violation("phantom-disagree:"+cls, fmt.Sprintf("%s: station %s client %s", id, S.ip, C.ip), map[string]any{"case": id})
							} else if S.port != C.port {
								e.Violation("port-disagree:"+cls, fmt.Sprintf("%s: station %d client %d", id, S.port, C.port), map[string]any{"case": id})
							} else if S.tag != C.tag {
								e.Violation("secret-disagree:"+cls, fmt.Sprintf("%s: station %s client %s", id, S.tag, C.tag), map[string]any{"case": id})
							} else if C.wire != "" {
								// the fixed bytes in front of the tag are part of what released clients and stations agree on
								if want, ok := publishedPrefixes[C.pfxID]; !ok || "x"+hex.EncodeToString([]byte(want)) != C.wire {
									e.Violation(fmt.Sprintf("wire-prefix-moved:id%d", C.pfxID), fmt.Sprintf("%s: the client writes %q in front of its tag, the published prefix %d is %q", id, unhex(C.wire[1:]), C.pfxID, want), map[string]any{"case": id})
								}
							}
						} else if (S.err == "") != (C.err == "") {
							// one side fails: only a disagreement if the client side could have connected.
							if S.err != "" && C.err == "" {
								e.Violation("station-rejects-client-accepts:"+cls, fmt.Sprintf("%s: station error %q, client derived %s", id, S.err, C.String()), map[string]any{"case": id})
							} else {
								e.Out.Extra["client_only_errors"] = fmt.Sprint(C.err)
							}
						}
						// independent re-implementation (HKDF era)
						if libver >= 2 && S.err == "" {
							seed, _ := refSeed(secret, libver)
							rip, rrnd, ok := refSelect(seed, c.groups, v6)
							if !ok || rip.String() != S.ip {
								e.Violation("reference-phantom:"+cls, fmt.Sprintf("%s: station %s reference %v", id, S.ip, rip), map[string]any{"case": id})
							} else {
								wantsRnd := false
								switch p := tp.params.(type) {
								case *pb.GenericTransportParams:
									wantsRnd = p.GetRandomizeDstPort()
								case *pb.PrefixTransportParams:
									wantsRnd = p.GetRandomizeDstPort()
								case *pb.DTLSTransportParams:
									wantsRnd = p.GetRandomizeDstPort()
								}
								switch {
								case libver >= 3 && rrnd && wantsRnd:
									if want := refPort(seed, tp.tt); S.port != want {
										e.Violation("reference-port:"+cls, fmt.Sprintf("%s: station %d reference %d", id, S.port, want), map[string]any{"case": id})
									}
								case !(libver >= 3 && rrnd) || tp.tt != pb.TransportType_Prefix:
									// fixed port 443 (prefix default ports per id apply only when the subnet
									// allows randomisation and the client declined it: pinned by golden)
									if S.port != 443 {
										e.Violation("reference-port:"+cls, fmt.Sprintf("%s: station %d reference 443", id, S.port), map[string]any{"case": id})
									}
								}
							}
						}
						if e.Out.Evaluations%60013 == 1 {
							e.Sample(map[string]any{"case": id, "station": S.String(), "client": C.String()})
						}
					}
				}
				// one message of a dual-stack client through the real parseRegMessage: each of the two registrations it
				// yields must carry what the single-family derivation (and therefore the client) arrives at, in both
				// orders of first use (transport state is derived lazily from the registration's key stream)
				if !gen {
					for _, tp := range tps {
						if tp.heavy && !heavyOK {
							continue
						}
						s4, ok4 := single["false/"+tp.id]
						s6, ok6 := single["true/"+tp.id]
						if !ok4 || !ok6 || s4.err != "" || s6.err != "" {
							continue
						}
						for _, order := range []string{"v4first", "v6first"} {
							if !e.Case() {
								goto done
							}
							id := fmt.Sprintf("secret=%x;libver=%d;cfg=%s;v6=dual:%s;tp=%s", secret[:4], libver, c.id, order, tp.id)
							var d4, d6 view
							var derr error
							if p, msg, site := venum.Guard(func() { d4, d6, derr = dualView(rm, secret, libver, uint32(ci+1), tp, order == "v6first") }); p {
								e.Violation("panic:"+site, msg+" "+id, map[string]any{"case": id})
								continue
							}
							cls := fmt.Sprintf("libver%d:%s", libver, strings.SplitN(tp.id, ":", 2)[0])
							if derr != nil {
								e.Violation("dual-stack-rejected:"+cls, fmt.Sprintf("%s: each family alone is derived, the dual-stack message fails: %v", id, derr), map[string]any{"case": id})
								continue
							}
							if d4.String() != s4.String() {
								e.Violation("dual-stack-differs:"+cls, fmt.Sprintf("%s: IPv4 registration of the dual-stack message %s, single-family derivation %s", id, d4.String(), s4.String()), map[string]any{"case": id})
							} else if d6.String() != s6.String() {
								e.Violation("dual-stack-differs:"+cls, fmt.Sprintf("%s: IPv6 registration of the dual-stack message %s, single-family derivation %s", id, d6.String(), s6.String()), map[string]any{"case": id})
							}
						}
					}
				}
				if heavyOK {
					key := hex.EncodeToString(secret)
					d, ok := dtlsCache[key]
					if !ok {
						var err error
						d, err = pdtls.VerifCreds(secret)
						if err != nil {
							d = "ERR " + err.Error()
						}
						d2, _ := pdtls.VerifCreds(secret)
						if d2 != d {
							e.Violation("dtls-credentials-not-deterministic", fmt.Sprintf("secret=%x", secret[:4]), nil)
						}
						dtlsCache[key] = d
					}
					fmt.Fprintf(h, "dtls=%s\n", d)
				}
				if isFixed {
					bid := fmt.Sprintf("%x/%d/%s", secret[:6], libver, c.id)
					dg := hex.EncodeToString(h.Sum(nil)[:12])
					if gen {
						out[bid] = dg
					} else if g, ok := golden[bid]; !ok {
						vh.Fatal("golden file has no block %s (regenerate with tools/c01_golden.sh)", bid)
					} else if g != dg {
						cls := fmt.Sprintf("libver%d", libver)
						e.Violation("derivation-moved:"+cls, fmt.Sprintf("block %s: derivation outputs differ from the pinned golden digest (station side, all transports/params, both families)", bid), map[string]any{"block": bid})
					}
				}
			}
		}
	}
done:
	if gen {
		b, _ := json.Marshal(out)
		fmt.Printf("GOLDEN %s\n", b)
	}
	e.Out.Extra["dimensions"] = map[string]any{"fixed_secrets": len(secrets), "seeded_secrets": len(seeded), "libver": 5, "family": 2, "configs": len(cfgs), "transport_params": len(tps)}
	e.Finish()
}
