//go:build verif

package main

import "github.com/refraction-networking/conjure/pkg/station/liveness"

func main() { liveness.VerifC18Main() }
