//go:build verif

package liveness

// C18 harness: BFS over query/advance/clear histories on a real
// CachedLivenessTester (virtual clock, scripted probe), oracle from the probe
// history; plus all interleavings of concurrent queries and clean-ups.

import (
	"errors"
	"fmt"
	"sort"
	"strings"
	"sync"
	"sync/atomic"
	"time"

	"github.com/refraction-networking/conjure/pkg/zzverif/vbfs"
	"github.com/refraction-networking/conjure/pkg/zzverif/vh"
	"github.com/refraction-networking/conjure/pkg/zzverif/vsched"
	"github.com/refraction-networking/conjure/pkg/zzverif/vsync"
)

type c18Conf struct {
	name            string
	live, nonlive   string
	capLive, capNon int
}

var c18Confs = []c18Conf{
	{"both-map", "2h", "30m", 0, 0},
	{"live-only-map", "2h", "", 0, 0},
	{"nonlive-only-map", "", "30m", 0, 0},
	{"both-lru1", "2h", "30m", 1, 1},
	{"both-lru2", "2h", "30m", 2, 2},
	{"lru-live2-non1", "2h", "30m", 2, 1},
	{"nonlive-cap-only", "2h", "30m", 0, 2},
	{"live-cap-only", "2h", "30m", 2, 0},
	{"nonlive-only-lru1", "", "30m", 0, 1},
	{"live-only-lru1", "2h", "", 1, 0},
	{"equal-lifetimes-lru1", "30m", "30m", 1, 1},
	// a lifetime of zero (or less) is a configuration too: nothing is ever "measured less than 0 ago", every query probes
	{"zero-nonlive-map", "2h", "0s", 0, 0},
	{"zero-live-lru1", "0s", "30m", 1, 1},
	{"negative-nonlive-lru1", "2h", "-1s", 1, 1},
}

type c18Probe struct {
	at   time.Duration
	live bool
}

type c18Inst struct {
	conf    c18Conf
	t       *CachedLivenessTester
	now     time.Duration
	ops     []string
	probes  map[string][]c18Probe
	refused bool
	called  int
	answer  bool
}

func c18New(conf c18Conf, ops []string) *c18Inst {
	vsched.SetManualClock(true)
	tt, err := New(&Config{CacheDuration: conf.live, CacheDurationNonLive: conf.nonlive, CacheCapacity: conf.capLive, CacheCapacityNonLive: conf.capNon})
	if err != nil {
		vh.Fatal("liveness.New: %v", err)
	}
	in := &c18Inst{conf: conf, ops: ops, probes: map[string][]c18Probe{}}
	in.t = tt.(*CachedLivenessTester)
	in.t.phantomIsLive = func(string) (bool, error) {
		in.called++
		if in.answer && in.refused {
			// a host that answers the SYN with a reset is live too: the probe reports it with the dial error
			return true, errors.New("dial tcp: connect: connection refused")
		}
		if in.answer {
			return true, ErrLiveHost
		}
		return false, NotLive
	}
	return in
}

func dur(s string) time.Duration {
	if s == "" {
		return 0
	}
	d, err := time.ParseDuration(s)
	if err != nil {
		panic(err)
	}
	return d
}

// sizes checks the capacity bound of both caches.
func (in *c18Inst) sizes() (string, string) {
	if in.t.ipCacheLive != nil && in.conf.capLive > 0 {
		if n := in.t.ipCacheLive.Len(); n > in.conf.capLive {
			return "capacity-exceeded:live", fmt.Sprintf("live cache holds %d entries, configured capacity %d", n, in.conf.capLive)
		}
	}
	if in.t.ipCacheNonLive != nil && in.conf.capNon > 0 {
		if n := in.t.ipCacheNonLive.Len(); n > in.conf.capNon {
			return "capacity-exceeded:nonlive", fmt.Sprintf("non-live cache holds %d entries, configured capacity %d", n, in.conf.capNon)
		}
	}
	return "", ""
}

func (in *c18Inst) Apply(op int) (string, string) {
	name := in.ops[op]
	p := strings.Split(name, ":")
	switch p[0] {
	case "q":
		addr := p[1]
		in.answer = p[2] == "live" || p[2] == "refused"
		in.refused = p[2] == "refused"
		in.called = 0
		live, err := in.t.PhantomIsLive(addr, 443)
		hist := in.probes[addr]
		switch in.called {
		case 0:
			if !errors.Is(err, ErrCachedPhantom) {
				return "no-probe-no-cache", fmt.Sprintf("%s: no probe was sent but the answer is not marked cached (err=%v)", name, err)
			}
			if len(hist) == 0 {
				return "cached-without-measurement", fmt.Sprintf("%s answered from cache but the address was never probed", name)
			}
			last := hist[len(hist)-1]
			if last.live != live {
				return "flipped-verdict", fmt.Sprintf("%s: cache says live=%v, most recent measurement (%v ago) said live=%v", name, live, in.now-last.at, last.live)
			}
			life := dur(in.conf.nonlive)
			if last.live {
				life = dur(in.conf.live)
			}
			if life == 0 {
				return "cached-without-cache", fmt.Sprintf("%s: verdict live=%v served from cache but no cache is configured for it", name, live)
			}
			if in.now-last.at >= life {
				return "stale-verdict", fmt.Sprintf("%s: verdict live=%v served from cache %v after it was measured, lifetime %v", name, live, in.now-last.at, life)
			}
		case 1:
			if live != in.answer {
				return "probe-verdict-altered", fmt.Sprintf("%s: probe said live=%v, answer live=%v", name, in.answer, live)
			}
			in.probes[addr] = append(hist, c18Probe{in.now, in.answer})
		default:
			return "probe-count", fmt.Sprintf("%s: %d probes for one query", name, in.called)
		}
	case "adv":
		d := dur(p[1])
		in.now += d
		vsched.ManualAdvance(d)
	case "clear":
		in.t.ClearExpiredCache()
	}
	return in.sizes()
}

func c18Dump(c cache, now time.Time) string {
	var ls []string
	switch v := c.(type) {
	case nil:
		return "-"
	case *mapCache:
		for k, e := range v.ipCache {
			ls = append(ls, fmt.Sprintf("%s@%d", k, int64(now.Sub(e.cachedTime)/time.Second)))
		}
		sort.Strings(ls)
		return "map{" + strings.Join(ls, ",") + "}"
	case *lruCache:
		for k, e := range v.ipCache {
			ls = append(ls, fmt.Sprintf("%s@%d", k, int64(now.Sub(e.cachedTime)/time.Second)))
		}
		sort.Strings(ls)
		return fmt.Sprintf("lru{%s|%v}", strings.Join(ls, ","), v.lru.Keys())
	}
	return "?"
}

func (in *c18Inst) Key() string {
	var ms []string
	for a, h := range in.probes {
		l := h[len(h)-1]
		age := in.now - l.at
		if age > 3*time.Hour {
			age = 3 * time.Hour
		}
		ms = append(ms, fmt.Sprintf("%s:%v@%d", a, l.live, int64(age/time.Second)))
	}
	sort.Strings(ms)
	now := vsched.VNow()
	return strings.Join(ms, " ") + "\n" + c18Dump(in.t.ipCacheLive, now) + " " + c18Dump(in.t.ipCacheNonLive, now)
}

func c18BFS(a *vh.Args, confName string) {
	var conf c18Conf
	for _, c := range c18Confs {
		if c.name == confName {
			conf = c
		}
	}
	if conf.name == "" {
		vh.Fatal("unknown config %q", confName)
	}
	addrs := []string{"a", "b", "c"}
	depth := 8
	if a.Thorough() {
		addrs = []string{"a", "b", "c"}
		depth = 10
	}
	var ops []string
	for _, ad := range addrs {
		ops = append(ops, "q:"+ad+":dead", "q:"+ad+":live")
	}
	ops = append(ops, "q:a:refused", "adv:29m59s", "adv:2s", "adv:1h29m58s", "clear")
	sys := &vbfs.System{OpNames: ops, New: func() vbfs.Instance { return c18New(conf, ops) }}
	if a.Replay != "" {
		rp := vh.LoadReplay(a.Replay)
		var idx []int
		for _, h := range rp["history"].([]any) {
			for i, o := range ops {
				if o == h.(string) {
					idx = append(idx, i)
				}
			}
		}
		k, w, log := vbfs.Replay(sys, idx)
		for _, l := range log {
			fmt.Println(l)
		}
		o := &vh.Out{Name: "replay", Evaluations: 1}
		if k != "" {
			o.Violations = append(o.Violations, &vh.Violation{Key: k + ":" + conf.name, What: w})
		}
		vh.Emit(o)
		return
	}
	res := vbfs.Run(vbfs.Config{Depth: depth, Deadline: a.Deadline()}, sys)
	o := &vh.Out{Name: "bfs:" + conf.name, Evaluations: res.Transitions, Nontrivial: res.States, States: res.States, Transitions: res.Transitions, Traces: res.Transitions,
		Exhaustive: res.Exhaustive, Cap: res.Cap, WallS: res.WallS, ViolCounts: res.ViolCounts,
		Extra: map[string]any{"depth_completed": res.DepthCompleted, "alphabet": ops, "config": fmt.Sprintf("%+v", conf)}}
	for _, v := range res.Violations {
		o.Violations = append(o.Violations, &vh.Violation{Key: v.Key + ":" + conf.name, What: v.What + " [config " + conf.name + "]", Replay: map[string]any{"history": v.History, "scenario": "bfs:" + conf.name}})
	}
	for _, s := range res.Samples {
		o.Samples = append(o.Samples, map[string]any{"config": conf.name, "history": s})
	}
	vh.Emit(o)
}

// Concurrent part: 2 query threads + 1 ClearExpired thread, all interleavings
// to a preemption bound, lru capacity 1.
func c18Conc(a *vh.Args, name string) {
	// name "conc:<conf>:<script>" script e.g. "a+,b-|b+,a-" ( + live, - dead ) ; optional "|clear"
	parts := strings.SplitN(name, ":", 3)
	var conf c18Conf
	for _, c := range c18Confs {
		if c.name == parts[1] {
			conf = c
		}
	}
	threads := strings.Split(parts[2], "|")
	type ans struct {
		addr   string
		live   bool
		cached bool
		at     int64
	}
	mk := func() *vsched.Scenario {
		tt, err := New(&Config{CacheDuration: conf.live, CacheDurationNonLive: conf.nonlive, CacheCapacity: conf.capLive, CacheCapacityNonLive: conf.capNon})
		if err != nil {
			vh.Fatal("%v", err)
		}
		t := tt.(*CachedLivenessTester)
		var probeLog []c18Probe
		probeAddr := []string{}
		var answers []ans
		var wg vsync.WaitGroup
		// the verdict a probe returns is scripted per query; the probe itself is a
		// scheduling point (that is where real workers spend their time)
		cur := map[int]bool{}
		t.phantomIsLive = func(address string) (bool, error) {
			id := vsched.ThreadID()
			vsched.Yield("probe")
			v := cur[id]
			probeLog = append(probeLog, c18Probe{time.Duration(vsched.ClockNanos()), v})
			probeAddr = append(probeAddr, strings.Split(address, ":")[0])
			if v {
				return true, ErrLiveHost
			}
			return false, NotLive
		}
		body := func() {
			for _, th := range threads {
				th := th
				wg.Add(1)
				vsched.GoNamed(th, func() {
					defer wg.Done()
					if th == "clear" {
						t.ClearExpiredCache()
						return
					}
					for _, q := range strings.Split(th, ",") {
						if strings.HasPrefix(q, "sleep") {
							vsched.Sleep(dur(strings.TrimPrefix(q, "sleep")))
							continue
						}
						addr, v := q[:1], q[1] == '+'
						cur[vsched.ThreadID()] = v
						live, err := t.PhantomIsLive(addr, 443)
						answers = append(answers, ans{addr, live, errors.Is(err, ErrCachedPhantom), vsched.ClockNanos()})
					}
				})
			}
			wg.Wait()
		}
		check := func(x *vsched.Exec) *vsched.Violation {
			if x.Verdict != vsched.VOK {
				return &vsched.Violation{Key: x.Verdict + ":" + conf.name, What: x.Detail}
			}
			for _, an := range answers {
				if !an.cached {
					continue
				}
				ok := false
				for i, p := range probeLog {
					life := dur(conf.nonlive)
					if p.live {
						life = dur(conf.live)
					}
					if probeAddr[i] == an.addr && p.live == an.live && life > 0 && time.Duration(an.at)-p.at < life {
						ok = true
					}
				}
				if !ok {
					return &vsched.Violation{Key: "cached-verdict-not-measured:" + conf.name, What: fmt.Sprintf("cached answer %+v matches no fresh measurement %v %v", an, probeLog, probeAddr)}
				}
			}
			if t.ipCacheLive != nil && conf.capLive > 0 && t.ipCacheLive.Len() > conf.capLive {
				return &vsched.Violation{Key: "capacity-exceeded-at-quiescence:live:" + conf.name, What: fmt.Sprintf("live cache holds %d > %d after all threads finished", t.ipCacheLive.Len(), conf.capLive)}
			}
			if t.ipCacheNonLive != nil && conf.capNon > 0 && t.ipCacheNonLive.Len() > conf.capNon {
				return &vsched.Violation{Key: "capacity-exceeded-at-quiescence:nonlive:" + conf.name, What: fmt.Sprintf("non-live cache holds %d > %d after all threads finished", t.ipCacheNonLive.Len(), conf.capNon)}
			}
			return nil
		}
		return &vsched.Scenario{Body: body, Check: check, Outcome: func(x *vsched.Exec) string {
			var s []string
			for _, an := range answers {
				s = append(s, fmt.Sprintf("%s%v%v", an.addr, an.live, an.cached))
			}
			sort.Strings(s)
			now := vsched.VNow()
			return strings.Join(s, ",") + c18Dump(t.ipCacheLive, now) + c18Dump(t.ipCacheNonLive, now)
		}}
	}
	if a.Replay != "" {
		rp := vh.LoadReplay(a.Replay)
		x, v := vsched.RunOnce(vh.Ints(rp["choices"]), 0, mk)
		for _, l := range x.Trace() {
			fmt.Println(l)
		}
		o := &vh.Out{Name: name, Evaluations: 1}
		if v != nil {
			o.Violations = append(o.Violations, &vh.Violation{Key: v.Key, What: v.What})
		}
		vh.Emit(o)
		return
	}
	vh.SelfCheck(name, mk)
	pb := 3
	if a.Thorough() {
		pb = 5
	}
	r := vsched.Explore(vsched.Config{Name: name, PreemptBound: pb, EnvBound: -1, Deadline: a.Deadline()}, mk)
	vh.Emit(vh.FromSched(r))
}

// VerifC18Main is the worker entry point.
func VerifC18Main() {
	a := vh.Parse()
	name := a.Scenario
	if a.Replay != "" {
		name = vh.LoadReplay(a.Replay)["scenario"].(string)
	}
	switch {
	case strings.HasPrefix(name, "bfs:"):
		c18BFS(a, strings.TrimPrefix(name, "bfs:"))
	case strings.HasPrefix(name, "conc:"):
		c18Conc(a, name)
	case strings.HasPrefix(name, "race:"):
		c18Race(a, name)
	default:
		vh.Fatal("unknown scenario %q", name)
	}
}

// c18Race: free-running companion for the race detector (nothing rewritten, real clock, millisecond
// lifetimes so that entries expire while other goroutines query): 4 query goroutines over 3 addresses
// with live / non-live verdicts and a clean-up goroutine, on the cache configuration named after "race:".
func c18Race(a *vh.Args, name string) {
	caps := map[string][2]int{"map": {0, 0}, "lru1": {1, 1}, "lru2": {2, 2}, "lru-live2-non1": {2, 1}}
	cp, ok := caps[strings.TrimPrefix(name, "race:")]
	if !ok {
		vh.Fatal("unknown race configuration %q", name)
	}
	t0 := time.Now()
	var n int64
	for time.Since(t0) < a.Budget/4 {
		tt, err := New(&Config{CacheDuration: "3ms", CacheDurationNonLive: "1ms", CacheCapacity: cp[0], CacheCapacityNonLive: cp[1]})
		if err != nil {
			vh.Fatal("%v", err)
		}
		t := tt.(*CachedLivenessTester)
		var flip int64
		t.phantomIsLive = func(address string) (bool, error) {
			switch address[0] {
			case 'a':
				return true, ErrLiveHost
			case 'b':
				return false, NotLive
			}
			if atomic.AddInt64(&flip, 1)%2 == 0 {
				return true, ErrLiveHost
			}
			return false, NotLive
		}
		var wg sync.WaitGroup
		for g := 0; g < 4; g++ {
			g := g
			wg.Add(1)
			go func() {
				defer wg.Done()
				for i := 0; i < 40; i++ {
					addr := string(rune('a'+(i+g)%3)) + ".example"
					t.PhantomIsLive(addr, 443)
					atomic.AddInt64(&n, 1)
					if i%8 == 7 {
						time.Sleep(time.Millisecond)
					}
				}
			}()
		}
		wg.Add(1)
		go func() {
			defer wg.Done()
			for i := 0; i < 6; i++ {
				t.ClearExpiredCache()
				time.Sleep(500 * time.Microsecond)
			}
		}()
		wg.Wait()
	}
	vh.Emit(&vh.Out{Name: name, Evaluations: n, Traces: n, Exhaustive: false, Cap: "free-running sample of schedules under the race detector (adjunct)", WallS: time.Since(t0).Seconds(),
		Samples: []any{map[string]any{"iteration": "4 goroutines x 40 queries over 3 addresses + ClearExpiredCache x6, lifetimes 3ms/1ms"}}})
}
