//go:build verif

package main

// C06: covert-string grammar x policy configurations x scripted resolver
// answers through the real parse / ingest / dial path; independent policy
// evaluation (net/netip, raw configuration strings) of the address that the
// relay would dial.

import (
	"fmt"
	"github.com/refraction-networking/conjure/pkg/phantoms"
	"github.com/refraction-networking/conjure/pkg/zzverif/vsched"
	"io"
	"net"
	"net/netip"
	"os"
	"regexp"
	"strings"
	"syscall"
	"time"

	"github.com/refraction-networking/conjure/pkg/station/lib"
	"github.com/refraction-networking/conjure/pkg/zzverif/venum"
	"github.com/refraction-networking/conjure/pkg/zzverif/vfix"
	"github.com/refraction-networking/conjure/pkg/zzverif/vh"
	"github.com/refraction-networking/conjure/pkg/zzverif/vnet"
	pb "github.com/refraction-networking/conjure/proto"
)

type policy struct {
	name    string
	block   []string
	allow   []string
	domains []string
}

func shippedPolicy() policy {
	root := os.Getenv("VERIF_REPO")
	if root == "" {
		root = "/repo"
	}
	os.Setenv("CJ_STATION_CONFIG", root+"/cmd/application/app_config.toml")
	// read the raw lists with the TOML decoder the station uses, without going through ParseConfig
	var c lib.Config
	if err := lib.VerifDecodeConfig(os.Getenv("CJ_STATION_CONFIG"), &c); err != nil {
		vh.Fatal("shipped config: %v", err)
	}
	return policy{"shipped", c.CovertBlocklistSubnets, c.CovertAllowlistSubnets, c.CovertBlocklistDomains}
}

func policies() []policy {
	v4 := []string{"10.0.0.0/8", "127.0.0.0/8", "192.168.0.0/16"}
	v6 := []string{"fc00::/7", "::1/128", "fe80::/10"}
	return []policy{
		{"none", nil, nil, nil},
		{"block-v4", v4, nil, nil},
		{"block-v6", v6, nil, nil},
		{"block-both", append(append([]string{}, v4...), v6...), nil, []string{"localhost"}},
		shippedPolicy(),
		{"allow-only", nil, []string{"93.184.0.0/16", "2606:2800::/32"}, nil},
		{"allow-and-block", []string{"93.184.216.0/24"}, []string{"93.184.0.0/16"}, nil},
		{"allow-inside-block", v4, []string{"10.1.0.0/16"}, nil},
		{"domains-anchored", v4, nil, []string{"^internal\\.example$"}},
		{"domains-suffix", append(append([]string{}, v4...), v6...), nil, []string{".*\\.corp$", "localhost"}},
		// patterns are regular expressions over the host text: they also apply to hosts that are address literals
		{"domains-literal-text", nil, nil, []string{"^93\\.184\\.216\\.34$", "^fd12:", "^::ffff:", "^8\\.8\\."}},
		{"domains-catch-all", nil, nil, []string{".*"}},
		// IPv4 subnets written as IPv4-mapped IPv6 CIDRs (net.ParseCIDR accepts them; they name IPv4 addresses)
		{"block-v4-mapped-notation", []string{"::ffff:10.0.0.0/104", "::ffff:127.0.0.0/104", "::ffff:192.168.0.0/112"}, nil, nil},
		{"allow-v4-mapped-notation", nil, []string{"::ffff:93.184.0.0/112"}, nil},
	}
}

func coverts() []string {
	hosts4 := []string{"93.184.216.34", "10.0.0.1", "127.0.0.1", "192.168.1.1", "10.1.2.3", "8.8.8.8", "0.0.0.0", "255.255.255.255", "010.0.0.1", "93.184.216.034", "1.2.3", "127.1"}
	hosts6 := []string{"2606:2800:220:1::1", "::1", "fc00::1", "fd12:3456::1", "fe80::1", "fe80::1%eth0", "::ffff:10.0.0.1", "::ffff:93.184.216.34", "::", "2606:2800:220:1:0:0:0:1", "2606:2800:220:1::1%lo", "::ffff:7f00:1", "64:ff9b::a00:1"}
	names := []string{"example.com", "localhost", "LOCALHOST", "localhost.", "internal.example", "internal.example.", "x.corp", "X.CORP", "xn--bcher-kva.example", "a", strings.Repeat("a", 300) + ".com"}
	ports := []string{"443", "80", "0", "65535", "65536", "-1", "80a", " 80", "", "+80", "080", "99999999999"}
	var out []string
	for _, h := range hosts4 {
		out = append(out, h)
		for _, p := range ports {
			out = append(out, h+":"+p)
		}
		out = append(out, "["+h+"]:443")
	}
	for _, h := range hosts6 {
		out = append(out, h, "["+h+"]")
		for _, p := range ports[:6] {
			out = append(out, "["+h+"]:"+p)
		}
		out = append(out, h+":443")
	}
	for _, h := range names {
		out = append(out, h)
		for _, p := range ports[:5] {
			out = append(out, h+":"+p)
		}
	}
	out = append(out, "", ":", "::", ":443", "[]:443", "[:443", "]:443", "example.com:443:443", "http://example.com:443", "example.com:443/", "93.184.216.34:443 ", " 93.184.216.34:443", "93.184.216.34\x00:443", "[::1]:443\n")
	return out
}

type resolverScript struct {
	name    string
	answers []string // each "ip", "ip%zone", or "err"
}

var resolvers = []resolverScript{
	{"permitted", []string{"93.184.216.34", "93.184.216.34"}},
	{"blocked-v4", []string{"10.0.0.1", "10.0.0.1"}},
	{"blocked-v6", []string{"fd00::5", "fd00::5"}},
	{"loopback", []string{"127.0.0.1", "127.0.0.1"}},
	{"error", []string{"err", "err"}},
	{"rebind", []string{"93.184.216.34", "10.0.0.1"}},
	{"rebind6", []string{"2606:2800:220:1::1", "::1"}},
	{"zone", []string{"fe80::1%eth0", "fe80::1%eth0"}},
	{"mapped-blocked", []string{"::ffff:10.0.0.1", "::ffff:10.0.0.1"}},
}

// refPolicy is the independent evaluation from the raw configuration strings.
type refPolicy struct {
	block, allow []netip.Prefix
	domains      []*regexp.Regexp
	unparsable   []string
}

func mkRef(p policy) refPolicy {
	var r refPolicy
	parse := func(ss []string) []netip.Prefix {
		var out []netip.Prefix
		for _, s := range ss {
			pf, err := netip.ParsePrefix(strings.TrimSpace(s))
			if err != nil {
				r.unparsable = append(r.unparsable, s)
				continue
			}
			pf = pf.Masked()
			if pf.Addr().Is4In6() && pf.Bits() >= 96 {
				pf = netip.PrefixFrom(pf.Addr().Unmap(), pf.Bits()-96) // the IPv4 subnet it names
			}
			out = append(out, pf)
		}
		return out
	}
	r.block = parse(p.block)
	r.allow = parse(p.allow)
	for _, d := range p.domains {
		r.domains = append(r.domains, regexp.MustCompile(d))
	}
	return r
}

func (r refPolicy) forbidden(a netip.Addr) (bool, string) {
	a = a.Unmap().WithZone("")
	if len(r.allow) > 0 {
		for _, p := range r.allow {
			if p.Contains(a) {
				return false, ""
			}
		}
		return true, "outside the allowlist"
	}
	for _, p := range r.block {
		if p.Contains(a) {
			return true, "inside blocklisted subnet " + p.String()
		}
	}
	return false, ""
}

// boundaryCases derives literal coverts and resolver scripts from the prefixes of a policy.
func boundaryCases(pol policy) ([]string, []resolverScript) {
	var lits []string
	var scripts []resolverScript
	seen := map[string]bool{}
	for _, raw := range append(append([]string{}, pol.block...), pol.allow...) {
		pf, err := netip.ParsePrefix(strings.TrimSpace(raw))
		if err != nil {
			continue
		}
		pf = pf.Masked()
		first := pf.Addr()
		// last address of the prefix
		b := first.AsSlice()
		for i := pf.Bits(); i < len(b)*8; i++ {
			b[i/8] |= 1 << (7 - uint(i%8))
		}
		last, _ := netip.AddrFromSlice(b)
		for _, ad := range []netip.Addr{first, last, first.Prev(), last.Next()} {
			if !ad.IsValid() || seen[ad.String()] {
				continue
			}
			seen[ad.String()] = true
			forms := []string{ad.String()}
			if ad.Is4() {
				a4 := ad.As4()
				forms = append(forms, "::ffff:"+ad.String(), fmt.Sprintf("::ffff:%02x%02x:%02x%02x", a4[0], a4[1], a4[2], a4[3]), fmt.Sprintf("64:ff9b::%02x%02x:%02x%02x", a4[0], a4[1], a4[2], a4[3]))
			} else if ad.Is4In6() {
				forms = append(forms, ad.Unmap().String())
			}
			for _, f := range forms {
				if strings.Contains(f, ":") {
					lits = append(lits, "["+f+"]:443", f+":443")
				} else {
					lits = append(lits, f+":443", f+":0")
				}
				scripts = append(scripts, resolverScript{"answer=" + f, []string{f, f}}, resolverScript{"rebind-to=" + f, []string{"93.184.216.34", f}})
			}
		}
	}
	return lits, scripts
}

type nopConn struct{ net.Conn }

func (nopConn) RemoteAddr() net.Addr { return &net.TCPAddr{IP: net.IPv4(203, 0, 113, 7), Port: 5555} }
func (nopConn) Close() error         { return nil }

func main() {
	a := vh.Parse()
	e := venum.New(fmt.Sprintf("covert:shard%d/%d", a.ShardI, a.ShardN), a)
	sel := vfix.Selector(vfix.SubnetsTOML)
	cs := coverts()
	idx := 0
	if !reregPass(e, a, sel) || !reloadPass(e, a, sel) {
		vnet.ResolveHook, vnet.DialHook = nil, nil
		e.Finish()
		return
	}
	for _, pol := range policies() {
		ref := mkRef(pol)
		conf := &lib.RegConfig{EnableIPv4: true, EnableIPv6: true, CovertBlocklistSubnets: pol.block, CovertAllowlistSubnets: pol.allow, CovertBlocklistDomains: pol.domains}
		lib.VerifParseBlocklists(conf)
		pcs, pres := cs, resolvers
		if a.Thorough() {
			// thorough: for every prefix of this policy (block and allow lists) the first and last address inside and
			// the neighbours just outside, as literal coverts in every textual family form (plain, bracketed,
			// IPv4-mapped, NAT64-embedded for v4) and as resolver answers for a name (alone and as the second,
			// "rebound" answer)
			bl, br := boundaryCases(pol)
			pcs = append(append([]string{}, cs...), bl...)
			pres = append(append([]resolverScript{}, resolvers...), br...)
		}
		for _, c := range pcs {
			// literal inputs need no resolver script; names get every script
			isName := false
			if h, _, err := net.SplitHostPort(c); err == nil {
				hh := h
				if i := strings.IndexByte(hh, '%'); i >= 0 {
					hh = hh[:i]
				}
				isName = net.ParseIP(hh) == nil
			}
			scripts := pres[:1]
			if isName {
				scripts = pres
			}
			for _, rs := range scripts {
				idx++
				if idx%a.ShardN != a.ShardI {
					continue
				}
				if !e.Case() {
					goto done
				}
				id := fmt.Sprintf("policy=%s;covert=%q;resolver=%s", pol.name, c, rs.name)
				calls := 0
				vnet.ResolveHook = func(network, host string) (*net.IPAddr, error) {
					ans := "err"
					if calls < len(rs.answers) {
						ans = rs.answers[calls]
					}
					calls++
					if ans == "err" {
						return nil, &net.DNSError{Err: "no such host", Name: host, IsNotFound: true}
					}
					zone := ""
					if i := strings.IndexByte(ans, '%'); i >= 0 {
						ans, zone = ans[:i], ans[i+1:]
					}
					return &net.IPAddr{IP: net.ParseIP(ans), Zone: zone}, nil
				}
				var dialed []string
				vnet.DialHook = func(network, address string) (net.Conn, error) {
					dialed = append(dialed, address)
					return nil, &net.OpError{Op: "dial", Net: network, Err: syscall.ECONNREFUSED}
				}
				// (1) the policy function itself
				var direct string
				p, msg, site := venum.Guard(func() { direct, _ = conf.ParseOrResolveBlocklisted(c) })
				if p {
					e.Violation("panic:"+site, msg+" "+id, map[string]any{"case": id})
					continue
				}
				directCalls := calls
				// (2) real ingest of a message carrying the string, (3) real relay dial; once as an ordinary registration and
				// once with the client-settable "pre-scanned by another station" flag (it only excuses the phantom liveness
				// probe, never the covert policy: lists are per-station configuration)
				var anns []lib.VerifDetectorMsg
				var stored string
				admitted := false
				crashed := false
				for _, prescan := range []bool{true, false} {
					calls = 0
					dialed = dialed[:0]
					anns = anns[:0]
					rm := vfix.Manager(conf, sel, &vfix.Tester{}, vfix.Transports{Min: true}, nil)
					rm.VerifCaptureDetector(&anns)
					m := vfix.Msg{Secret: vfix.Secret(3), Transport: pb.TransportType_Min, V4: true, Gen: 1, LibVer: 4, Covert: c, Source: pb.RegistrationSource_API, Addr: []byte{203, 0, 113, 7}, Prescan: prescan}
					stored, admitted = "", false
					if p, msg, site := venum.Guard(func() {
						regs, err := rm.VerifParseRegMessage(m.Bytes())
						if err != nil || len(regs) != 1 {
							return
						}
						rm.VerifIngest(regs[0])
						if _, ok := rm.GetRegistrations(regs[0].PhantomIp)[rm.VerifIdentifier(regs[0])]; ok {
							admitted = true
							stored = regs[0].Covert
							lib.Proxy(regs[0], nopConn{}, lib.VerifQuietLogger())
						}
					}); p {
						e.Violation("panic:"+site, msg+" "+id, map[string]any{"case": id})
						crashed = true
						break
					}
					if prescan && ((direct != "") != admitted || (admitted && (len(dialed) != 1 || dialed[0] != direct || stored != direct))) {
						e.Violation("prescanned-flag-changes-covert-admission", fmt.Sprintf("%s: ParseOrResolveBlocklisted=%q; with the pre-scanned flag: admitted=%v stored=%q dialed=%q", id, direct, admitted, stored, dialed), map[string]any{"case": id})
					}
				}
				if crashed {
					continue
				}
				if (direct != "") != admitted {
					e.Violation("admission-differs-from-policy-function", fmt.Sprintf("%s: ParseOrResolveBlocklisted=%q admitted=%v", id, direct, admitted), map[string]any{"case": id})
				}
				if !admitted {
					if len(dialed) > 0 {
						e.Violation("dial-without-admission", id, map[string]any{"case": id})
					}
					// a well-formed permitted literal must be accepted
					if ap, err := netip.ParseAddrPort(c); err == nil && ap.Addr().Zone() == "" && !isName {
						if bad, _ := ref.forbidden(ap.Addr()); !bad && !matchAny(ref.domains, ap.Addr().String()) && canonical(c, ap) {
							e.Violation("permitted-literal-rejected", id, map[string]any{"case": id})
						}
					}
					continue
				}
				e.Nontrivial(id)
				if len(dialed) != 1 {
					e.Violation("dial-count", fmt.Sprintf("%s: %d dials", id, len(dialed)), map[string]any{"case": id})
					continue
				}
				d := dialed[0]
				if d != stored || d != direct {
					e.Violation("dialed-differs-from-checked", fmt.Sprintf("%s: policy function returned %q, registration holds %q, relay dialed %q", id, direct, stored, d), map[string]any{"case": id})
				}
				ap, err := netip.ParseAddrPort(d)
				if err != nil {
					e.Violation("dialed-not-literal", fmt.Sprintf("%s: dialed %q: %v", id, d, err), map[string]any{"case": id})
					continue
				}
				if bad, why := ref.forbidden(ap.Addr()); bad {
					key := "forbidden-address-dialed:" + pol.name
					for _, u := range ref.unparsable {
						_ = u
					}
					e.Violation(key, fmt.Sprintf("%s: dialed %s which is %s", id, d, why), map[string]any{"case": id})
				}
				if h, _, err := net.SplitHostPort(c); err == nil && matchAny(ref.domains, h) {
					e.Violation("blocklisted-domain-dialed", fmt.Sprintf("%s: host %q matches a blocklisted pattern", id, h), map[string]any{"case": id})
				}
				if calls+0 > 1 || directCalls > 1 {
					e.Violation("resolved-more-than-once", fmt.Sprintf("%s: %d lookups during admission+dial", id, calls), map[string]any{"case": id})
				}
				if !isName {
					if ap2, err := netip.ParseAddrPort(c); err == nil && canonical(c, ap2) && d != c {
						e.Violation("permitted-literal-altered", fmt.Sprintf("%s: dialed %q", id, d), map[string]any{"case": id})
					}
				}
				if idx%977 == 0 {
					e.Sample(map[string]any{"case": id, "dialed": d})
				}
			}
		}
	}
done:
	vnet.ResolveHook, vnet.DialHook = nil, nil
	_ = io.Discard
	e.Finish()
}

// reregPass: one client registers twice with the same secret, transport and phantom - first naming a covert the
// policy refuses, then (after 0 s .. 9 min of virtual time, within the first record's lifetime) a permitted one, and the
// other way round. Whatever registration is usable afterwards, the address the relay dials for it must pass the policy.
func reregPass(e *venum.E, a *vh.Args, sel *phantoms.PhantomIPSelector) bool {
	vsched.SetManualClock(true)
	defer vsched.SetManualClock(false)
	bad := []string{"10.0.0.1:443", "127.0.0.1:443", "[fd12:3456::1]:443", "[::1]:443", "blocked.example:443"}
	good := []string{"93.184.216.34:443", "[2606:2800:220:1::1]:443"}
	vnet.ResolveHook = func(network, host string) (*net.IPAddr, error) {
		return &net.IPAddr{IP: net.ParseIP("10.0.0.1")}, nil
	}
	idx := 0
	for _, pol := range policies() {
		ref := mkRef(pol)
		for _, c1 := range bad {
			for _, c2 := range good {
				for _, gap := range []time.Duration{0, 20 * time.Second, time.Minute, 9 * time.Minute} {
					for _, order := range []string{"refused-then-permitted", "permitted-then-refused"} {
						idx++
						if idx%a.ShardN != a.ShardI {
							continue
						}
						if !e.Case() {
							return false
						}
						id := fmt.Sprintf("reregister=%s;policy=%s;refused=%q;permitted=%q;gap=%v", order, pol.name, c1, c2, gap)
						conf := &lib.RegConfig{EnableIPv4: true, EnableIPv6: true, CovertBlocklistSubnets: pol.block, CovertAllowlistSubnets: pol.allow, CovertBlocklistDomains: pol.domains}
						if lib.VerifParseBlocklists(conf) != nil {
							continue
						}
						var dialed []string
						vnet.DialHook = func(network, address string) (net.Conn, error) {
							dialed = append(dialed, address)
							return nil, &net.OpError{Op: "dial", Net: network, Err: syscall.ECONNREFUSED}
						}
						first, second := c1, c2
						if order == "permitted-then-refused" {
							first, second = c2, c1
						}
						var usable *lib.DecoyRegistration
						if p, msg, site := venum.Guard(func() {
							rm := vfix.Manager(conf, sel, &vfix.Tester{}, vfix.Transports{Min: true}, nil)
							var sink []lib.VerifDetectorMsg
							rm.VerifCaptureDetector(&sink)
							var last *lib.DecoyRegistration
							for i, c := range []string{first, second} {
								if i == 1 {
									vsched.ManualAdvance(gap)
								}
								m := vfix.Msg{Secret: vfix.Secret(5), Transport: pb.TransportType_Min, V4: true, Gen: 1, LibVer: 4, Covert: c, Source: pb.RegistrationSource_API, Addr: []byte{203, 0, 113, 7}}
								regs, err := rm.VerifParseRegMessage(m.Bytes())
								if err != nil || len(regs) != 1 {
									return
								}
								rm.VerifIngest(regs[0])
								last = regs[0]
							}
							if r, ok := rm.GetRegistrations(last.PhantomIp)[rm.VerifIdentifier(last)]; ok {
								usable = r.(*lib.DecoyRegistration)
								lib.Proxy(usable, nopConn{}, lib.VerifQuietLogger())
							}
						}); p {
							e.Violation("panic:"+site, msg+" "+id, map[string]any{"case": id})
							continue
						}
						if usable == nil {
							if len(dialed) > 0 {
								e.Violation("dial-without-admission", id, map[string]any{"case": id})
							}
							continue
						}
						e.Nontrivial(id)
						for _, d := range dialed {
							ap, err := netip.ParseAddrPort(d)
							if err != nil {
								e.Violation("dialed-not-literal", fmt.Sprintf("%s: dialed %q: %v", id, d, err), map[string]any{"case": id})
								continue
							}
							if badAddr, why := ref.forbidden(ap.Addr()); badAddr {
								e.Violation("forbidden-address-dialed:after-reregistration", fmt.Sprintf("%s: the usable registration holds %q, relay dialed %s which is %s", id, usable.Covert, d, why), map[string]any{"case": id})
							}
						}
					}
				}
			}
		}
	}
	return true
}

// reloadPass: the policy in force changes while the station runs (SIGHUP -> ParseConfig -> OnReload, as main() does).
// For every ordered pair of policies and every covert of a small menu: a registration naming the covert is ingested
// under the first policy, the second policy is loaded, a second client names the same covert. What the station then
// admits, stores and dials must be what a station freshly started with the second policy admits, stores and dials,
// and must pass the independent evaluation of the second policy. Returns false when the case budget ended.
func reloadPass(e *venum.E, a *vh.Args, sel *phantoms.PhantomIPSelector) bool {
	pols := policies()
	menu := []string{"example.com:443", "localhost:443", "internal.example:443", "x.corp:443", "93.184.216.34:443", "10.0.0.1:443", "10.1.2.3:443", "127.0.0.1:443", "[fd12:3456::1]:443", "[::1]:443", "[2606:2800:220:1::1]:443", "8.8.8.8:53"}
	mkconf := func(pol policy) (*lib.RegConfig, error) {
		c := &lib.RegConfig{EnableIPv4: true, EnableIPv6: true, CovertBlocklistSubnets: pol.block, CovertAllowlistSubnets: pol.allow, CovertBlocklistDomains: pol.domains}
		return c, lib.VerifParseBlocklists(c)
	}
	idx := 0
	for _, p1 := range pols {
		for _, p2 := range pols {
			if p1.name == p2.name {
				continue
			}
			ref := mkRef(p2)
			for _, c := range menu {
				h, _, _ := net.SplitHostPort(c)
				scripts := resolvers[:1]
				if net.ParseIP(h) == nil {
					scripts = resolvers
				}
				for _, rs := range scripts {
					idx++
					if idx%a.ShardN != a.ShardI {
						continue
					}
					if !e.Case() {
						return false
					}
					id := fmt.Sprintf("reload=%s>%s;covert=%q;resolver=%s", p1.name, p2.name, c, rs.name)
					calls := 0
					vnet.ResolveHook = func(network, host string) (*net.IPAddr, error) {
						ans := "err"
						if calls < len(rs.answers) {
							ans = rs.answers[calls]
						}
						calls++
						if ans == "err" {
							return nil, &net.DNSError{Err: "no such host", Name: host, IsNotFound: true}
						}
						zone := ""
						if i := strings.IndexByte(ans, '%'); i >= 0 {
							ans, zone = ans[:i], ans[i+1:]
						}
						return &net.IPAddr{IP: net.ParseIP(ans), Zone: zone}, nil
					}
					var dialed []string
					vnet.DialHook = func(network, address string) (net.Conn, error) {
						dialed = append(dialed, address)
						return nil, &net.OpError{Op: "dial", Net: network, Err: syscall.ECONNREFUSED}
					}
					conf1, err1 := mkconf(p1)
					conf2, err2 := mkconf(p2)
					confF, _ := mkconf(p2)
					if err1 != nil || err2 != nil {
						continue // a configuration that does not load is never started with / reloaded (C19's business)
					}
					// ingest one registration; reports whether it became usable, what it holds and what the relay dials
					ingest := func(rm *lib.RegistrationManager, secret int, relay bool) (admitted bool, stored string) {
						calls = 0
						m := vfix.Msg{Secret: vfix.Secret(secret), Transport: pb.TransportType_Min, V4: true, Gen: 1, LibVer: 4, Covert: c, Source: pb.RegistrationSource_API, Addr: []byte{203, 0, 113, 7}}
						regs, err := rm.VerifParseRegMessage(m.Bytes())
						if err != nil || len(regs) != 1 {
							return false, ""
						}
						rm.VerifIngest(regs[0])
						if _, ok := rm.GetRegistrations(regs[0].PhantomIp)[rm.VerifIdentifier(regs[0])]; ok {
							if relay {
								lib.Proxy(regs[0], nopConn{}, lib.VerifQuietLogger())
							}
							return true, regs[0].Covert
						}
						return false, ""
					}
					var admB, admF bool
					var stB, stF string
					if p, msg, site := venum.Guard(func() {
						rm := vfix.Manager(conf1, sel, &vfix.Tester{}, vfix.Transports{Min: true}, nil)
						var sink []lib.VerifDetectorMsg
						rm.VerifCaptureDetector(&sink) // (no redis here: an unanswered publish would be retried with real-time back-off)
						ingest(rm, 3, false)
						rm.OnReload(conf2)
						dialed = dialed[:0]
						admB, stB = ingest(rm, 4, true)
					}); p {
						e.Violation("panic:"+site, msg+" "+id, map[string]any{"case": id})
						continue
					}
					dialedB := append([]string{}, dialed...)
					if p, msg, site := venum.Guard(func() {
						rmF := vfix.Manager(confF, sel, &vfix.Tester{}, vfix.Transports{Min: true}, nil)
						var sink []lib.VerifDetectorMsg
						rmF.VerifCaptureDetector(&sink)
						admF, stF = ingest(rmF, 4, false)
					}); p {
						e.Violation("panic:"+site, msg+" "+id, map[string]any{"case": id})
						continue
					}
					if admB != admF || stB != stF {
						e.Violation("after-reload-differs-from-fresh-start", fmt.Sprintf("%s: after the reload admitted=%v covert=%q; a station started with the second policy admitted=%v covert=%q", id, admB, stB, admF, stF), map[string]any{"case": id})
					}
					if !admB {
						if len(dialedB) > 0 {
							e.Violation("dial-without-admission", id, map[string]any{"case": id})
						}
						continue
					}
					e.Nontrivial(id)
					if len(dialedB) != 1 || dialedB[0] != stB {
						e.Violation("dialed-differs-from-checked", fmt.Sprintf("%s: registration holds %q, relay dialed %q", id, stB, dialedB), map[string]any{"case": id})
						continue
					}
					ap, err := netip.ParseAddrPort(dialedB[0])
					if err != nil {
						e.Violation("dialed-not-literal", fmt.Sprintf("%s: dialed %q: %v", id, dialedB[0], err), map[string]any{"case": id})
						continue
					}
					if bad, why := ref.forbidden(ap.Addr()); bad {
						e.Violation("forbidden-address-dialed:after-reload", fmt.Sprintf("%s: dialed %s which the policy now in force forbids: %s", id, dialedB[0], why), map[string]any{"case": id})
					}
					if matchAny(ref.domains, h) {
						e.Violation("blocklisted-domain-dialed:after-reload", fmt.Sprintf("%s: host %q matches a pattern of the policy now in force", id, h), map[string]any{"case": id})
					}
				}
			}
		}
	}
	return true
}

func matchAny(rs []*regexp.Regexp, s string) bool {
	for _, r := range rs {
		if r.MatchString(s) {
			return true
		}
	}
	return false
}

// canonical reports whether c is the canonical textual form of ap (the form the
// statement calls "a well-formed IP:port"): no zone, port without sign/leading
// zeros, address in the form net.IP.String prints.
func canonical(c string, ap netip.AddrPort) bool {
	return ap.Addr().Zone() == "" && net.JoinHostPort(net.IP(ap.Addr().AsSlice()).String(), fmt.Sprint(ap.Port())) == c
}
