//go:build verif

package main

// C10: every message the station publishes to the detector is fed, field by
// field, to the repository's own src/sessions.rs (compiled with stubs): it must
// be acted on and must encode this registration.

import (
	"bufio"
	"bytes"
	"context"
	"fmt"
	"io"
	"net"
	"net/netip"
	"os"
	"os/exec"
	"strconv"
	"strings"
	"sync"
	"time"

	"github.com/refraction-networking/conjure/pkg/station/lib"
	"github.com/refraction-networking/conjure/pkg/transports/connecting/dtls"
	"github.com/refraction-networking/conjure/pkg/zzverif/venum"
	"github.com/refraction-networking/conjure/pkg/zzverif/vfix"
	"github.com/refraction-networking/conjure/pkg/zzverif/vh"
	"github.com/refraction-networking/conjure/pkg/zzverif/vsched"
	pb "github.com/refraction-networking/conjure/proto"
	"google.golang.org/protobuf/proto"
)

// ---- RESP stand-in over net.Pipe --------------------------------------------

type standIn struct {
	mu       sync.Mutex
	payloads [][]byte
}

func (s *standIn) dial() (net.Conn, error) {
	c, srv := net.Pipe()
	go s.serve(srv)
	return c, nil
}

func (s *standIn) serve(c net.Conn) {
	defer c.Close()
	r := bufio.NewReader(c)
	for {
		line, err := r.ReadString('\n')
		if err != nil {
			return
		}
		if !strings.HasPrefix(line, "*") {
			return
		}
		n, _ := strconv.Atoi(strings.TrimSpace(line[1:]))
		args := make([][]byte, 0, n)
		for i := 0; i < n; i++ {
			l, err := r.ReadString('\n')
			if err != nil || !strings.HasPrefix(l, "$") {
				return
			}
			sz, _ := strconv.Atoi(strings.TrimSpace(l[1:]))
			buf := make([]byte, sz+2)
			if _, err := io.ReadFull(r, buf); err != nil {
				return
			}
			args = append(args, buf[:sz])
		}
		cmd := strings.ToUpper(string(args[0]))
		switch cmd {
		case "PING":
			c.Write([]byte("+PONG\r\n"))
		case "PUBLISH":
			s.mu.Lock()
			s.payloads = append(s.payloads, append([]byte{}, args[2]...))
			s.mu.Unlock()
			c.Write([]byte(":1\r\n"))
		default:
			c.Write([]byte("+OK\r\n"))
		}
	}
}

func (s *standIn) take() [][]byte {
	s.mu.Lock()
	defer s.mu.Unlock()
	p := s.payloads
	s.payloads = nil
	return p
}

// ---- detector process ----------------------------------------------------------

type detector struct {
	cmd *exec.Cmd
	in  io.WriteCloser
	out *bufio.Reader
}

func startDetector(path string) *detector {
	cmd := exec.Command(path)
	in, _ := cmd.StdinPipe()
	out, _ := cmd.StdoutPipe()
	if err := cmd.Start(); err != nil {
		vh.Fatal("detector stand-in: %v", err)
	}
	return &detector{cmd, in, bufio.NewReader(out)}
}

func f(s *string) string {
	if s == nil {
		return "-"
	}
	if *s == "" {
		return "\\e"
	}
	return *s
}

func (d *detector) handle(m *pb.StationToDetector, prefill int) string {
	u := func(p *uint32) string {
		if p == nil {
			return "-"
		}
		return fmt.Sprint(*p)
	}
	op, pr, to := "-", "-", "-"
	if m.Operation != nil {
		op = fmt.Sprint(int32(*m.Operation))
	}
	if m.Proto != nil {
		pr = fmt.Sprint(int32(*m.Proto))
	}
	if m.TimeoutNs != nil {
		to = fmt.Sprint(*m.TimeoutNs)
	}
	line := strings.Join([]string{op, pr, f(m.ClientIp), f(m.PhantomIp), u(m.SrcPort), u(m.DstPort), to, fmt.Sprint(prefill)}, "|")
	if strings.ContainsAny(line, "\n\r") {
		return "UNENCODABLE"
	}
	fmt.Fprintln(d.in, line)
	resp, err := d.out.ReadString('\n')
	if err != nil {
		vh.Fatal("detector stand-in died: %v", err)
	}
	return strings.TrimSpace(resp)
}

func main() {
	a := vh.Parse()
	e := venum.New("announcements", a)
	det := startDetector(os.Getenv("VERIF_DETECTOR"))
	si := &standIn{}
	lib.VerifSetRedis(si.dial)
	sel := vfix.Selector(vfix.SubnetsTOML)
	type tpc struct {
		name   string
		tt     pb.TransportType
		params proto.Message
	}
	tps := []tpc{{"min", pb.TransportType_Min, &pb.GenericTransportParams{RandomizeDstPort: proto.Bool(true)}}, {"obfs4", pb.TransportType_Obfs4, &pb.GenericTransportParams{RandomizeDstPort: proto.Bool(true)}},
		{"prefix0", pb.TransportType_Prefix, &pb.PrefixTransportParams{PrefixId: proto.Int32(0), RandomizeDstPort: proto.Bool(true)}},
		{"prefix1", pb.TransportType_Prefix, &pb.PrefixTransportParams{PrefixId: proto.Int32(1)}},
		{"prefix8", pb.TransportType_Prefix, &pb.PrefixTransportParams{PrefixId: proto.Int32(8), RandomizeDstPort: proto.Bool(true)}},
		{"dtls", pb.TransportType_DTLS, &pb.DTLSTransportParams{RandomizeDstPort: proto.Bool(true)}}}
	registrants := []struct {
		name string
		b    []byte
	}{{"absent", nil}, {"v4", []byte{203, 0, 113, 9}}, {"v4mapped", net.ParseIP("203.0.113.9").To16()}, {"v6", net.ParseIP("2001:db8:99::9")}, {"5bytes", []byte{1, 2, 3, 4, 5}}, {"0bytes", []byte{}}}
	ttls := map[string]map[uint64]bool{"New": {}, "Update": {}}
	overrides := []string{"none", "port", "phantom", "v4-in-v6-slot", "v4mapped-in-v6-slot", "5bytes-in-v6-slot", "17bytes-in-v6-slot"}
	secrets := [][]byte{vfix.Secret(80), vfix.Secret(81)}
	libvers := []uint32{0, 2, 4} // 0: legacy selection; 2: newest client that never randomises its port; 4: current
	if a.Thorough() {
		// thorough: 12 secrets (phantoms in every configured subnet, many ports), every client library version
		// (each selects phantom and port differently), port overrides at the edges of the 16-bit range
		overrides = append(overrides, "port0", "port1", "port65535", "port65536", "portmax")
		secrets = nil
		for i := 0; i < 12; i++ {
			secrets = append(secrets, vfix.Secret(80+i))
		}
		libvers = []uint32{0, 1, 2, 3, 4}
	}
	portOv := map[string]uint32{"port": 8443, "port0": 0, "port1": 1, "port65535": 65535, "port65536": 65536, "portmax": 4294967295}
	for _, tp := range tps {
		for _, v6 := range []bool{false, true} {
			for _, rg := range registrants {
				for _, gen := range []uint32{1, 2} {
					for _, ov := range overrides {
						for si2x, secret := range secrets {
							for _, lv := range libvers {
								si2 := si2x
								if !e.Case() {
									goto done
								}
								id := fmt.Sprintf("transport=%s;v6=%v;registrant=%s;gen=%d;override=%s;secret=%d", tp.name, v6, rg.name, gen, ov, si2)
								if lv != 4 {
									id += fmt.Sprintf(";libver=%d", lv)
								}
								rm := vfix.Manager(nil, sel, &vfix.Tester{}, vfix.AllWrapping, nil)
								_ = rm.AddTransport(pb.TransportType_DTLS, &dtls.Transport{})
								m := vfix.Msg{Secret: secret, Transport: tp.tt, Params: tp.params, V4: !v6, V6: v6, Gen: gen, LibVer: lv, Covert: "93.184.216.34:443", Source: pb.RegistrationSource_API, Addr: rg.b}
								w := m.Wrapper()
								if pv, ok := portOv[ov]; ok && ov != "port" {
									w.RegistrationResponse = &pb.RegistrationResponse{DstPort: proto.Uint32(pv)}
								}
								switch ov {
								case "port":
									w.RegistrationResponse = &pb.RegistrationResponse{DstPort: proto.Uint32(8443)}
								case "v4-in-v6-slot":
									w.RegistrationResponse = &pb.RegistrationResponse{Ipv6Addr: net.ParseIP("198.51.100.7").To4(), DstPort: proto.Uint32(8443)}
								case "v4mapped-in-v6-slot":
									w.RegistrationResponse = &pb.RegistrationResponse{Ipv6Addr: net.ParseIP("198.51.100.7").To16(), DstPort: proto.Uint32(8443)}
								case "5bytes-in-v6-slot":
									// a registrar response whose IPv6 field is not an address at all (the station does not
									// verify the response's signature; the bytes are whatever the forwarding path carried)
									w.RegistrationResponse = &pb.RegistrationResponse{Ipv6Addr: []byte{1, 2, 3, 4, 5}, DstPort: proto.Uint32(8443)}
								case "17bytes-in-v6-slot":
									w.RegistrationResponse = &pb.RegistrationResponse{Ipv6Addr: append(net.ParseIP("2001:db8:1::7").To16(), 9), DstPort: proto.Uint32(8443)}
								case "phantom":
									w.RegistrationResponse = &pb.RegistrationResponse{Ipv4Addr: proto.Uint32(0xC6336407), Ipv6Addr: net.ParseIP("2001:db8:1::7"), DstPort: proto.Uint32(8443)}
								}
								b, _ := proto.Marshal(w)
								regs, err := rm.VerifParseRegMessage(b)
								if err != nil || len(regs) != 1 {
									continue // not admitted by the station: nothing is announced
								}
								reg := regs[0]
								si.take()
								// validated -> New ; activated -> Update (real code paths: AddRegistration, MarkActive)
								rm.AddRegistration(reg)
								rm.MarkActive(reg)
								msgs := si.take()
								if len(msgs) != 2 {
									e.Violation("announcement-count", fmt.Sprintf("%s: %d messages published for validate+activate", id, len(msgs)), map[string]any{"case": id})
									continue
								}
								e.Nontrivial(id)
								for i, raw := range msgs {
									s2d := &pb.StationToDetector{}
									if err := proto.Unmarshal(raw, s2d); err != nil {
										e.Violation("announcement-unparsable", id, map[string]any{"case": id})
										continue
									}
									state := []string{"New", "Update"}[i]
									if s2d.GetOperation().String() != state {
										e.Violation("announcement-operation", fmt.Sprintf("%s: message %d has operation %v", id, i, s2d.GetOperation()), map[string]any{"case": id})
									}
									resp := det.handle(s2d, 0)
									// expected key, computed independently from the registration
									pp, _ := netip.AddrFromSlice(reg.PhantomIp)
									pp = pp.Unmap()
									prefix := "t-"
									if tp.tt == pb.TransportType_DTLS {
										prefix = "u-"
									}
									var key string
									if pp.Is6() {
										key = fmt.Sprintf("%s_-%s-:%d", prefix, pp, reg.PhantomPort)
									} else {
										ca, ok := netip.AddrFromSlice(rg.b)
										if !ok {
											key = "<registrant is not an address>"
										} else {
											key = fmt.Sprintf("%s%s-%s-:%d", prefix, ca.Unmap(), pp, reg.PhantomPort)
										}
									}
									want := fmt.Sprintf("prefill_left=0 new=[%s=%d]", key, s2d.GetTimeoutNs())
									if resp == "prefill_left=0 new=[]" {
										e.Violation("announcement-ignored-by-detector:registrant="+rg.name, fmt.Sprintf("%s: %s message {phantom %q client %q proto %v port %d} is rejected by the detector's session rules", id, state, s2d.GetPhantomIp(), s2d.GetClientIp(), s2d.GetProto(), s2d.GetDstPort()), map[string]any{"case": id})
									} else if resp != want {
										e.Violation("announcement-does-not-match-registration", fmt.Sprintf("%s: detector session %s, expected %s", id, resp, want), map[string]any{"case": id})
									}
									// the registrant address itself must be carried
									if ca, ok := netip.AddrFromSlice(rg.b); ok && s2d.GetClientIp() != "" {
										if got, err := netip.ParseAddr(s2d.GetClientIp()); err != nil || got.Unmap() != ca.Unmap() {
											e.Violation("registrant-address-altered", fmt.Sprintf("%s: announced client %q", id, s2d.GetClientIp()), map[string]any{"case": id})
										}
									}
									ttls[state][s2d.GetTimeoutNs()] = true
									if len(e.Out.Samples) < 4 && i == 0 && si2 == 0 && rg.name == "v4" {
										e.Sample(map[string]any{"case": id, "message": fmt.Sprintf("%v", s2d), "detector": resp})
									}
								}
							}
						}
					}
				}
			}
		}
	}
done:
	// lifetimes: each state must request one lifetime, and it must be the station's own
	// (behaviourally: still tracked 1 s before it, swept 1 s after it)
	for _, state := range []string{"New", "Update"} {
		if len(ttls[state]) != 1 {
			e.Violation("lifetime-not-unique:"+state, fmt.Sprintf("%v", ttls[state]), nil)
			continue
		}
		for ttl := range ttls[state] {
			e.Case()
			vsched.SetManualClock(true)
			rm := vfix.Manager(nil, sel, &vfix.Tester{}, vfix.AllWrapping, nil)
			var anns []lib.VerifDetectorMsg
			rm.VerifCaptureDetector(&anns)
			mm := vfix.Msg{Secret: vfix.Secret(85), Transport: pb.TransportType_Min, V4: true, Gen: 1, LibVer: 4, Covert: "93.184.216.34:443", Source: pb.RegistrationSource_API, Addr: []byte{203, 0, 113, 9}}
			regs, err := rm.VerifParseRegMessage(mm.Bytes())
			if err != nil || len(regs) != 1 {
				vh.Fatal("lifetime probe registration: %v", err)
			}
			rm.AddRegistration(regs[0])
			if state == "Update" {
				rm.MarkActive(regs[0])
			}
			vsched.ManualAdvance(time.Duration(ttl) - time.Second)
			rm.RemoveOldRegistrations()
			before := rm.VerifTotal()
			vsched.ManualAdvance(2 * time.Second)
			rm.RemoveOldRegistrations()
			after := rm.VerifTotal()
			// a connection handler that looked the registration up before the sweep may still hold it and report
			// activity now: the station no longer keeps it, so nothing may be announced for it
			nBefore := len(anns)
			rm.MarkActive(regs[0])
			if after == 0 && len(anns) != nBefore {
				last := anns[len(anns)-1]
				e.Violation("announcement-for-registration-not-kept", fmt.Sprintf("after the %s lifetime the registration was swept; MarkActive with the stale object still announced %s to the detector", state, last.Op), map[string]any{"case": "stale-activate:" + state})
			}
			vsched.SetManualClock(false)
			if before != 1 || after != 0 {
				e.Violation("lifetime-differs-from-station:"+state, fmt.Sprintf("%s announcements request %v; station tracks the registration %d/%d at -1s/+1s around that age", state, time.Duration(ttl), before, after), nil)
			}
			e.Out.Extra["lifetime_"+state] = time.Duration(ttl).String()
		}
	}
	// the clear request sent at shutdown, on a detector that already holds sessions
	{
		e.Case()
		rm := vfix.Manager(nil, sel, &vfix.Tester{}, vfix.AllWrapping, nil)
		si.take()
		rm.VerifCleanup()
		msgs := si.take()
		if len(msgs) != 1 {
			e.Violation("clear-not-sent", fmt.Sprintf("%d messages at shutdown", len(msgs)), nil)
		} else {
			s2d := &pb.StationToDetector{}
			_ = proto.Unmarshal(msgs[0], s2d)
			resp := det.handle(s2d, 3)
			if !bytes.HasPrefix([]byte(resp), []byte("prefill_left=0")) {
				e.Violation("clear-ignored-by-detector", fmt.Sprintf("shutdown clear message {%v}: detector still holds its sessions (%s)", s2d, resp), map[string]any{"case": "clear"})
			}
			e.Nontrivial("clear")
		}
	}
	// the same at the end of a station's life, in main()'s order: the ingest pipeline has run with its own context, that
	// context is cancelled, the pipeline has wound down - and only then Cleanup() speaks to the detector
	{
		e.Case()
		rm := vfix.Manager(nil, sel, &vfix.Tester{}, vfix.AllWrapping, nil)
		ctx, cancel := context.WithCancel(context.Background())
		regChan := make(chan interface{}, 16)
		wg := new(sync.WaitGroup)
		wg.Add(1)
		go rm.HandleRegUpdates(ctx, regChan, wg)
		si.take()
		m := vfix.Msg{Secret: vfix.Secret(21), Transport: pb.TransportType_Min, V4: true, Gen: 1, LibVer: 4, Covert: "93.184.216.34:443", Source: pb.RegistrationSource_API, Addr: []byte{203, 0, 113, 7}}
		regChan <- m.Bytes()
		announced := false
		for i := 0; i < 2000 && !announced; i++ { // synchronisation only (up to 20 s of real time), not an oracle
			time.Sleep(10 * time.Millisecond)
			si.mu.Lock()
			announced = len(si.payloads) > 0
			si.mu.Unlock()
		}
		cancel()
		wg.Wait()
		si.take()
		rm.VerifCleanup()
		msgs := si.take()
		e.Out.Extra["shutdown_order_registration_announced"] = announced
		if len(msgs) != 1 {
			e.Violation("clear-not-sent:after-pipeline-stop", fmt.Sprintf("%d messages reached the detector channel when Cleanup() ran after the ingest pipeline's context was cancelled and the pipeline had returned (main()'s shutdown order)", len(msgs)), map[string]any{"case": "clear-after-stop"})
		} else {
			s2d := &pb.StationToDetector{}
			_ = proto.Unmarshal(msgs[0], s2d)
			resp := det.handle(s2d, 3)
			if !bytes.HasPrefix([]byte(resp), []byte("prefill_left=0")) {
				e.Violation("clear-ignored-by-detector", fmt.Sprintf("shutdown clear message {%v}: detector still holds its sessions (%s)", s2d, resp), map[string]any{"case": "clear-after-stop"})
			}
			e.Nontrivial("clear-after-stop")
		}
	}
	det.in.Close()
	e.Finish()
}
