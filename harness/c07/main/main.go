//go:build verif

package main

// C07: admission decision table. Every combination of the enumerated field
// values x station configurations x liveness verdicts goes through the real
// parseRegMessage + ingestRegistration; a reference predicate written from the
// property statement says, per family, whether the registration must become
// usable, whether a probe is allowed, and whether a share is allowed.

import (
	"bytes"
	"fmt"
	"io"
	"net"
	"net/http"
	"os"
	"strings"
	"syscall"
	"time"

	"github.com/refraction-networking/conjure/pkg/station/lib"
	"github.com/refraction-networking/conjure/pkg/station/liveness"
	"github.com/refraction-networking/conjure/pkg/zzverif/venum"
	"github.com/refraction-networking/conjure/pkg/zzverif/vfix"
	"github.com/refraction-networking/conjure/pkg/zzverif/vh"
	"github.com/refraction-networking/conjure/pkg/zzverif/vhttp"
	"github.com/refraction-networking/conjure/pkg/zzverif/vnet"
	"github.com/refraction-networking/conjure/pkg/zzverif/vsched"
	pb "github.com/refraction-networking/conjure/proto"
	"google.golang.org/protobuf/proto"
	"google.golang.org/protobuf/types/known/anypb"
)

const subnets = `[Networks]
    [Networks.1]
        Generation = 1
        [[Networks.1.WeightedSubnets]]
            Weight = 1
            Subnets = ["192.122.190.0/24", "2001:48a8:687f:1::/64"]
`

type dim struct {
	name string
	vals []string
}

func main() {
	a := vh.Parse()
	vsched.InlineGo = true
	sel := vfix.Selector(subnets)
	thorough := a.Thorough()
	dims := []dim{
		{"secret", []string{"32", "absent", "8"}},
		{"payload", []string{"present", "absent"}},
		{"transport", []string{"min", "prefix", "obfs4-not-enabled", "unknown-99"}},
		{"gen", []string{"known", "unknown"}},
		{"support", []string{"v4", "v6", "both", "none"}},
		{"registrant", []string{"v4", "v4mapped", "v6", "absent", "5bytes"}},
		{"covert", []string{"permitted", "blocklisted", "malformed", "name-blocked", "name-permitted", "name-denied"}},
		{"source", []string{"Detector", "API", "BidirectionalAPI", "DetectorPrescan", "DNS", "Unspecified"}},
		{"prescanned", []string{"F", "T"}},
		{"libver", []string{"4", "0", "2"}},
		{"st4", []string{"on", "off"}},
		{"st6", []string{"on", "off"}},
		{"phblock", []string{"none", "covers"}},
		{"share", []string{"off", "on"}},
		// the (bool, error) pairs the real testers return: no answer within the probe time; a completed connect; a verdict
		// served from the live cache; the phantom answered the SYN with a reset (live, with the dial error as reason)
		{"live", []string{"notlive", "live", "live-cached", "live-refused"}},
		{"override", []string{"none", "same-family", "v4-in-v6-slot", "port-only"}},
	}
	if !thorough {
		// quick: reduced alphabets on three dimensions (full product otherwise)
		dims[0].vals = []string{"32", "absent"}
		dims[6].vals = []string{"permitted", "blocklisted", "name-blocked", "name-denied"}
		dims[9].vals = []string{"4"}
		dims[7].vals = []string{"Detector", "API", "DetectorPrescan", "Unspecified"}
	}
	total := 1
	for _, d := range dims {
		total *= len(d.vals)
	}
	e := venum.New(fmt.Sprintf("admission:shard%d/%d", a.ShardI, a.ShardN), a)
	vnet.ResolveHook = func(network, host string) (*net.IPAddr, error) {
		if strings.HasPrefix(host, "blocked") {
			return &net.IPAddr{IP: net.ParseIP("10.0.0.9")}, nil
		}
		return &net.IPAddr{IP: net.ParseIP("93.184.216.34")}, nil
	}
	var shares [][]byte
	vhttp.PostHook = func(url, ct string, body io.Reader) (*http.Response, error) {
		b, _ := io.ReadAll(body)
		shares = append(shares, b)
		return &http.Response{StatusCode: 200, Body: io.NopCloser(bytes.NewReader(nil))}, nil
	}
	idxs := make([]int, len(dims))
	for n := 0; n < total; n++ {
		// decode mixed radix
		x := n
		for i := len(dims) - 1; i >= 0; i-- {
			idxs[i] = x % len(dims[i].vals)
			x /= len(dims[i].vals)
		}
		if n%a.ShardN != a.ShardI {
			continue
		}
		if !e.Case() {
			break
		}
		v := map[string]string{}
		var idb strings.Builder
		for i, d := range dims {
			v[d.name] = d.vals[idxs[i]]
			fmt.Fprintf(&idb, "%s=%s;", d.name, d.vals[idxs[i]])
		}
		id := idb.String()
		// ---- station
		conf := &lib.RegConfig{EnableIPv4: v["st4"] == "on", EnableIPv6: v["st6"] == "on", EnableShareOverAPI: v["share"] == "on", PreshareEndpoint: "http://peer.invalid/register",
			CovertBlocklistSubnets: []string{"10.0.0.0/8", "127.0.0.0/8"}, CovertBlocklistDomains: []string{"^denied\\.example$"}}
		if v["phblock"] == "covers" {
			conf.PhantomBlocklist = []string{"192.122.190.0/24", "2001:48a8:687f:1::/64"}
		}
		lib.VerifParseBlocklists(conf)
		tester := &vfix.Tester{Verdict: func(addr string, port uint16) (bool, error) {
			switch v["live"] {
			case "live":
				return true, liveness.ErrLiveHost
			case "live-cached":
				return true, liveness.ErrCachedPhantom
			case "live-refused":
				return true, &net.OpError{Op: "dial", Net: "tcp", Addr: &net.TCPAddr{IP: net.ParseIP(addr), Port: int(port)}, Err: os.NewSyscallError("connect", syscall.ECONNREFUSED)}
			}
			return false, fmt.Errorf("%w %v", liveness.NotLive, 750*time.Millisecond)
		}}
		rm := vfix.Manager(conf, sel, tester, vfix.Transports{Min: true, Prefix: true}, nil)
		viaReload := e.Out.Evaluations%8 == 3
		if viaReload {
			// the policy lists of this case reach the station through a configuration reload (SIGHUP) instead of at start-up:
			// it starts with the same settings and empty lists, other clients register every covert of the alphabet (all
			// admitted under the empty lists), then the lists are loaded. Admission of the message under test must be what
			// it is on a station started with the lists (same reference predicate).
			open := &lib.RegConfig{EnableIPv4: conf.EnableIPv4, EnableIPv6: conf.EnableIPv6, EnableShareOverAPI: conf.EnableShareOverAPI, PreshareEndpoint: conf.PreshareEndpoint}
			lib.VerifParseBlocklists(open)
			rm = vfix.Manager(open, sel, &vfix.Tester{}, vfix.Transports{Min: true, Prefix: true}, nil)
			rm.LivenessTester = tester
			var sink []lib.VerifDetectorMsg
			rm.VerifCaptureDetector(&sink) // (replaced by the case's own recorder below)
			for i, cv := range []string{"93.184.216.34:443", "10.0.0.9:443", "blocked.example:443", "fine.example:443", "denied.example:443"} {
				wm := vfix.Msg{Secret: vfix.Secret(20 + i), Transport: pb.TransportType_Min, V4: true, V6: true, Gen: 1, LibVer: 4, Covert: cv, Source: pb.RegistrationSource_API, Addr: []byte{203, 0, 113, byte(60 + i)}, Prescan: true}
				venum.Guard(func() {
					if rs, err := rm.VerifParseRegMessage(wm.Bytes()); err == nil {
						for _, r := range rs {
							if r != nil {
								rm.VerifIngest(r)
							}
						}
					}
				})
			}
			venum.Guard(func() { rm.OnReload(conf) })
			tester.Calls = nil
		}
		var anns []lib.VerifDetectorMsg
		rm.VerifCaptureDetector(&anns)
		shares = shares[:0]
		// ---- message
		w := &pb.C2SWrapper{}
		switch v["secret"] {
		case "32":
			w.SharedSecret = vfix.Secret(5)
		case "8":
			w.SharedSecret = vfix.Secret(5)[:8]
		}
		var tt pb.TransportType
		var params proto.Message
		switch v["transport"] {
		case "min":
			tt = pb.TransportType_Min
		case "prefix":
			tt = pb.TransportType_Prefix
			params = &pb.PrefixTransportParams{PrefixId: proto.Int32(1)}
		case "obfs4-not-enabled":
			tt = pb.TransportType_Obfs4
		default:
			tt = pb.TransportType(99)
		}
		libver := uint32(4)
		fmt.Sscanf(v["libver"], "%d", &libver)
		if tt == pb.TransportType_Prefix {
			libver = 4
		}
		if v["payload"] == "present" {
			c2s := &pb.ClientToStation{ClientLibVersion: &libver, Transport: &tt, DecoyListGeneration: proto.Uint32(1),
				V4Support: proto.Bool(v["support"] == "v4" || v["support"] == "both"), V6Support: proto.Bool(v["support"] == "v6" || v["support"] == "both")}
			if v["gen"] == "unknown" {
				c2s.DecoyListGeneration = proto.Uint32(77)
			}
			switch v["covert"] {
			case "permitted":
				c2s.CovertAddress = proto.String("93.184.216.34:443")
			case "blocklisted":
				c2s.CovertAddress = proto.String("10.0.0.9:443")
			case "malformed":
				c2s.CovertAddress = proto.String("93.184.216.34")
			case "name-blocked":
				c2s.CovertAddress = proto.String("blocked.example:443")
			case "name-permitted":
				c2s.CovertAddress = proto.String("fine.example:443")
			case "name-denied":
				// resolves to a permitted address; refused by the domain pattern
				c2s.CovertAddress = proto.String("denied.example:443")
			}
			if v["prescanned"] == "T" {
				c2s.Flags = &pb.RegistrationFlags{Prescanned: proto.Bool(true)}
			}
			if params != nil {
				c2s.TransportParams, _ = anypb.New(params)
			}
			w.RegistrationPayload = c2s
		}
		switch v["registrant"] {
		case "v4":
			w.RegistrationAddress = []byte{203, 0, 113, 9}
		case "v4mapped":
			w.RegistrationAddress = net.ParseIP("203.0.113.9").To16()
		case "v6":
			w.RegistrationAddress = net.ParseIP("2001:db8:99::9")
		case "5bytes":
			w.RegistrationAddress = []byte{1, 2, 3, 4, 5}
		}
		if v["source"] != "Unspecified" {
			s := pb.RegistrationSource(pb.RegistrationSource_value[v["source"]])
			w.RegistrationSource = &s
		}
		ov4, ov6 := net.IP(nil), net.IP(nil)
		switch v["override"] {
		case "same-family":
			ov4, ov6 = net.ParseIP("198.51.100.7").To4(), net.ParseIP("2001:db8:1::7")
			w.RegistrationResponse = &pb.RegistrationResponse{Ipv4Addr: proto.Uint32(0xC6336407), Ipv6Addr: ov6, DstPort: proto.Uint32(8443)}
		case "v4-in-v6-slot":
			ov6 = net.ParseIP("198.51.100.7").To4()
			w.RegistrationResponse = &pb.RegistrationResponse{Ipv6Addr: ov6, DstPort: proto.Uint32(8443)}
		case "port-only":
			w.RegistrationResponse = &pb.RegistrationResponse{DstPort: proto.Uint32(8443)}
		}
		msg, _ := proto.Marshal(w)
		// ---- non-initial state: every other case runs on a manager that has already ingested another client's
		// (admissible) dual-stack registration and an inadmissible one; admission of the message under test
		// must not depend on that history
		if e.Out.Evaluations%2 == 1 {
			for _, wm := range []vfix.Msg{
				{Secret: vfix.Secret(6), Transport: pb.TransportType_Min, V4: true, V6: true, Gen: 1, LibVer: 4, Covert: "93.184.216.34:443", Source: pb.RegistrationSource_API, Addr: []byte{203, 0, 113, 50}},
				{Secret: vfix.Secret(7), Transport: pb.TransportType_Min, V4: true, Gen: 1, LibVer: 4, Covert: "10.0.0.9:443", Source: pb.RegistrationSource_API, Addr: []byte{203, 0, 113, 51}},
			} {
				venum.Guard(func() {
					if rs, err := rm.VerifParseRegMessage(wm.Bytes()); err == nil {
						for _, r := range rs {
							if r != nil {
								rm.VerifIngest(r)
							}
						}
					}
				})
			}
			anns = anns[:0]
			shares = shares[:0]
			tester.Calls = nil
		}
		// ---- run
		var regs []*lib.DecoyRegistration
		var perr error
		if p, m, site := venum.Guard(func() {
			regs, perr = rm.VerifParseRegMessage(msg)
			if perr == nil {
				for _, r := range regs {
					if r != nil {
						rm.VerifIngest(r)
					}
				}
			}
		}); p {
			e.Violation("panic:"+site, m+" "+id, map[string]any{"case": id})
			continue
		}
		// ---- reference predicate (from the statement), per half of the message
		// complete: payload, shared secret, and a registrant address that (when present) is an address
		complete := v["payload"] == "present" && v["secret"] != "absent" && v["registrant"] != "5bytes"
		transportOK := v["transport"] == "min" || v["transport"] == "prefix"
		genOK := v["gen"] == "known"
		covertOK := v["covert"] == "permitted" || v["covert"] == "name-permitted"
		regIsV4 := v["registrant"] == "v4" || v["registrant"] == "v4mapped"
		want4 := (v["support"] == "v4" || v["support"] == "both") && v["st4"] == "on" && regIsV4
		want6 := (v["support"] == "v6" || v["support"] == "both") && v["st6"] == "on"
		// family of the phantom each half ends up with (a registrar override may put an IPv4
		// phantom into the IPv6 half): an IPv4 phantom needs an IPv4 registrant
		half6IsV4 := ov6 != nil && ov6.To4() != nil
		consistent := !(want6 && half6IsV4 && !regIsV4)
		blocked4 := v["phblock"] == "covers" && ov4 == nil
		blocked6 := v["phblock"] == "covers" && ov6 == nil
		base := complete && transportOK && genOK && covertOK && consistent
		probe4 := v["prescanned"] == "F"
		probe6 := half6IsV4 && v["prescanned"] == "F"
		admit4 := base && want4 && !blocked4 && (!probe4 || v["live"] == "notlive")
		admit6 := base && want6 && !blocked6 && (!probe6 || v["live"] == "notlive")
		phOK := !(want4 && blocked4) && !(want6 && blocked6)
		// ---- observations: halves come back in order [v4 half, v6 half]
		got4, got6 := false, false
		var halves []string
		if want4 {
			halves = append(halves, "4")
		}
		if want6 {
			halves = append(halves, "6")
		}
		for i, r := range regs {
			if r == nil {
				continue
			}
			if _, ok := rm.GetRegistrations(r.PhantomIp)[rm.VerifIdentifier(r)]; ok {
				h := "?"
				if i < len(halves) && len(regs) == len(halves) {
					h = halves[i]
				} else if r.PhantomIp.To4() != nil {
					h = "4"
				} else {
					h = "6"
				}
				if h == "4" {
					got4 = true
				} else {
					got6 = true
				}
			}
		}
		cls := func(k string) string { return k }
		if got4 && !admit4 {
			why := whyNot(complete, transportOK, genOK, covertOK, !blocked4, want4, v, true)
			if !consistent {
				why = "family-inconsistent-with-registrant"
			}
			e.Violation(cls("admitted-but-inadmissible:v4:"+why), id, map[string]any{"case": id})
		}
		if got6 && !admit6 {
			why := whyNot(complete, transportOK, genOK, covertOK, !blocked6, want6, v, probe6)
			if !consistent {
				why = "family-inconsistent-with-registrant"
			}
			e.Violation(cls("admitted-but-inadmissible:v6:"+why), id, map[string]any{"case": id})
		}
		if admit4 && !got4 {
			e.Violation("admissible-but-not-admitted:v4", id, map[string]any{"case": id})
		}
		if admit6 && !got6 {
			e.Violation("admissible-but-not-admitted:v6", id, map[string]any{"case": id})
		}
		nNew, nUpd := 0, 0
		for _, an := range anns {
			if an.Op == "New" {
				nNew++
			} else {
				nUpd++
			}
		}
		wantNew := 0
		if got4 {
			wantNew++
		}
		if got6 {
			wantNew++
		}
		if nNew != wantNew || nUpd != 0 {
			e.Violation("announcement-count", fmt.Sprintf("%s: %d New, %d Update announcements for %d usable registrations", id, nNew, nUpd, wantNew), map[string]any{"case": id})
		}
		if total := rm.VerifTotal(); !got4 && !got6 && false {
			_ = total
		}
		// probes: only for an IPv4 phantom that is not pre-scanned and whose message already passed
		// validation and the covert policy (reading (ii)); never more than one
		nProbeAllowed := 0
		if base && want4 && probe4 && (!blocked4 || v["source"] == "Detector") {
			nProbeAllowed++
		}
		if base && want6 && probe6 && (!blocked6 || v["source"] == "Detector") {
			nProbeAllowed++
		}
		_ = phOK
		if len(tester.Calls) > nProbeAllowed {
			e.Violation("unrequired-probe", fmt.Sprintf("%s: probes %v", id, tester.Calls), map[string]any{"case": id})
		}
		if admit4 && probe4 && len(tester.Calls) < 1 {
			e.Violation("missing-probe", id, map[string]any{"case": id})
		}
		for _, c := range tester.Calls {
			if strings.Contains(c, "2001:") {
				e.Violation("probe-v6", id, map[string]any{"case": id})
			}
		}
		// shares
		shareAllowed := v["source"] == "Detector" && v["share"] == "on" && complete && transportOK && genOK && covertOK
		if len(shares) > 1 || (len(shares) == 1 && !shareAllowed) {
			e.Violation(fmt.Sprintf("share-count:%d:override=%s:support=%s", len(shares), v["override"], v["support"]), fmt.Sprintf("%s: %d shares", id, len(shares)), map[string]any{"case": id})
		}
		if len(shares) == 1 {
			if want4 && probe4 && v["live"] != "notlive" && !want6 {
				e.Violation("shared-live-phantom", id, map[string]any{"case": id})
			}
			sw := &pb.C2SWrapper{}
			if err := proto.Unmarshal(shares[0], sw); err != nil || !sw.GetRegistrationPayload().GetFlags().GetPrescanned() || sw.GetRegistrationSource() != pb.RegistrationSource_DetectorPrescan || !bytes.Equal(sw.GetSharedSecret(), w.SharedSecret) {
				e.Violation("share-body", id, map[string]any{"case": id})
			}
		}
		// the same message delivered again (a client retry, the second copy from another decoy): whatever the first
		// delivery decided stands - nothing further is announced, nothing becomes usable that was not, and a refused
		// registration stays refused
		if e.Out.Evaluations%2 == 0 {
			before := len(anns)
			if p, m, site := venum.Guard(func() {
				if rs, err := rm.VerifParseRegMessage(msg); err == nil {
					for _, r := range rs {
						if r != nil {
							rm.VerifIngest(r)
						}
					}
				}
			}); p {
				e.Violation("panic:"+site, m+" "+id+" (second delivery)", map[string]any{"case": id})
				continue
			}
			if len(anns) != before {
				e.Violation("announced-on-duplicate-delivery", fmt.Sprintf("%s: the second delivery of the same message caused %d further announcement(s) (%s); usable after the first delivery: v4=%v v6=%v", id, len(anns)-before, anns[len(anns)-1].Op, got4, got6), map[string]any{"case": id})
			}
			again4, again6 := false, false
			for _, r := range regs {
				if r == nil {
					continue
				}
				if _, ok := rm.GetRegistrations(r.PhantomIp)[rm.VerifIdentifier(r)]; ok {
					if r.PhantomIp.To4() != nil {
						again4 = true
					} else {
						again6 = true
					}
				}
			}
			if (again4 || again6) && !got4 && !got6 {
				e.Violation("usable-after-duplicate-delivery", fmt.Sprintf("%s: refused at the first delivery, usable after the second (v4=%v v6=%v)", id, again4, again6), map[string]any{"case": id})
			}
		}
		if got4 || got6 {
			e.Nontrivial(id)
		}
		if n%200003 == 0 {
			e.Sample(map[string]any{"case": id, "admitted_v4": got4, "admitted_v6": got6, "probes": len(tester.Calls), "shares": len(shares), "announcements": nNew})
		}
	}
	dm := map[string]int{}
	for _, d := range dims {
		dm[d.name] = len(d.vals)
	}
	e.Out.Extra["dimensions"] = dm
	e.Out.Extra["product"] = total
	e.Finish()
}

func whyNot(complete, transportOK, genOK, covertOK, phOK, want bool, v map[string]string, v4 bool) string {
	switch {
	case !complete:
		if v["secret"] == "absent" {
			return "no-shared-secret"
		}
		return "incomplete"
	case !transportOK:
		return "transport"
	case !genOK:
		return "generation"
	case !covertOK:
		return "covert"
	case !phOK:
		return "phantom-blocklisted:" + v["source"]
	case !want:
		return "family"
	case v4:
		return "live-phantom"
	}
	return "other"
}
