//go:build verif

package regprocessor

// C13 harness: all interleavings of k bidirectional registration requests and
// m subnet reloads on a real RegProcessor whose locks are modelled (vsync).

import (
	"encoding/binary"
	"fmt"
	"net"
	"os"
	"path/filepath"
	"strings"
	"sync"
	"sync/atomic"
	"time"

	zmq "github.com/pebbe/zmq4"
	"github.com/refraction-networking/conjure/pkg/core"
	"github.com/refraction-networking/conjure/pkg/metrics"
	"github.com/refraction-networking/conjure/pkg/phantoms"
	"github.com/refraction-networking/conjure/pkg/transports/wrapping/min"
	"github.com/refraction-networking/conjure/pkg/zzverif/vh"
	"github.com/refraction-networking/conjure/pkg/zzverif/vsched"
	"github.com/refraction-networking/conjure/pkg/zzverif/vsync"
	pb "github.com/refraction-networking/conjure/proto"
	log "github.com/sirupsen/logrus"
	"google.golang.org/protobuf/proto"
	"google.golang.org/protobuf/types/known/anypb"
)

type c13Sender struct{ msgs [][]byte }

func (s *c13Sender) SendBytes(b []byte, _ zmq.Flag) (int, error) {
	s.msgs = append(s.msgs, b)
	return len(b), nil
}
func (s *c13Sender) Close() error { return nil }

const c13TomlA = `[Networks]
    [Networks.1]
        Generation = 1
        [[Networks.1.WeightedSubnets]]
            Weight = 1
            RandomizeDstPort = true
            Subnets = ["10.1.0.0/16", "2001:db8:a::/48"]
`
const c13TomlB = `[Networks]
    [Networks.1]
        Generation = 1
        [[Networks.1.WeightedSubnets]]
            Weight = 1
            RandomizeDstPort = true
            Subnets = ["10.2.0.0/16", "2001:db8:b::/48"]
`

// set C has no IPv6 subnet: IPv6 selection fails while it is in force (the error path of a request)
const c13TomlC = `[Networks]
    [Networks.1]
        Generation = 1
        [[Networks.1.WeightedSubnets]]
            Weight = 1
            RandomizeDstPort = true
            Subnets = ["10.3.0.0/16"]
`

var (
	c13NetC4 = mustCIDR("10.3.0.0/16")
	c13NetA4 = mustCIDR("10.1.0.0/16")
	c13NetA6 = mustCIDR("2001:db8:a::/48")
	c13NetB4 = mustCIDR("10.2.0.0/16")
	c13NetB6 = mustCIDR("2001:db8:b::/48")
)

func mustCIDR(s string) *net.IPNet {
	_, n, err := net.ParseCIDR(s)
	if err != nil {
		panic(err)
	}
	return n
}

type c13Req struct {
	kind string // "4", "6", "d"
	resp *pb.RegistrationResponse
	err  error
	ret  bool
}

func c13Wrapper(kind string, i int) *pb.C2SWrapper {
	secret := make([]byte, 32)
	for j := range secret {
		secret[j] = byte(17*i + j + 1)
	}
	t := pb.TransportType_Min
	covert := "1.2.3.4:1234"
	// kinds "u" (a transport the registrar does not know) and "p" (transport parameters that do not parse) are
	// dual-stack requests that fail after both selections: error paths that return with the read lock taken
	// kind "s" is a dual-stack request whose first phantom selection takes three (virtual) seconds - a registration
	// that holds the selector for a long time, e.g. a station under memory pressure
	v4 := kind == "4" || kind == "d" || kind == "u" || kind == "p" || kind == "s"
	v6 := kind == "6" || kind == "d" || kind == "u" || kind == "p" || kind == "s"
	var params *anypb.Any
	switch kind {
	case "u":
		t = pb.TransportType_Obfs4
	case "p":
		params = &anypb.Any{TypeUrl: "type.googleapis.com/proto.GenericTransportParams", Value: []byte{0xff, 0xff, 0xff}}
	}
	return &pb.C2SWrapper{
		SharedSecret: secret,
		RegistrationPayload: &pb.ClientToStation{
			Transport:           &t,
			DecoyListGeneration: proto.Uint32(1),
			CovertAddress:       &covert,
			V4Support:           &v4,
			V6Support:           &v6,
			ClientLibVersion:    proto.Uint32(core.CurrentClientLibraryVersion()),
			TransportParams:     params,
		},
	}
}

func which(resp *pb.RegistrationResponse) (string, string) {
	s4, s6 := "-", "-"
	if resp.Ipv4Addr != nil {
		ip := make(net.IP, 4)
		binary.BigEndian.PutUint32(ip, resp.GetIpv4Addr())
		switch {
		case c13NetA4.Contains(ip):
			s4 = "A"
		case c13NetB4.Contains(ip):
			s4 = "B"
		case c13NetC4.Contains(ip):
			s4 = "C"
		default:
			s4 = "?" + ip.String()
		}
	}
	if len(resp.Ipv6Addr) > 0 {
		ip := net.IP(resp.Ipv6Addr)
		switch {
		case c13NetA6.Contains(ip):
			s6 = "A"
		case c13NetB6.Contains(ip):
			s6 = "B"
		default:
			s6 = "?" + ip.String()
		}
	}
	return s4, s6
}

// c13SlowSelector is the initial selector; a request of kind "s" spends three virtual seconds in its first selection
// (inside the registrar's read-locked section).
type c13SlowSelector struct {
	inner ipSelector
	tid   map[int]bool
	every bool // load scenarios: every IPv4 selection takes three virtual seconds
}

func (s *c13SlowSelector) Select(seed []byte, gen uint, libver uint, v6 bool) (*phantoms.PhantomIP, error) {
	if s.every {
		if !v6 {
			vsched.Sleep(3 * time.Second)
		}
	} else if t := vsched.ThreadID(); s.tid[t] {
		delete(s.tid, t)
		vsched.Sleep(3 * time.Second)
	}
	return s.inner.Select(seed, gen, libver, v6)
}

// VerifC13Main is the worker entry point.
func VerifC13Main() {
	a := vh.Parse()
	log.SetLevel(log.PanicLevel)
	dir, err := os.MkdirTemp(os.Getenv("VERIF_WORK"), "c13-")
	if err != nil {
		vh.Fatal("tmp: %v", err)
	}
	defer os.RemoveAll(dir)
	fa, fb := filepath.Join(dir, "a.toml"), filepath.Join(dir, "b.toml")
	_ = os.WriteFile(fa, []byte(c13TomlA), 0o644)
	_ = os.WriteFile(fb, []byte(c13TomlB), 0o644)
	fc := filepath.Join(dir, "c.toml")
	_ = os.WriteFile(fc, []byte(c13TomlC), 0o644)
	met := metrics.NewMetrics(log.NewEntry(log.StandardLogger()), 1000*time.Hour)

	// scenario: "<kinds>/<m>" e.g. "d/1", "d,4/2"
	name := a.Scenario
	if a.Replay != "" {
		name = vh.LoadReplay(a.Replay)["scenario"].(string)
	}
	if name == "race" {
		c13Race(a, fa, fb, met)
		return
	}
	if strings.HasPrefix(name, "load:") {
		c13Load(a, name, fa, fb, met)
		return
	}
	// "e:<kinds>/<m>": the registrar starts on set C (IPv4 only), so requests that need an IPv6 phantom take the
	// error path until a reload installs set A; reloads alternate A, C
	errPath := strings.HasPrefix(name, "e:")
	first, second := fa, fb
	if errPath {
		first, second = fc, fa
	}
	parts := strings.Split(strings.TrimPrefix(name, "e:"), "/")
	if len(parts) != 2 {
		vh.Fatal("bad scenario %q", name)
	}
	kinds := strings.Split(parts[0], ",")
	var m int
	fmt.Sscanf(parts[1], "%d", &m)
	// "<m>b": the first of the m reloads finds a subnet file that does not load (half-written at SIGHUP time): it
	// must return its error and leave the registrar answering; "<m>g": the same with a missing file
	broken := ""
	if strings.HasSuffix(parts[1], "b") {
		broken = filepath.Join(dir, "broken.toml")
		_ = os.WriteFile(broken, []byte("[Networks\n  [Networks.1\n"), 0o644)
	} else if strings.HasSuffix(parts[1], "g") {
		broken = filepath.Join(dir, "gone.toml")
	}

	mk := func() *vsched.Scenario {
		os.Setenv("PHANTOM_SUBNET_LOCATION", first)
		sel, err := phantoms.GetPhantomSubnetSelector()
		if err != nil {
			vh.Fatal("selector: %v", err)
		}
		snd := &c13Sender{}
		slow := &c13SlowSelector{inner: sel, tid: map[int]bool{}}
		p := &RegProcessor{ipSelector: slow, sock: snd, metrics: met, authenticated: false, regOverrides: nil}
		_ = p.AddTransport(pb.TransportType_Min, min.Transport{})
		reqs := make([]*c13Req, len(kinds))
		for i, k := range kinds {
			reqs[i] = &c13Req{kind: k}
		}
		reloadRet := make([]bool, m)
		reloadErr := make([]error, m)
		var wg vsync.WaitGroup
		body := func() {
			for i := range reqs {
				i := i
				wg.Add(1)
				vsched.GoNamed(fmt.Sprintf("req%d:%s", i, reqs[i].kind), func() {
					defer wg.Done()
					r := reqs[i]
					if r.kind == "s" {
						slow.tid[vsched.ThreadID()] = true
					}
					r.resp, r.err = p.RegisterBidirectional(c13Wrapper(r.kind, i), pb.RegistrationSource_BidirectionalAPI, []byte{192, 0, 2, 1})
					r.ret = true
				})
			}
			for j := 0; j < m; j++ {
				j := j
				wg.Add(1)
				vsched.GoNamed(fmt.Sprintf("reload%d", j), func() {
					defer wg.Done()
					f := second
					if j%2 == 1 {
						f = first
					}
					if j == 0 && broken != "" {
						f = broken
					}
					os.Setenv("PHANTOM_SUBNET_LOCATION", f)
					reloadErr[j] = p.ReloadSubnets()
					reloadRet[j] = true
				})
			}
			wg.Wait()
		}
		outcome := func(x *vsched.Exec) string {
			var sb strings.Builder
			sb.WriteString(x.Verdict)
			for _, r := range reqs {
				if r.resp != nil {
					s4, s6 := which(r.resp)
					sb.WriteString(" " + s4 + s6)
				} else {
					sb.WriteString(" nil")
				}
			}
			return sb.String()
		}
		check := func(x *vsched.Exec) *vsched.Violation {
			if x.Verdict == vsched.VDeadlock {
				return &vsched.Violation{Key: "deadlock", What: "registrar blocked: " + x.Detail}
			}
			if x.Verdict != vsched.VOK {
				return &vsched.Violation{Key: x.Verdict, What: x.Detail}
			}
			okReqs := 0
			for i, r := range reqs {
				if r.ret && r.err != nil && errPath && r.kind != "4" {
					continue // set C cannot serve an IPv6 phantom: an error answer is the complete outcome under that set
				}
				if r.kind == "u" || r.kind == "p" {
					if !r.ret || r.err == nil {
						return &vsched.Violation{Key: "invalid-request-answered", What: fmt.Sprintf("request %d (%s): ret=%v err=%v", i, r.kind, r.ret, r.err)}
					}
					continue
				}
				if !r.ret || r.err != nil || r.resp == nil {
					return &vsched.Violation{Key: "request-failed", What: fmt.Sprintf("request %d (%s) did not complete: ret=%v err=%v", i, r.kind, r.ret, r.err)}
				}
				okReqs++
				s4, s6 := which(r.resp)
				if strings.HasPrefix(s4, "?") || strings.HasPrefix(s6, "?") {
					return &vsched.Violation{Key: "address-outside-both-sets", What: fmt.Sprintf("request %d got %s %s", i, s4, s6)}
				}
				if (r.kind == "d" || r.kind == "s") && s4 != s6 {
					return &vsched.Violation{Key: "mixed-subnet-sets", What: fmt.Sprintf("request %d: v4 phantom from set %s but v6 phantom from set %s", i, s4, s6)}
				}
				if (r.kind != "6" && s4 == "-") || (r.kind != "4" && s6 == "-") {
					return &vsched.Violation{Key: "missing-address", What: fmt.Sprintf("request %d (%s) got %s %s", i, r.kind, s4, s6)}
				}
			}
			for j := range reloadRet {
				if j == 0 && broken != "" {
					if !reloadRet[j] || reloadErr[j] == nil {
						return &vsched.Violation{Key: "broken-reload-outcome", What: fmt.Sprintf("reload of an unloadable file: ret=%v err=%v", reloadRet[j], reloadErr[j])}
					}
					continue
				}
				if !reloadRet[j] || reloadErr[j] != nil {
					return &vsched.Violation{Key: "reload-failed", What: fmt.Sprintf("reload %d: ret=%v err=%v", j, reloadRet[j], reloadErr[j])}
				}
			}
			if len(snd.msgs) != okReqs {
				return &vsched.Violation{Key: "forward-count", What: fmt.Sprintf("%d requests answered but %d messages forwarded", okReqs, len(snd.msgs))}
			}
			return nil
		}
		return &vsched.Scenario{Body: body, Check: check, Outcome: outcome,
			Setup: func(x *vsched.Exec) {
				x.StateKey = func() uint64 {
					h := p.selectorMutex.VerifState()<<1 | p.zmqMutex.VerifState() | uint64(len(snd.msgs))<<48
					if p.ipSelector != ipSelector(slow) {
						h |= 1 << 40
					}
					h ^= uint64(vsched.ClockNanos()) * 0x9e3779b97f4a7c15
					return h
				}
			}}
	}

	if a.Replay != "" {
		rp := vh.LoadReplay(a.Replay)
		x, v := vsched.RunOnce(vh.Ints(rp["choices"]), 0, mk)
		for _, l := range x.Trace() {
			fmt.Println(l)
		}
		fmt.Println("verdict:", x.Verdict, x.Detail)
		o := &vh.Out{Name: name, Evaluations: 1, Exhaustive: false}
		if v != nil {
			o.Violations = append(o.Violations, &vh.Violation{Key: v.Key, What: v.What, Replay: map[string]any{"scenario": name, "choices": v.Choices, "trace": v.Trace}})
		}
		vh.Emit(o)
		return
	}
	vh.SelfCheck(name, mk)
	res := vsched.Explore(vsched.Config{Name: name, PreemptBound: -1, EnvBound: -1, Deadline: a.Deadline(), Prune: true}, mk)
	vh.Emit(vh.FromSched(res))
}

// c13Load: "the reloads complete as well" under sustained load, in bounded form. Two (three) clients register back to
// back, each request holding the selector for three virtual seconds, staggered so that some request holds it at every
// instant of the run; a reload is called one second in. Whatever the lock's policy, a reload only has to wait for the
// requests that hold the selector when it is called - three seconds at most here; a reload that is still waiting after
// that is being overtaken by requests that arrived after it (with clients that never pause it would never return).
// Virtual time is discrete-event (it advances only when every thread is blocked), so the bound is exact, not a
// wall-clock guess; all orders of simultaneous events are explored.
func c13Load(a *vh.Args, name, fa, fb string, met *metrics.Metrics) {
	var clients, perClient int
	if _, err := fmt.Sscanf(strings.TrimPrefix(name, "load:"), "%dx%d", &clients, &perClient); err != nil {
		vh.Fatal("bad scenario %q", name)
	}
	const hold = 3 * time.Second
	mk := func() *vsched.Scenario {
		os.Setenv("PHANTOM_SUBNET_LOCATION", fa)
		sel, err := phantoms.GetPhantomSubnetSelector()
		if err != nil {
			vh.Fatal("selector: %v", err)
		}
		snd := &c13Sender{}
		slow := &c13SlowSelector{inner: sel, every: true}
		p := &RegProcessor{ipSelector: slow, sock: snd, metrics: met, authenticated: false, regOverrides: nil}
		_ = p.AddTransport(pb.TransportType_Min, min.Transport{})
		var waited time.Duration = -1
		var reloadErr error
		failed := ""
		answered := 0
		var wg vsync.WaitGroup
		body := func() {
			for c := 0; c < clients; c++ {
				c := c
				wg.Add(1)
				vsched.GoNamed(fmt.Sprintf("client%d", c), func() {
					defer wg.Done()
					vsched.Sleep(time.Duration(c)*hold/time.Duration(clients) + time.Millisecond)
					for i := 0; i < perClient; i++ {
						resp, err := p.RegisterBidirectional(c13Wrapper("4", c*16+i), pb.RegistrationSource_BidirectionalAPI, []byte{192, 0, 2, 1})
						if err != nil || resp == nil {
							failed = fmt.Sprintf("client %d request %d: %v", c, i, err)
							return
						}
						answered++
					}
				})
			}
			wg.Add(1)
			vsched.GoNamed("reload", func() {
				defer wg.Done()
				vsched.Sleep(time.Second)
				os.Setenv("PHANTOM_SUBNET_LOCATION", fb)
				t0 := vsched.ClockNanos()
				reloadErr = p.ReloadSubnets()
				waited = time.Duration(vsched.ClockNanos() - t0)
			})
			wg.Wait()
		}
		check := func(x *vsched.Exec) *vsched.Violation {
			if x.Verdict == vsched.VDeadlock {
				return &vsched.Violation{Key: "deadlock", What: "registrar blocked: " + x.Detail}
			}
			if x.Verdict != vsched.VOK {
				return &vsched.Violation{Key: x.Verdict, What: x.Detail}
			}
			if failed != "" {
				return &vsched.Violation{Key: "request-failed", What: failed}
			}
			if reloadErr != nil || waited < 0 {
				return &vsched.Violation{Key: "reload-failed", What: fmt.Sprintf("reload: err=%v returned=%v", reloadErr, waited >= 0)}
			}
			if waited > hold {
				return &vsched.Violation{Key: "reload-overtaken-under-load", What: fmt.Sprintf("the reload returned %v after it was called; the requests holding the selector at that moment release it within %v; %d requests were answered in the run", waited, hold, answered)}
			}
			return nil
		}
		return &vsched.Scenario{Body: body, Check: check, Outcome: func(x *vsched.Exec) string {
			return fmt.Sprintf("%s waited=%v answered=%d", x.Verdict, waited, answered)
		}}
	}
	if a.Replay != "" {
		rp := vh.LoadReplay(a.Replay)
		x, v := vsched.RunOnce(vh.Ints(rp["choices"]), 0, mk)
		for _, l := range x.Trace() {
			fmt.Println(l)
		}
		o := &vh.Out{Name: name, Evaluations: 1, Exhaustive: false}
		if v != nil {
			o.Violations = append(o.Violations, &vh.Violation{Key: v.Key, What: v.What, Replay: map[string]any{"scenario": name, "choices": v.Choices}})
		}
		vh.Emit(o)
		return
	}
	vh.SelfCheck(name, mk)
	res := vsched.Explore(vsched.Config{Name: name, PreemptBound: -1, EnvBound: -1, Deadline: a.Deadline(), MaxPoints: 20000}, mk)
	vh.Emit(vh.FromSched(res))
}

// c13Race: free-running companion for the race detector (regprocessor.go not rewritten): four request
// goroutines (dual-stack, v4, v6, dual-stack) x 5 requests next to two reload goroutines x 3 reloads.
func c13Race(a *vh.Args, fa, fb string, met *metrics.Metrics) {
	t0 := time.Now()
	var n int64
	for time.Since(t0) < a.Budget/4 {
		os.Setenv("PHANTOM_SUBNET_LOCATION", fa)
		sel, err := phantoms.GetPhantomSubnetSelector()
		if err != nil {
			vh.Fatal("selector: %v", err)
		}
		p := &RegProcessor{ipSelector: sel, sock: &c13Sender{}, metrics: met, authenticated: false, regOverrides: nil}
		_ = p.AddTransport(pb.TransportType_Min, min.Transport{})
		var wg sync.WaitGroup
		for i, k := range []string{"d", "4", "6", "d"} {
			i, k := i, k
			wg.Add(1)
			go func() {
				defer wg.Done()
				for r := 0; r < 5; r++ {
					_, _ = p.RegisterBidirectional(c13Wrapper(k, i*8+r), pb.RegistrationSource_BidirectionalAPI, []byte{192, 0, 2, 1})
					atomic.AddInt64(&n, 1)
				}
			}()
		}
		for j := 0; j < 2; j++ {
			wg.Add(1)
			go func() {
				defer wg.Done()
				for r := 0; r < 3; r++ {
					_ = p.ReloadSubnets()
					atomic.AddInt64(&n, 1)
				}
			}()
		}
		wg.Wait()
	}
	vh.Emit(&vh.Out{Name: "race", Evaluations: n, Traces: n, Exhaustive: false, Cap: "free-running sample of schedules under the race detector (adjunct)", WallS: time.Since(t0).Seconds(),
		Samples: []any{map[string]any{"iteration": "4 goroutines x 5 RegisterBidirectional (d,4,6,d) + 2 goroutines x 3 ReloadSubnets"}}})
}
