//go:build verif

package lib

// Accessors for the verification harnesses (mounted by overlay only).

import (
	"context"
	"fmt"
	"io"
	golog "log"
	"net"
	"sort"
	"strings"
	"sync/atomic"
	"time"

	"github.com/BurntSushi/toml"
	"github.com/go-redis/redis/v8"
	"github.com/refraction-networking/conjure/pkg/phantoms"
	"github.com/refraction-networking/conjure/pkg/station/geoip"
	"github.com/refraction-networking/conjure/pkg/station/liveness"
	"github.com/refraction-networking/conjure/pkg/station/log"
	pb "github.com/refraction-networking/conjure/proto"
)

// VerifQuietLogger returns a logger that discards everything.
func VerifQuietLogger() *log.Logger {
	l := log.New(io.Discard, "", golog.Ldate)
	return l
}

// VerifNewManager builds a RegistrationManager the way NewRegistrationManager
// does, but from already-loaded parts (no env / file access per instance).
func VerifNewManager(conf *RegConfig, sel *phantoms.PhantomIPSelector, lt liveness.Tester, logw io.Writer) *RegistrationManager {
	if logw == nil {
		logw = io.Discard
	}
	geo, _ := geoip.New(conf.DBConfig)
	return &RegistrationManager{
		RegConfig:         conf,
		RegistrationStats: newRegistrationStats(),
		Logger:            log.New(logw, "[REG] ", golog.Ldate|golog.Lmicroseconds),
		registeredDecoys:  NewRegisteredDecoys(),
		PhantomSelector:   sel,
		LivenessTester:    lt,
		GeoIP:             geo,
		connectingStats:   conf.ConnectingStats,
	}
}

// VerifDetectorMsg is one announcement captured instead of being published.
type VerifDetectorMsg struct {
	Op    string
	Reg   *DecoyRegistration
	Valid bool
	// Life identifies the lifetime a "New" announcement belongs to: the timeout record that tracks this registration's
	// (secret, phantom, transport) at the moment of the announcement (nil: none). The announce hook runs inside the
	// locked validate step, so the map read is safe.
	Life any
}

// VerifCaptureDetector replaces the two detector closures by recorders.
func (rm *RegistrationManager) VerifCaptureDetector(sink *[]VerifDetectorMsg) {
	rm.registeredDecoys.registerForDetector = func(d *DecoyRegistration) {
		var life any
		if d != nil && d.PhantomIp != nil {
			// (found by its fields, not through the registry's own key function: that helper is the kind of thing a
			// refactor renames, and an accessor that stops compiling turns a verdict into a harness error)
			ident := ""
			if tr, ok := rm.registeredDecoys.transports[d.Transport]; ok {
				ident = tr.GetIdentifier(d)
			}
			for _, t := range rm.registeredDecoys.decoysTimeouts {
				if t.regID == d.IDString() && t.decoy == d.PhantomIp.String() && t.identifier == ident {
					life = t
				}
			}
		}
		*sink = append(*sink, VerifDetectorMsg{"New", d, d.Valid, life})
	}
	rm.registeredDecoys.updateInDetector = func(d *DecoyRegistration) {
		*sink = append(*sink, VerifDetectorMsg{"Update", d, d.Valid, nil})
	}
}

// VerifSetRedis points the package's redis client at addr (a stand-in) and
// prevents the default initialisation.
func VerifSetRedis(dial func() (net.Conn, error)) {
	once.Do(func() {})
	client = redis.NewClient(&redis.Options{Addr: "stand-in:6379", PoolSize: 2, MaxRetries: -1,
		Dialer: func(ctx context.Context, network, addr string) (net.Conn, error) { return dial() }})
}

// VerifCleanup calls Cleanup (the shutdown clear request).
func (rm *RegistrationManager) VerifCleanup() { rm.Cleanup() }

// VerifTimeoutCount returns the number of timeout records.
func (rm *RegistrationManager) VerifTimeoutCount() int {
	return len(rm.registeredDecoys.decoysTimeouts)
}

// VerifTotal returns the number of tracked registrations.
func (rm *RegistrationManager) VerifTotal() int { return rm.registeredDecoys.totalRegistrations() }

// VerifDump renders the tracked state canonically: per phantom, per identifier
// (hex), validity and regCount; and the timeout records with status.
func (rm *RegistrationManager) VerifDump(withCounts bool) string {
	r := rm.registeredDecoys
	var lines []string
	for ph, m := range r.decoys {
		for id, d := range m {
			s := fmt.Sprintf("D %s %x valid=%v", ph, id[:4], d.Valid)
			if withCounts {
				s += fmt.Sprintf(" n=%d", d.regCount)
			}
			lines = append(lines, s)
		}
	}
	for k, t := range r.decoysTimeouts {
		_ = k
		lines = append(lines, fmt.Sprintf("T %s %x used=%v", t.decoy, t.identifier[:4], t.status == regStatusUsed))
	}
	sort.Strings(lines)
	return strings.Join(lines, "\n")
}

// VerifIsUsed reports whether the timeout record the station consults for d says "used".
func (rm *RegistrationManager) VerifIsUsed(d *DecoyRegistration) (used, found bool) {
	r := rm.registeredDecoys
	for _, t := range r.decoysTimeouts {
		tr, ok := r.transports[d.Transport]
		if !ok {
			return false, false
		}
		if t.decoy == d.PhantomIp.String() && t.identifier == tr.GetIdentifier(d) {
			return t.status == regStatusUsed, true
		}
	}
	return false, false
}

// VerifRegCount returns regCount.
func (d *DecoyRegistration) VerifRegCount() int32 { return d.regCount }

// VerifRegAddr returns the registrant address bytes.
func (d *DecoyRegistration) VerifRegAddr() net.IP { return d.registrationAddr }

// VerifParseRegMessage exposes parseRegMessage.
func (rm *RegistrationManager) VerifParseRegMessage(b []byte) ([]*DecoyRegistration, error) {
	return rm.parseRegMessage(b)
}

// VerifIngest exposes ingestRegistration.
func (rm *RegistrationManager) VerifIngest(d *DecoyRegistration) { rm.ingestRegistration(d) }

// VerifIdentifier returns the transport identifier of d.
func (rm *RegistrationManager) VerifIdentifier(d *DecoyRegistration) string {
	t, ok := rm.registeredDecoys.transports[d.Transport]
	if !ok {
		return ""
	}
	return t.GetIdentifier(d)
}

// VerifSource is a helper to take the address of a source constant.
func VerifSource(s pb.RegistrationSource) *pb.RegistrationSource { return &s }

// VerifDecodeConfig decodes a station TOML file into c without post-processing.
func VerifDecodeConfig(path string, c *Config) error {
	_, err := toml.DecodeFile(path, c)
	return err
}

// VerifParseBlocklists calls ParseBlocklists whatever its signature returns.
func VerifParseBlocklists(c *RegConfig) (err error) {
	var f any = c.ParseBlocklists
	switch g := f.(type) {
	case func():
		g()
	case func() error:
		err = g()
	}
	return err
}

// VerifSessionsProxying returns the open-session gauge.
func VerifSessionsProxying() int64 { return atomic.LoadInt64(&getProxyStats().sessionsProxying) }

// VerifLogger returns a station logger writing to w at the given level.
func VerifLogger(w io.Writer, lvl log.Level) *log.Logger {
	l := log.New(w, "", 0)
	l.SetLevel(lvl)
	return l
}

// VerifIngestCounters returns (messages received by the distributor, messages dropped).
func (rm *RegistrationManager) VerifIngestCounters() (int64, int64, int64, int64) {
	return atomic.LoadInt64(&rm.totalIngestMessages), atomic.LoadInt64(&rm.totalDroppedMessages), atomic.LoadInt64(&rm.newIngestMessages), atomic.LoadInt64(&rm.newDroppedMessages)
}

// VerifDumpFull renders the tracked state with counts, coverts and used flags.
func (rm *RegistrationManager) VerifDumpFull() string {
	r := rm.registeredDecoys
	var lines []string
	for ph, m := range r.decoys {
		for id, d := range m {
			lines = append(lines, fmt.Sprintf("D %s %x valid=%v n=%d covert=%s params=%v", ph, id[:4], d.Valid, d.regCount, d.Covert, d.transportParams))
		}
	}
	for _, t := range r.decoysTimeouts {
		lines = append(lines, fmt.Sprintf("T %s %x used=%v", t.decoy, t.identifier[:4], t.status == regStatusUsed))
	}
	sort.Strings(lines)
	return strings.Join(lines, "; ")
}

// VerifHandleRegUpdates runs the real pipeline.
func (rm *RegistrationManager) VerifSetWorkers(n int) { rm.IngestWorkerCount = n }

// VerifCountDetector replaces the two detector closures by atomic counters (safe to use from
// free-running goroutines; touches nothing of the registration).
func (rm *RegistrationManager) VerifCountDetector(news, updates *int64) {
	rm.registeredDecoys.registerForDetector = func(d *DecoyRegistration) { atomic.AddInt64(news, 1) }
	rm.registeredDecoys.updateInDetector = func(d *DecoyRegistration) { atomic.AddInt64(updates, 1) }
}

// VerifTotalLocked is what the statistics printer calls.
func (rm *RegistrationManager) VerifTotalLocked() int {
	return rm.registeredDecoys.TotalRegistrations()
}

// VerifDumpAges renders the age (whole seconds at the given instant) of every timeout record: part of the
// implementation state that decides future sweeps, so BFS state keys must see it.
func (rm *RegistrationManager) VerifDumpAges(now time.Time) string {
	r := rm.registeredDecoys
	var lines []string
	for _, t := range r.decoysTimeouts {
		lines = append(lines, fmt.Sprintf("A %s %x age=%d", t.decoy, t.identifier[:4], int64(now.Sub(t.registrationTime)/time.Second)))
	}
	sort.Strings(lines)
	return strings.Join(lines, "\n")
}

// VerifHandleConnectingTpReg is what the ingest pipeline does with a freshly validated registration of a connecting
// transport (it starts the goroutine that dials the client).
func (rm *RegistrationManager) VerifHandleConnectingTpReg(reg *DecoyRegistration) {
	handleConnectingTpReg(rm, reg, rm.Logger)
}

// VerifSetConnectingStats installs the statistics sink of the connecting transports (the application passes its
// connection manager).
func (rm *RegistrationManager) VerifSetConnectingStats(s ConnectingTpStats) { rm.connectingStats = s }
