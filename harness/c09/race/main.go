// C09 race companion: the same operations as the scheduled scenarios, free-running on real
// goroutines and real sync primitives, built with -race. A cooperative scheduler's hand-offs
// are happens-before edges, so unsynchronised accesses are only visible here. This pass
// samples schedules (it is not the deciding step of C09); every report of the race detector
// is a violation of the clause "shared state is never accessed without synchronisation".
package main

import (
	"context"
	"fmt"
	"sync"
	"sync/atomic"
	"time"

	"github.com/refraction-networking/conjure/pkg/station/lib"
	"github.com/refraction-networking/conjure/pkg/station/log"
	"github.com/refraction-networking/conjure/pkg/zzverif/vfix"
	"github.com/refraction-networking/conjure/pkg/zzverif/vh"
	pb "github.com/refraction-networking/conjure/proto"
)

type logT = log.Logger

type tester struct{ calls int64 }

func (t *tester) PhantomIsLive(addr string, port uint16) (bool, error) {
	atomic.AddInt64(&t.calls, 1)
	return false, fmt.Errorf("not live")
}
func (t *tester) PrintAndReset(*logT) {}
func (t *tester) PrintStats(*logT)    {}
func (t *tester) Reset()              {}

var sel = vfix.Selector(vfix.SubnetsTOML)

func conf(extra ...string) *lib.RegConfig {
	c := &lib.RegConfig{EnableIPv4: true, EnableIPv6: true, CovertBlocklistSubnets: append([]string{"10.0.0.0/8", "127.0.0.0/8"}, extra...)}
	lib.VerifParseBlocklists(c)
	return c
}

func msg(secret int, tr pb.TransportType, covert string) []byte {
	return vfix.Msg{Secret: vfix.Secret(secret), Transport: tr, V4: true, V6: true, Gen: 1, LibVer: 4, Covert: covert, Source: pb.RegistrationSource_API, Addr: []byte{203, 0, 113, 77}}.Bytes()
}

func main() {
	a := vh.Parse()
	log.SetLevel(log.ErrorLevel)
	iters := 1 << 30 // bounded by time: a quarter of the budget
	var ops int64
	t0 := time.Now()
	for it := 0; it < iters && time.Since(t0) < a.Budget/4; it++ {
		rm := vfix.Manager(conf(), sel, &tester{}, vfix.Transports{Min: true, Prefix: true}, nil)
		var news, updates int64
		rm.VerifCountDetector(&news, &updates)
		probe, err := rm.VerifParseRegMessage(msg(1, pb.TransportType_Min, "93.184.216.34:443"))
		if err != nil {
			vh.Fatal("probe: %v", err)
		}
		var wg sync.WaitGroup
		run := func(f func()) {
			wg.Add(1)
			go func() { defer wg.Done(); f(); atomic.AddInt64(&ops, 1) }()
		}
		ingest := func(b []byte) func() {
			return func() {
				regs, err := rm.VerifParseRegMessage(b)
				if err != nil {
					return
				}
				for _, r := range regs {
					rm.VerifIngest(r)
				}
			}
		}
		// direct ingest: equal and different registrations, both transports
		run(ingest(msg(1, pb.TransportType_Min, "93.184.216.34:443")))
		run(ingest(msg(1, pb.TransportType_Min, "93.184.216.34:443")))
		run(ingest(msg(1, pb.TransportType_Min, "93.184.216.35:443")))
		run(ingest(msg(2, pb.TransportType_Prefix, "93.184.216.34:443")))
		run(ingest(msg(3, pb.TransportType_Min, "10.1.1.1:443")))
		// same secret, other transport: a second registration on the phantom the connection handlers look up
		run(ingest(msg(1, pb.TransportType_Prefix, "93.184.216.34:443")))
		// sweeper
		run(func() {
			for i := 0; i < 3; i++ {
				rm.RemoveOldRegistrations()
			}
		})
		// connection handlers: what conns.go / the transports / Proxy do with a registration they looked up
		for k := 0; k < 2; k++ {
			run(func() {
				for i := 0; i < 4; i++ {
					for _, p := range probe {
						for _, r := range rm.GetRegistrations(p.PhantomIp) {
							d := r.(*lib.DecoyRegistration)
							rm.MarkActive(d)
							_ = d.IDString()
							_ = d.String()
							_ = d.TransportKeys()
							_ = d.GetDstPort()
							_ = d.GetSrcPort()
						}
					}
					_ = rm.CountRegistrations(probe[0].PhantomIp)
				}
			})
		}
		// configuration reload and statistics
		if a.Scenario == "race:reload" {
			run(func() { rm.OnReload(conf("192.168.0.0/16")) })
		}
		run(func() { _ = rm.VerifTotalLocked() })
		// the pipeline itself, with a stop request while registrations keep arriving
		ctx, cancel := context.WithCancel(context.Background())
		regChan := make(chan interface{}, 4)
		var pwg sync.WaitGroup
		pwg.Add(1)
		rm.VerifSetWorkers(3)
		go rm.HandleRegUpdates(ctx, regChan, &pwg)
		run(func() {
			for i := 0; i < 6; i++ {
				select {
				case regChan <- msg(4+i%2, pb.TransportType_Min, "93.184.216.34:443"):
				default:
				}
			}
		})
		wg.Wait()
		cancel()
		pwg.Wait()
	}
	o := &vh.Out{Name: a.Scenario, Evaluations: ops, Traces: ops, Exhaustive: false, Cap: "free-running sample of schedules under the race detector (adjunct, not the deciding step)", WallS: time.Since(t0).Seconds(),
		Samples: []any{map[string]any{"iteration": "5 ingests (equal / different covert / other transport / forbidden covert) + sweeper x3 + 2 connection handlers + reload + stats + 3-worker pipeline with stop"}}}
	vh.Emit(o)
}
