//go:build verif

package lib

import "github.com/refraction-networking/conjure/pkg/zzverif/vsched"

// VerifStateKey digests the shared registry state (for explorer state keys).
func (rm *RegistrationManager) VerifStateKey() uint64 {
	h := uint64(1469598103934665603)
	for _, c := range []byte(rm.VerifDumpFull() + rm.VerifDumpAges(vsched.VNow())) {
		h = (h ^ uint64(c)) * 1099511628211
	}
	return h ^ rm.registeredDecoys.m.VerifState()<<7
}
