//go:build verif

package main

import "github.com/refraction-networking/conjure/pkg/station/log"

type logT = log.Logger
