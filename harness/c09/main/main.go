//go:build verif

package main

// C09: interleavings of ingest workers, duplicate deliveries, connection
// handlers, the expiry sweeper and configuration reload on a real
// RegistrationManager whose locks, channels, probe and resolver are scheduling
// points; plus the real HandleRegUpdates pipeline under overload and shutdown.

import (
	"context"
	"fmt"
	"net"
	"net/netip"
	"os"
	"regexp"
	"sort"
	"strings"
	"time"

	"github.com/refraction-networking/conjure/pkg/station/lib"
	"github.com/refraction-networking/conjure/pkg/zzverif/vchan"
	"github.com/refraction-networking/conjure/pkg/zzverif/vfix"
	"github.com/refraction-networking/conjure/pkg/zzverif/vh"
	"github.com/refraction-networking/conjure/pkg/zzverif/vnet"
	"github.com/refraction-networking/conjure/pkg/zzverif/vsched"
	"github.com/refraction-networking/conjure/pkg/zzverif/vsync"
	pb "github.com/refraction-networking/conjure/proto"
)

var sel = vfix.Selector(vfix.SubnetsTOML)

type tester struct{ calls int }

func (t *tester) PhantomIsLive(addr string, port uint16) (bool, error) {
	t.calls++
	if vsched.Active() {
		vsched.Yield("probe")
	}
	return false, fmt.Errorf("not live")
}
func (t *tester) PrintAndReset(*logT) {}
func (t *tester) PrintStats(*logT)    {}
func (t *tester) Reset()              {}

// body is one thread: a sequence of operations. The serial specification interleaves whole
// operations (an ingest, a lookup, an activation, a sweep, a reload), keeping each thread's order.
type body struct {
	name string
	f    func()   // the thread as it runs concurrently
	ops  []func() // the same work as a sequence of atomic operations (nil: f is one operation)
}

type world struct {
	rm         *lib.RegistrationManager
	anns       []lib.VerifDetectorMsg
	introduced map[string]bool // registrations announced as new during the scenario's set-up
	annCov     []string
	lookups    []string
	bad        string // invariant violation noticed by a thread
	lifetimes  bool   // the scenario lets time pass: "new exactly once" is judged per lifetime
	bodies     []body
	finalize   func() string
}

func conf() *lib.RegConfig {
	c := &lib.RegConfig{EnableIPv4: true, EnableIPv6: true, CovertBlocklistSubnets: []string{"10.0.0.0/8", "127.0.0.0/8"}}
	lib.VerifParseBlocklists(c)
	return c
}

func msg(secret int, covert string) []byte {
	return vfix.Msg{Secret: vfix.Secret(secret), Transport: pb.TransportType_Min, V4: true, Gen: 1, LibVer: 4, Covert: covert, Source: pb.RegistrationSource_API, Addr: []byte{203, 0, 113, 77}}.Bytes()
}

func msgT(secret int, tt pb.TransportType, covert string) []byte {
	return vfix.Msg{Secret: vfix.Secret(secret), Transport: tt, V4: true, Gen: 1, LibVer: 4, Covert: covert, Source: pb.RegistrationSource_API, Addr: []byte{203, 0, 113, 77}}.Bytes()
}

// connAll is a connection handler that looks at everything the lookup on a phantom hands out (what every wrapping
// transport does with the result): all of it must be validated and carry a checked covert address.
func (w *world) connAll(name string, secret int, times int) body {
	probe, err := w.rm.VerifParseRegMessage(msg(secret, "93.184.216.34:443"))
	if err != nil || len(probe) != 1 {
		vh.Fatal("probe registration")
	}
	ph := probe[0].PhantomIp
	var ops []func()
	for i := 0; i < times; i++ {
		i := i
		ops = append(ops, func() {
			regs := w.rm.GetRegistrations(ph)
			var ids []string
			for id, r := range regs {
				d := r.(*lib.DecoyRegistration)
				ids = append(ids, fmt.Sprintf("%x", id[:4]))
				if !d.Valid {
					w.bad = "connection handler saw a registration that is not validated"
				}
				if !permitted(d.Covert) {
					w.bad = fmt.Sprintf("connection handler was handed a registration whose covert %q was never checked / is forbidden", d.Covert)
				}
			}
			sort.Strings(ids)
			w.lookups = append(w.lookups, fmt.Sprintf("%s#%d=%v", name, i, ids))
		})
	}
	return body{name, func() {
		for _, o := range ops {
			o()
		}
	}, ops}
}

func newWorld() *world {
	w := &world{}
	w.rm = vfix.Manager(conf(), sel, &tester{}, vfix.Transports{Min: true, Prefix: true}, nil)
	w.rm.VerifCaptureDetector(&w.anns)
	return w
}

func (w *world) worker(name string, b []byte) body {
	return body{name: name, f: func() {
		regs, err := w.rm.VerifParseRegMessage(b)
		if err != nil {
			return
		}
		for _, r := range regs {
			w.rm.VerifIngest(r)
		}
	}}
}

// permitted: independent policy check of a covert string the station is about to serve.
func permitted(c string) bool {
	ap, err := netip.ParseAddrPort(c)
	if err != nil {
		return false
	}
	for _, p := range []string{"10.0.0.0/8", "127.0.0.0/8"} {
		if netip.MustParsePrefix(p).Contains(ap.Addr().Unmap()) {
			return false
		}
	}
	return true
}

func (w *world) conn(name string, secret int, times int) body {
	probe, err := w.rm.VerifParseRegMessage(msg(secret, "93.184.216.34:443"))
	if err != nil || len(probe) != 1 {
		vh.Fatal("probe registration")
	}
	ph, id := probe[0].PhantomIp, w.rm.VerifIdentifier(probe[0])
	var found *lib.DecoyRegistration
	lookup := func(i int) func() {
		return func() {
			found = nil
			regs := w.rm.GetRegistrations(ph)
			r, ok := regs[id]
			w.lookups = append(w.lookups, fmt.Sprintf("%s#%d=%v", name, i, ok))
			if ok {
				d := r.(*lib.DecoyRegistration)
				if !d.Valid {
					w.bad = "connection handler saw a registration that is not validated"
				}
				if !permitted(d.Covert) {
					w.bad = fmt.Sprintf("connection handler was handed a registration whose covert %q was never checked / is forbidden", d.Covert)
				}
				found = d
			}
		}
	}
	activate := func() {
		if found != nil {
			w.rm.MarkActive(found)
		}
	}
	var ops []func()
	for i := 0; i < times; i++ {
		ops = append(ops, lookup(i), activate)
	}
	return body{name, func() {
		for _, o := range ops {
			o()
		}
	}, ops}
}

func (w *world) digest() string {
	var a []string
	for _, an := range w.anns {
		a = append(a, fmt.Sprintf("%s:%s:%s", an.Op, an.Reg.IDString(), an.Reg.Covert))
	}
	sort.Strings(a)
	l := append([]string{}, w.lookups...)
	sort.Strings(l)
	dump := w.rm.VerifDumpFull()
	if w.lifetimes {
		// an ingest that straddles the sweep of its own (never validated) record has counted its delivery in the
		// swept lifetime (it shows in that lifetime's expiry statistics, nothing is lost); the statement does not say
		// which lifetime a straddling delivery belongs to, so the duplicate counter is not compared here
		dump = dupCount.ReplaceAllString(dump, " n=*")
	}
	return strings.Join(a, ",") + " | " + dump + " | " + strings.Join(l, ",")
}

var dupCount = regexp.MustCompile(` n=\d+`)

// resetAnns forgets the announcements of the scenario's set-up, remembering which registrations they introduced.
func (w *world) resetAnns() {
	if w.introduced == nil {
		w.introduced = map[string]bool{}
	}
	for _, an := range w.anns {
		if an.Op == "New" {
			w.introduced[an.Reg.IDString()+an.Reg.PhantomIp.String()] = true
		}
	}
	w.anns = w.anns[:0]
}

func (w *world) invariants() string {
	if w.bad != "" {
		return w.bad
	}
	// the detector must hear of a registration before it hears that it is in use: an Update published ahead of the
	// New of the same lifetime is overridden by it (the New carries the short, unused lifetime) - a lost update that
	// no serial order of ingest and connection handling produces
	intro := map[string]bool{}
	for k := range w.introduced {
		intro[k] = true
	}
	for _, an := range w.anns {
		k := an.Reg.IDString() + an.Reg.PhantomIp.String()
		if an.Op == "New" {
			intro[k] = true
		} else if an.Op == "Update" && !intro[k] {
			return fmt.Sprintf("registration %s: the detector was told it is in use (Update) before it was told it exists (New)", an.Reg.IDString())
		}
	}
	news := map[string]int{}
	lives := map[any]int{}
	for _, an := range w.anns {
		if an.Op == "New" {
			if w.lifetimes {
				// scenarios in which a registration can live twice: once per lifetime (per timeout record)
				if an.Life == nil {
					return fmt.Sprintf("registration %s announced as new while nothing tracks it", an.Reg.IDString())
				}
				lives[an.Life]++
				if lives[an.Life] > 1 {
					return fmt.Sprintf("registration %s announced as new %d times within one lifetime", an.Reg.IDString(), lives[an.Life])
				}
				continue
			}
			news[an.Reg.IDString()+an.Reg.PhantomIp.String()]++
		}
	}
	for k, n := range news {
		if n > 1 {
			return fmt.Sprintf("registration %s announced as new %d times", k, n)
		}
	}
	return ""
}

type scenario struct {
	name  string
	build func() *world
}

func scenarios() map[string]scenario {
	m := map[string]scenario{}
	add := func(s scenario) { m[s.name] = s }
	add(scenario{"S1:same-registration-twice+connection", func() *world {
		w := newWorld()
		b := msg(1, "93.184.216.34:443")
		w.bodies = []body{w.worker("workerA", b), w.worker("workerB", b), w.conn("conn", 1, 2)}
		return w
	}})
	add(scenario{"S2:same-secret-different-covert", func() *world {
		w := newWorld()
		w.bodies = []body{w.worker("worker-forbidden", msg(1, "10.0.0.9:443")), w.worker("worker-permitted", msg(1, "93.184.216.34:443")), w.conn("conn", 1, 1)}
		return w
	}})
	add(scenario{"S2b:unresolved-name-vs-literal", func() *world {
		w := newWorld()
		w.bodies = []body{w.worker("worker-name", msg(1, "blocked.example:443")), w.worker("worker-permitted", msg(1, "93.184.216.34:443")), w.conn("conn", 1, 1)}
		return w
	}})
	for _, age := range []string{"9m59s", "10m1s"} {
		age := age
		add(scenario{"S3:worker+sweeper+connection@" + age, func() *world {
			w := newWorld()
			// initial state: registration 1 validated `age` ago
			for _, r := range mustParse(w.rm, msg(1, "93.184.216.34:443")) {
				w.rm.VerifIngest(r)
			}
			w.resetAnns()
			d, _ := time.ParseDuration(age)
			vsched.Advance(d)
			w.bodies = []body{w.worker("worker-dup", msg(1, "93.184.216.34:443")), {name: "sweeper", f: func() { w.rm.RemoveOldRegistrations() }}, w.conn("conn", 1, 1)}
			return w
		}})
	}
	// S8: lookups on a phantom while a second registration (same secret, other transport: same phantom) is tracked,
	// validated and an old one is swept - with every lock release a scheduling point too (vsync.ReleasePoints), so that a
	// lookup result which still refers to the registry's own maps is seen being written under the handler's feet
	add(scenario{"S8:lookup-all+second-transport@release-points", func() *world {
		w := newWorld()
		for _, r := range mustParse(w.rm, msg(1, "93.184.216.34:443")) {
			w.rm.VerifIngest(r)
		}
		w.resetAnns()
		w.bodies = []body{w.worker("worker-prefix", msgT(1, pb.TransportType_Prefix, "93.184.216.34:443")), w.connAll("conn", 1, 2)}
		return w
	}})
	// a worker validating a registration while its client connects, every lock release a scheduling point: whatever
	// happens between making the registration visible and telling the detector is exposed to the connection handler
	add(scenario{"S8:worker+connection@release-points", func() *world {
		w := newWorld()
		w.bodies = []body{w.worker("worker", msg(1, "93.184.216.34:443")), w.conn("conn", 1, 2)}
		return w
	}})
	add(scenario{"S8:lookup-all+sweeper@release-points", func() *world {
		// (one registration on the phantom has expired, the other is fresh: the sweeper removes registrations one by one,
		// each under its own write lock, so a sweep of two would legitimately be seen half done by a lookup)
		w := newWorld()
		for _, r := range mustParse(w.rm, msg(1, "93.184.216.34:443")) {
			w.rm.VerifIngest(r)
		}
		vsched.Advance(10*time.Minute + time.Second)
		for _, r := range mustParse(w.rm, msgT(1, pb.TransportType_Prefix, "93.184.216.34:443")) {
			w.rm.VerifIngest(r)
		}
		w.resetAnns()
		w.bodies = []body{{name: "sweeper", f: func() { w.rm.RemoveOldRegistrations() }}, w.connAll("conn", 1, 2)}
		return w
	}})
	// S3c: the unused lifetime passes and the sweeper runs while two workers ingest the same registration (each may be
	// parked in its liveness probe at that moment): whatever is tracked afterwards is announced once per lifetime
	add(scenario{"S3c:two-workers+lifetime-passes+sweeper", func() *world {
		w := newWorld()
		w.lifetimes = true
		b := msg(1, "93.184.216.34:443")
		w.bodies = []body{w.worker("workerA", b), w.worker("workerB", b), {name: "clock+sweeper", f: func() {
			vsched.Advance(10*time.Minute + time.Second)
			w.rm.RemoveOldRegistrations()
		}}}
		return w
	}})
	// S3b: three expired registrations on the sweeper's list while a connection activates one of them between the
	// sweeper's collection and removal passes: every other expired, unused registration must still be removed. The
	// sweep list follows the iteration order of the timeout map, which the C09 build makes sorted-by-key (vinstr
	// -maprange) so that it is owned and replayable; one scenario per activated registration, so that the activated
	// one is first, middle and last on the list in turn.
	for _, act := range []int{1, 2, 3} {
		act := act
		add(scenario{fmt.Sprintf("S3b:sweeper+connection@three-expired,activate=%d", act), func() *world {
			w := newWorld()
			for _, sec := range []int{1, 2, 3} {
				for _, r := range mustParse(w.rm, msg(sec, "93.184.216.34:443")) {
					w.rm.VerifIngest(r)
				}
			}
			w.resetAnns()
			vsched.Advance(10*time.Minute + time.Second)
			w.bodies = []body{{name: "sweeper", f: func() { w.rm.RemoveOldRegistrations() }}, w.conn("conn", act, 1)}
			return w
		}})
	}
	add(scenario{"S4:worker+reload+lookup", func() *world {
		w := newWorld()
		nc := &lib.RegConfig{EnableIPv4: true, EnableIPv6: true, CovertBlocklistSubnets: []string{"93.184.0.0/16"}}
		lib.VerifParseBlocklists(nc)
		w.bodies = []body{w.worker("worker", msg(1, "93.184.216.34:443")), {name: "reload", f: func() { w.rm.OnReload(nc) }}, w.conn("conn", 1, 1)}
		return w
	}})
	add(scenario{"S5:three-workers+sweeper", func() *world {
		w := newWorld()
		b := msg(1, "93.184.216.34:443")
		w.bodies = []body{w.worker("workerA", b), w.worker("workerB", b), w.worker("workerC", msg(2, "93.184.216.35:443")), {name: "sweeper", f: func() { w.rm.RemoveOldRegistrations() }}}
		return w
	}})
	return m
}

func mustParse(rm *lib.RegistrationManager, b []byte) []*lib.DecoyRegistration {
	r, err := rm.VerifParseRegMessage(b)
	if err != nil {
		vh.Fatal("parse: %v", err)
	}
	return r
}

func permutationsUnused(n int) [][]int {
	if n == 1 {
		return [][]int{{0}}
	}
	var out [][]int
	for _, p := range permutationsUnused(n - 1) {
		for i := 0; i <= len(p); i++ {
			q := append(append(append([]int{}, p[:i]...), n-1), p[i:]...)
			out = append(out, q)
		}
	}
	return out
}

func installHooks() {
	vnet.ResolveHook = func(network, host string) (*net.IPAddr, error) {
		if vsched.Active() {
			vsched.Yield("resolve")
		}
		if strings.HasPrefix(host, "blocked") {
			return &net.IPAddr{IP: net.ParseIP("10.0.0.9")}, nil
		}
		return &net.IPAddr{IP: net.ParseIP("93.184.216.34")}, nil
	}
}

func runSerialDifferential(a *vh.Args, name string, sc scenario, pB int) {
	installHooks()
	os.Setenv("PHANTOM_SUBNET_LOCATION", vfix.WriteTemp("c09-subnets-*.toml", vfix.SubnetsTOML))
	// specification: the outcomes of all serial orders of whole operations (linear extensions of the per-thread sequences)
	serial := map[string]bool{}
	var counts []int
	vsched.RunOnce(nil, 0, func() *vsched.Scenario {
		return &vsched.Scenario{Body: func() {
			for _, b := range sc.build().bodies {
				n := len(b.ops)
				if n == 0 {
					n = 1
				}
				counts = append(counts, n)
			}
		}}
	})
	var orders [][]int
	var rec func(cur []int, left []int)
	rec = func(cur []int, left []int) {
		done := true
		for t, l := range left {
			if l > 0 {
				done = false
				nl := append([]int{}, left...)
				nl[t]--
				rec(append(append([]int{}, cur...), t), nl)
			}
		}
		if done {
			orders = append(orders, cur)
		}
	}
	rec(nil, counts)
	for _, order := range orders {
		var w *world
		vsched.RunOnce(nil, 0, func() *vsched.Scenario {
			return &vsched.Scenario{Body: func() {
				w = sc.build()
				next := make([]int, len(w.bodies))
				for _, t := range order {
					b := w.bodies[t]
					if len(b.ops) == 0 {
						b.f()
					} else {
						b.ops[next[t]]()
						next[t]++
					}
				}
			}}
		})
		if iv := w.invariants(); iv != "" {
			vh.Fatal("%s: invariant fails in a serial order %v: %s", name, order, iv)
		}
		serial[w.digest()] = true
	}
	mk := func() *vsched.Scenario {
		var w *world
		return &vsched.Scenario{
			Setup: func(x *vsched.Exec) {
				x.StateKey = func() uint64 {
					if w == nil {
						return 0
					}
					return w.rm.VerifStateKey() ^ uint64(len(w.anns))<<52 ^ uint64(len(w.lookups))<<44
				}
			},
			Body: func() {
				w = sc.build()
				var wg vsync.WaitGroup
				for _, b := range w.bodies {
					b := b
					wg.Add(1)
					vsched.GoNamed(b.name, func() { defer wg.Done(); b.f() })
				}
				wg.Wait()
			},
			Check: func(x *vsched.Exec) *vsched.Violation {
				if x.Verdict != vsched.VOK {
					return &vsched.Violation{Key: x.Verdict, What: x.Detail}
				}
				if iv := w.invariants(); iv != "" {
					k := "invariant"
					switch {
					case strings.Contains(iv, "covert"):
						k = "unchecked-covert-served"
					case strings.Contains(iv, "not validated"):
						k = "unvalidated-registration-served"
					case strings.Contains(iv, "announced as new"):
						k = "announced-new-twice"
					}
					return &vsched.Violation{Key: k, What: iv}
				}
				if !serial[w.digest()] {
					var ss []string
					for s := range serial {
						ss = append(ss, s)
					}
					sort.Strings(ss)
					return &vsched.Violation{Key: "outcome-not-serializable", What: fmt.Sprintf("concurrent outcome [%s] is not the outcome of any serial order; serial outcomes: %s", w.digest(), strings.Join(ss, "  ||  "))}
				}
				return nil
			},
			Outcome: func(x *vsched.Exec) string { return w.digest() },
		}
	}
	if a.Replay != "" {
		rp := vh.LoadReplay(a.Replay)
		x, v := vsched.RunOnce(vh.Ints(rp["choices"]), 0, mk)
		for _, l := range x.Trace() {
			fmt.Fprintln(os.Stderr, l)
		}
		o := &vh.Out{Name: name, Evaluations: 1}
		if v != nil {
			o.Violations = append(o.Violations, &vh.Violation{Key: v.Key, What: v.What})
		}
		vh.Emit(o)
		return
	}
	vh.SelfCheck(name, mk)
	r := vsched.Explore(vsched.Config{Name: name, PreemptBound: pB, EnvBound: -1, Deadline: a.Deadline(), Prune: true}, mk)
	o := vh.FromSched(r)
	o.Extra["serial_outcomes"] = len(serial)
	for _, v := range o.Violations {
		v.Key = strings.SplitN(name, ":", 2)[0] + ":" + v.Key
	}
	vh.Emit(o)
}

// ---- S6: the real pipeline ---------------------------------------------------------------------

type blockingTester struct {
	release chan struct{}
}

func (t *blockingTester) PhantomIsLive(addr string, port uint16) (bool, error) {
	vchan.Recv(t.release) // a probe that takes until the harness releases it
	return false, fmt.Errorf("not live")
}
func (t *blockingTester) PrintAndReset(*logT) {}
func (t *blockingTester) PrintStats(*logT)    {}
func (t *blockingTester) Reset()              {}

// runStopVsPending: S7:workers=<n>;pending=<k>. The stop request has been issued and k registrations are
// already queued when the distributor reaches its receive point. select nondeterminism is resolved in favour
// of the stop request (vchan.PreferClosedRecv): under that resolution the pipeline must wind down without
// working through the queue - otherwise the code gives pending input priority over the stop request and a
// sender that never pauses keeps the pipeline alive for ever ("whether or not registrations keep arriving").
func runStopVsPending(a *vh.Args, name string) {
	var workers, pending int
	fmt.Sscanf(strings.TrimPrefix(name, "S7:"), "workers=%d;pending=%d", &workers, &pending)
	installHooks()
	var rmP *lib.RegistrationManager
	ret := false
	mk := func() *vsched.Scenario {
		return &vsched.Scenario{
			Setup: func(x *vsched.Exec) { vchan.PreferClosedRecv = true; rmP, ret = nil, false },
			Body: func() {
				rm := vfix.Manager(conf(), sel, &tester{}, vfix.Transports{Min: true}, nil)
				var anns []lib.VerifDetectorMsg
				rm.VerifCaptureDetector(&anns)
				rm.VerifSetWorkers(workers)
				rmP = rm
				ctx, cancel := context.WithCancel(context.Background())
				regChan := make(chan interface{}, pending)
				for i := 0; i < pending; i++ {
					regChan <- interface{}(msg(10+i, "93.184.216.34:443"))
				}
				cancel()
				var parent vsync.WaitGroup
				parent.Add(1)
				vsched.GoNamed("pipeline", func() { rm.HandleRegUpdates(ctx, regChan, &parent); ret = true })
				parent.Wait()
			},
			Check: func(x *vsched.Exec) *vsched.Violation {
				vchan.PreferClosedRecv = false
				if x.Verdict != vsched.VOK {
					return &vsched.Violation{Key: "pipeline-does-not-wind-down", What: x.Verdict + " " + x.Detail}
				}
				tot, _, _, _ := rmP.VerifIngestCounters()
				if tot > 1 {
					return &vsched.Violation{Key: "stop-request-yields-to-pending-input", What: fmt.Sprintf("stop requested with %d registrations queued: the distributor received %d of them before winding down although the stop request was selectable", pending, tot)}
				}
				return nil
			},
			Outcome: func(x *vsched.Exec) string {
				tot, dropped, _, _ := rmP.VerifIngestCounters()
				return fmt.Sprintf("%s recv=%d dropped=%d ret=%v", x.Verdict, tot, dropped, ret)
			},
		}
	}
	if a.Replay != "" {
		rp := vh.LoadReplay(a.Replay)
		x, v := vsched.RunOnce(vh.Ints(rp["choices"]), 0, mk)
		for _, l := range x.Trace() {
			fmt.Fprintln(os.Stderr, l)
		}
		ot := &vh.Out{Name: name, Evaluations: 1}
		if v != nil {
			ot.Violations = append(ot.Violations, &vh.Violation{Key: v.Key, What: v.What})
		}
		vh.Emit(ot)
		return
	}
	vh.SelfCheck(name, mk)
	r := vsched.Explore(vsched.Config{Name: name, PreemptBound: 2, EnvBound: -1, Deadline: a.Deadline(), MaxPoints: 4000}, mk)
	out := vh.FromSched(r)
	for _, v := range out.Violations {
		v.Key = "S7:" + v.Key
	}
	vh.Emit(out)
}

func runPipeline(a *vh.Args, name string) {
	// name: S6:workers=<n>;script=<letters>  f = a registration arrives (offered without blocking, as the ZMQ
	// ingester does), r = the pending liveness probes complete, s = stop request
	var workers int
	var script string
	fmt.Sscanf(strings.TrimPrefix(name, "S6:"), "workers=%d;script=%s", &workers, &script)
	installHooks()
	type obs struct {
		fed                int
		ret                bool
		rm                 *lib.RegistrationManager
		distributorBlocked string
		stopped, released  bool
	}
	var o *obs
	var annsP *[]lib.VerifDetectorMsg
	mk := func() *vsched.Scenario {
		return &vsched.Scenario{
			Setup: func(x *vsched.Exec) {
				o, annsP = nil, nil // the state key must not look at the previous execution's objects
				x.Symmetry = true
				// an ingest worker parked on its loop-top select (stop request / next message) holds no local state
				x.SymIdle = func(op *vsched.Op) bool { return op.Kind == "start" || (op.Kind == "select" && op.Obj == "2 cases") }
				x.StateKey = func() uint64 {
					if o == nil || o.rm == nil {
						return 0
					}
					tot, dropped, _, _ := o.rm.VerifIngestCounters()
					na := 0
					if annsP != nil {
						na = len(*annsP)
					}
					return o.rm.VerifStateKey() ^ uint64(o.fed)<<56 ^ uint64(tot)<<48 ^ uint64(dropped)<<40 ^ uint64(na)<<32 ^ boolKey(o.ret, o.stopped, o.released)
				}
			},
			Body: func() {
				o = &obs{}
				bt := &blockingTester{release: make(chan struct{})}
				rm := vfix.Manager(conf(), sel, bt, vfix.Transports{Min: true}, nil)
				var anns []lib.VerifDetectorMsg
				annsP = &anns
				rm.VerifCaptureDetector(&anns)
				rm.VerifSetWorkers(workers)
				o.rm = rm
				ctx, cancel := context.WithCancel(context.Background())
				regChan := make(chan interface{}, 2)
				var wg, parent vsync.WaitGroup
				parent.Add(1)
				vsched.GoNamed("pipeline", func() { rm.HandleRegUpdates(ctx, regChan, &parent); o.ret = true })
				wg.Add(1)
				vsched.GoNamed("driver", func() {
					defer wg.Done()
					n := 0
					for _, c := range script {
						switch c {
						case 'f':
							if vchan.Select(true, vchan.S(regChan, interface{}(msg(10+n, "93.184.216.34:443")))) == 0 {
								o.fed++
							}
							n++
						case 'r':
							if !o.released {
								vchan.Close(bt.release)
								o.released = true
							}
						case 's':
							cancel()
							o.stopped = true
						}
					}
					if !o.released {
						vchan.Close(bt.release) // probes eventually complete (750 ms in reality)
						o.released = true
					}
				})
				wg.Wait()
				parent.Wait() // what main() does after cancel()
			},
			Check: func(x *vsched.Exec) *vsched.Violation {
				if x.Verdict == vsched.VDeadlock {
					k := "pipeline-does-not-wind-down"
					if strings.Contains(x.Detail, "blocked at send") && strings.Contains(x.Detail, "pipeline") {
						k = "distributor-blocked-on-handoff"
					}
					return &vsched.Violation{Key: k, What: "after the stop request some thread never finishes: " + x.Detail}
				}
				if x.Verdict != vsched.VOK {
					return &vsched.Violation{Key: x.Verdict, What: x.Detail}
				}
				tot, dropped, _, _ := o.rm.VerifIngestCounters()
				if int(tot) > o.fed || dropped > tot {
					return &vsched.Violation{Key: "counter-mismatch", What: fmt.Sprintf("fed %d, received %d, dropped %d", o.fed, tot, dropped)}
				}
				return nil
			},
			Outcome: func(x *vsched.Exec) string {
				tot, dropped, _, _ := o.rm.VerifIngestCounters()
				return fmt.Sprintf("%s fed=%d recv=%d dropped=%d total=%d", x.Verdict, o.fed, tot, dropped, o.rm.VerifTotal())
			},
		}
	}
	if a.Replay != "" {
		rp := vh.LoadReplay(a.Replay)
		x, v := vsched.RunOnce(vh.Ints(rp["choices"]), 0, mk)
		for _, l := range x.Trace() {
			fmt.Fprintln(os.Stderr, l)
		}
		ot := &vh.Out{Name: name, Evaluations: 1}
		if v != nil {
			ot.Violations = append(ot.Violations, &vh.Violation{Key: v.Key, What: v.What})
		}
		vh.Emit(ot)
		return
	}
	vh.SelfCheck(name, mk)
	pB := 2
	if workers > 2 {
		pB = 1
	}
	if workers > 3 {
		pB = 0
	}
	if a.Thorough() {
		pB = 2
		if workers <= 2 {
			pB = 3
		}
		if workers > 3 {
			pB = 1
		}
	}
	r := vsched.Explore(vsched.Config{Name: name, PreemptBound: pB, EnvBound: -1, Deadline: a.Deadline(), MaxPoints: 4000, Prune: true}, mk)
	out := vh.FromSched(r)
	for _, v := range out.Violations {
		v.Key = "S6:" + v.Key
	}
	vh.Emit(out)
}

func main() {
	a := vh.Parse()
	name := a.Scenario
	if a.Replay != "" {
		name = vh.LoadReplay(a.Replay)["scenario"].(string)
	}
	if strings.HasPrefix(name, "S6:") {
		runPipeline(a, name)
		return
	}
	if strings.HasPrefix(name, "S7:") {
		runStopVsPending(a, name)
		return
	}
	sc, ok := scenarios()[name]
	if !ok {
		vh.Fatal("unknown scenario %q", name)
	}
	pB := -1
	vsync.ReleasePoints = strings.HasPrefix(name, "S8")
	if strings.HasPrefix(name, "S5") {
		pB = 2
		if a.Thorough() {
			pB = 3
		}
	}
	runSerialDifferential(a, name, sc, pB)
}

func boolKey(bs ...bool) uint64 {
	var k uint64
	for i, b := range bs {
		if b {
			k |= 1 << uint(i)
		}
	}
	return k
}
