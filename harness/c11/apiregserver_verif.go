//go:build verif

package apiregserver

import (
	"net/http"

	"github.com/refraction-networking/conjure/pkg/regserver/regprocessor"
	pb "github.com/refraction-networking/conjure/proto"
	log "github.com/sirupsen/logrus"
)

// VerifServer builds an APIRegServer on a real RegProcessor.
func VerifServer(p *regprocessor.RegProcessor, cc *pb.ClientConf) *APIRegServer {
	l := log.New()
	l.SetLevel(log.PanicLevel)
	return &APIRegServer{processor: p, latestClientConf: cc, logger: l, metrics: regprocessor.VerifMetrics()}
}

// VerifRegister / VerifRegisterBidirectional expose the two handlers.
func (s *APIRegServer) VerifRegister(w http.ResponseWriter, r *http.Request) { s.register(w, r) }
func (s *APIRegServer) VerifRegisterBidirectional(w http.ResponseWriter, r *http.Request) {
	s.registerBidirectional(w, r)
}
