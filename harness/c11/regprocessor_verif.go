//go:build verif

package regprocessor

import (
	"net"
	"time"

	zmq "github.com/pebbe/zmq4"
	"github.com/refraction-networking/conjure/pkg/core/interfaces"
	"github.com/refraction-networking/conjure/pkg/metrics"
	"github.com/refraction-networking/conjure/pkg/phantoms"
	"github.com/refraction-networking/conjure/pkg/regserver/overrides"
	"github.com/refraction-networking/conjure/pkg/transports/wrapping/min"
	"github.com/refraction-networking/conjure/pkg/transports/wrapping/obfs4"
	"github.com/refraction-networking/conjure/pkg/transports/wrapping/prefix"
	pb "github.com/refraction-networking/conjure/proto"
	log "github.com/sirupsen/logrus"
)

type verifSender struct{ N int }

func (s *verifSender) SendBytes(b []byte, _ zmq.Flag) (int, error) { s.N++; return len(b), nil }
func (s *verifSender) Close() error                                { return nil }

var verifMetrics *metrics.Metrics

// VerifMetrics returns one shared metrics object (its logging goroutine sleeps for ever).
func VerifMetrics() *metrics.Metrics {
	if verifMetrics == nil {
		verifMetrics = metrics.NewMetrics(log.NewEntry(log.StandardLogger()), 10000*time.Hour)
	}
	return verifMetrics
}

// VerifNewProcessor builds a RegProcessor with a discarding sender, the real selector,
// the real override set used in production (random prefix) and the wrapping transports.
func VerifNewProcessor(sel *phantoms.PhantomIPSelector) *RegProcessor {
	p := &RegProcessor{ipSelector: sel, sock: &verifSender{}, metrics: VerifMetrics(), authenticated: false,
		regOverrides: interfaces.Overrides([]interfaces.RegOverride{overrides.NewRandPrefixOverride()})}
	_ = p.AddTransport(pb.TransportType_Min, min.Transport{})
	_ = p.AddTransport(pb.TransportType_Obfs4, obfs4.Transport{})
	_ = p.AddTransport(pb.TransportType_Prefix, prefix.DefaultSet())
	return p
}

// VerifNewProcessorOverrides is VerifNewProcessor with subnet overrides enforced, shaped like the shipped
// cmd/registration-server/reg_config.toml (every registration selected for override, one excluded subnet).
func VerifNewProcessorOverrides(sel *phantoms.PhantomIPSelector) *RegProcessor {
	p := VerifNewProcessor(sel)
	mk := func(cidr, tr string, pid prefix.PrefixID, port uint32) Subnet {
		_, n, err := net.ParseCIDR(cidr)
		if err != nil {
			panic(err)
		}
		return Subnet{CIDR: Ipnet{n}, Weight: 1, Transport: tr, PrefixId: pid, Port: port}
	}
	p.enforceSubnetOverrides = true
	p.minOverrideSubnets = []Subnet{mk("198.51.100.0/28", "Min_Transport", 0, 0)}
	p.prefixOverrideSubnets = []Subnet{mk("203.0.113.0/28", "Prefix_Transport", prefix.HTTPResp, 8080)}
	p.minOverrideSubnetsCumulativeWeights = processOverrideSubnetsWeights(p.minOverrideSubnets)
	p.prefixOverrideSubnetsCumulativeWeights = processOverrideSubnetsWeights(p.prefixOverrideSubnets)
	p.exclusionsFromOverride = []Subnet{mk("192.122.190.0/28", "", 0, 0)}
	p.prcntMinRegsToOverride = 100
	p.prcntPrefixRegsToOverride = 100
	return p
}
