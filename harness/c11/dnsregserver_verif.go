//go:build verif

package dnsregserver

import (
	"github.com/refraction-networking/conjure/pkg/regserver/regprocessor"
	log "github.com/sirupsen/logrus"
)

// VerifServer builds a DNSRegServer (without responder) on a real RegProcessor.
func VerifServer(p *regprocessor.RegProcessor, gen uint32) *DNSRegServer {
	l := log.New()
	l.SetLevel(log.PanicLevel)
	return &DNSRegServer{processor: p, latestCCGen: gen, logger: l, metrics: regprocessor.VerifMetrics()}
}

// VerifProcessRequest exposes processRequest.
func (s *DNSRegServer) VerifProcessRequest(b []byte) ([]byte, error) { return s.processRequest(b) }
