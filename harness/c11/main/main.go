//go:build verif

package main

// C11: bounded-exhaustive structural input enumeration at every external entry
// point (ZMQ registration messages, phantom-connection bytes, HTTP and DNS
// registration requests, transport parameters). Oracle: the component returns
// (error or not); no panic; no hang (worker timeout).

import (
	"bytes"
	"context"
	"errors"
	"fmt"
	"io"
	"net"
	"net/http"
	"net/http/httptest"
	"sort"
	"strings"
	"time"

	pdtls "github.com/refraction-networking/conjure/pkg/dtls"
	"github.com/refraction-networking/conjure/pkg/registrars/dns-registrar/dns"
	"github.com/refraction-networking/conjure/pkg/registrars/dns-registrar/encryption"
	"github.com/refraction-networking/conjure/pkg/registrars/dns-registrar/msgformat"
	"github.com/refraction-networking/conjure/pkg/registrars/dns-registrar/responder"
	"github.com/refraction-networking/conjure/pkg/regserver/apiregserver"
	"github.com/refraction-networking/conjure/pkg/regserver/dnsregserver"
	"github.com/refraction-networking/conjure/pkg/regserver/regprocessor"
	"github.com/refraction-networking/conjure/pkg/station/lib"
	dtlst "github.com/refraction-networking/conjure/pkg/transports/connecting/dtls"
	"github.com/refraction-networking/conjure/pkg/transports/wrapping/min"
	"github.com/refraction-networking/conjure/pkg/transports/wrapping/obfs4"
	"github.com/refraction-networking/conjure/pkg/transports/wrapping/prefix"
	"github.com/refraction-networking/conjure/pkg/zzverif/venum"
	"github.com/refraction-networking/conjure/pkg/zzverif/vfix"
	"github.com/refraction-networking/conjure/pkg/zzverif/vh"
	"github.com/refraction-networking/conjure/pkg/zzverif/vnet"
	"github.com/refraction-networking/conjure/pkg/zzverif/vsched"
	pb "github.com/refraction-networking/conjure/proto"
	"google.golang.org/protobuf/proto"
	"google.golang.org/protobuf/types/known/anypb"
)

var sel = vfix.Selector(vfix.SubnetsTOML)

func guard(e *venum.E, entry, id string, f func()) {
	e.Sample(map[string]any{"entry": entry, "case": id})
	if p, msg, site := venum.Guard(f); p {
		e.Violation("panic:"+entry+":"+site, fmt.Sprintf("%s: %s (%s)", entry, msg, id), map[string]any{"entry": entry, "case": id})
	}
}

// ---- alphabets -------------------------------------------------------------------------------

func anyAlphabet() []*anypb.Any {
	gen, _ := anypb.New(&pb.GenericTransportParams{RandomizeDstPort: proto.Bool(true)})
	pre, _ := anypb.New(&pb.PrefixTransportParams{PrefixId: proto.Int32(4), RandomizeDstPort: proto.Bool(true), CustomFlushPolicy: proto.Int32(2)})
	preBig, _ := anypb.New(&pb.PrefixTransportParams{PrefixId: proto.Int32(2147483647), Prefix: bytes.Repeat([]byte{'x'}, 300)})
	preNeg, _ := anypb.New(&pb.PrefixTransportParams{PrefixId: proto.Int32(-1)})
	dt, _ := anypb.New(&pb.DTLSTransportParams{SrcAddr4: &pb.Addr{IP: []byte{1, 2, 3, 4}, Port: proto.Uint32(5)}, RandomizeDstPort: proto.Bool(true)})
	dtBad, _ := anypb.New(&pb.DTLSTransportParams{SrcAddr4: &pb.Addr{IP: []byte{1, 2, 3}}, SrcAddr6: &pb.Addr{}})
	nourl := func(a *anypb.Any) *anypb.Any { return &anypb.Any{Value: a.Value} }
	return []*anypb.Any{nil, {}, gen, pre, preBig, preNeg, dt, dtBad, nourl(gen), nourl(pre), nourl(dt),
		{TypeUrl: "type.googleapis.com/proto.NoSuchMessage", Value: gen.Value}, {TypeUrl: "garbage", Value: []byte{0x08}}, {TypeUrl: pre.TypeUrl, Value: []byte{0x08, 0x80}},
		{TypeUrl: strings.Replace(pre.TypeUrl, "proto.", "tapdance.", 1), Value: pre.Value}, {Value: []byte{0xff, 0xff, 0xff}}}
}

func payloads(full bool) []*pb.ClientToStation {
	out := []*pb.ClientToStation{nil}
	tts := []*pb.TransportType{nil, tt(0), tt(1), tt(2), tt(3), tt(4), tt(99), tt(2147483647)}
	gens := []*uint32{nil, proto.Uint32(1), proto.Uint32(77)}
	sups := [][2]*bool{{nil, nil}, {proto.Bool(true), proto.Bool(false)}, {proto.Bool(false), proto.Bool(true)}, {proto.Bool(true), proto.Bool(true)}}
	covs := []*string{nil, proto.String(""), proto.String("93.184.216.34:443"), proto.String("[::1]:1")}
	libs := []*uint32{nil, proto.Uint32(0), proto.Uint32(2), proto.Uint32(4), proto.Uint32(4294967295)}
	anys := anyAlphabet()
	if !full {
		tts = []*pb.TransportType{nil, tt(0), tt(2), tt(3), tt(4), tt(99)}
		gens = gens[1:]
		covs = covs[1:3]
		libs = []*uint32{nil, proto.Uint32(2), proto.Uint32(4)}
	}
	for _, t := range tts {
		for _, g := range gens {
			for _, s := range sups {
				for _, c := range covs {
					for _, l := range libs {
						for ai, a := range anys {
							p := &pb.ClientToStation{Transport: t, DecoyListGeneration: g, V4Support: s[0], V6Support: s[1], CovertAddress: c, ClientLibVersion: l, TransportParams: a}
							if ai%3 == 1 {
								p.Flags = &pb.RegistrationFlags{Prescanned: proto.Bool(true), ProxyHeader: proto.Bool(true)}
							}
							if ai%5 == 2 {
								p.DisableRegistrarOverrides = proto.Bool(true)
							}
							out = append(out, p)
						}
					}
				}
			}
		}
	}
	return out
}

func tt(v int32) *pb.TransportType { t := pb.TransportType(v); return &t }

func responses() []*pb.RegistrationResponse {
	out := []*pb.RegistrationResponse{nil}
	anys := anyAlphabet()
	for _, v4 := range []*uint32{nil, proto.Uint32(0), proto.Uint32(0xC6336407)} {
		for _, l6 := range []int{-1, 0, 4, 15, 16, 17} {
			for _, port := range []*uint32{nil, proto.Uint32(0), proto.Uint32(65535), proto.Uint32(65536), proto.Uint32(4294967295)} {
				for _, ai := range []int{0, 3, 5, 9, 13} {
					r := &pb.RegistrationResponse{Ipv4Addr: v4, DstPort: port, TransportParams: anys[ai]}
					if l6 >= 0 {
						r.Ipv6Addr = bytes.Repeat([]byte{0x20}, l6)
					}
					out = append(out, r)
				}
			}
		}
	}
	return out
}

type wrapperShape struct {
	secret, addr, decoy []byte
	source              *pb.RegistrationSource
	respBytes, sig      []byte
}

var fullAlphabet bool

func wrapperShapes() []wrapperShape {
	var out []wrapperShape
	src := func(v int32) *pb.RegistrationSource { s := pb.RegistrationSource(v); return &s }
	sls, als, srcs := []int{-1, 0, 1, 7, 8, 9, 15, 16, 31, 32, 33}, []int{-1, 0, 4, 5, 16, 17}, []*pb.RegistrationSource{nil, src(1), src(2), src(4), src(99)}
	if !fullAlphabet {
		sls, als, srcs = []int{-1, 1, 7, 8, 32}, []int{-1, 4, 5, 16}, []*pb.RegistrationSource{nil, src(1), src(99)}
	}
	for _, sl := range sls {
		for _, al := range als {
			for _, s := range srcs {
				for _, extra := range []int{0, 1} {
					w := wrapperShape{source: s}
					if sl >= 0 {
						w.secret = bytes.Repeat([]byte{0x5a}, sl)
					}
					if al >= 0 {
						w.addr = bytes.Repeat([]byte{0xcb}, al)
					}
					if extra == 1 {
						w.decoy = []byte{1, 2, 3}
						w.respBytes = []byte{0x08, 0x01}
						w.sig = []byte("sig")
					}
					out = append(out, w)
				}
			}
		}
	}
	return out
}

func (w wrapperShape) build(p *pb.ClientToStation, r *pb.RegistrationResponse) *pb.C2SWrapper {
	return &pb.C2SWrapper{SharedSecret: w.secret, RegistrationPayload: p, RegistrationAddress: w.addr, DecoyAddress: w.decoy, RegistrationSource: w.source,
		RegistrationResponse: r, RegRespBytes: w.respBytes, RegRespSignature: w.sig}
}

func smallStrings(alpha []byte, maxLen int) [][]byte {
	out := [][]byte{{}}
	cur := [][]byte{{}}
	for l := 1; l <= maxLen; l++ {
		var next [][]byte
		for _, s := range cur {
			for _, b := range alpha {
				next = append(next, append(append([]byte{}, s...), b))
			}
		}
		out = append(out, next...)
		cur = next
	}
	return out
}

func mutations(valid []byte) [][]byte {
	var out [][]byte
	for i := 0; i <= len(valid); i++ {
		out = append(out, valid[:i])
	}
	for i := range valid {
		for _, x := range []byte{0x00, 0x80, 0xff} {
			m := append([]byte{}, valid...)
			m[i] = x
			out = append(out, m)
		}
	}
	return out
}

// ---- entry points -----------------------------------------------------------------------------

func zmq(e *venum.E, a *vh.Args) {
	vnet.ResolveHook = func(network, host string) (*net.IPAddr, error) {
		return &net.IPAddr{IP: net.ParseIP("93.184.216.34")}, nil
	}
	newRM := func() *lib.RegistrationManager {
		rm := vfix.Manager(&lib.RegConfig{EnableIPv4: true, EnableIPv6: true, CovertBlocklistSubnets: []string{"10.0.0.0/8"}}, sel, &vfix.Tester{}, vfix.AllWrapping, nil)
		var anns []lib.VerifDetectorMsg
		rm.VerifCaptureDetector(&anns)
		return rm
	}
	rm := newRM()
	ps := payloads(a.Thorough())
	rs := responses()
	ws := wrapperShapes()
	n := 0
	feed := func(id string, b []byte) {
		n++
		if n%20000 == 0 {
			rm = newRM() // keep the registry small
		}
		guard(e, "zmq-ingest", id, func() {
			regs, err := rm.VerifParseRegMessage(b)
			if err != nil {
				return
			}
			e.Nontrivial("zmq:" + id)
			for _, r := range regs {
				if r != nil {
					rm.VerifIngest(r)
				}
			}
		})
	}
	idx := 0
	for wi, w := range ws {
		for pi, p := range ps {
			// responses are crossed with every 7th payload (and all payloads for the nil response)
			rset := rs[:1]
			stride := 29
			if fullAlphabet {
				stride = 7
			}
			if pi%stride == 0 {
				rset = rs
			}
			for ri, r := range rset {
				idx++
				if idx%a.ShardN != a.ShardI {
					continue
				}
				if !e.Case() {
					return
				}
				b, err := proto.Marshal(w.build(p, r))
				if err != nil {
					continue
				}
				feed(fmt.Sprintf("wrapper=%d;payload=%d;response=%d", wi, pi, ri), b)
			}
		}
	}
	if a.ShardI == 0 {
		for i, s := range smallStrings([]byte{0x00, 0x08, 0x0a, 0x12, 0x1a, 0x7f, 0x80, 0xff}, 3) {
			e.Case()
			feed(fmt.Sprintf("raw=%x#%d", s, i), s)
		}
		valid := []*pb.C2SWrapper{ws[len(ws)/2].build(ps[len(ps)/2], rs[len(rs)/2]), ws[len(ws)-1].build(ps[len(ps)-1], rs[len(rs)-1]), ws[len(ws)/3].build(ps[333], nil)}
		for vi, v := range valid {
			b, _ := proto.Marshal(v)
			for mi, m := range mutations(b) {
				e.Case()
				feed(fmt.Sprintf("mutation=%d/%d", vi, mi), m)
			}
		}
	}
}

func httpEntry(e *venum.E, a *vh.Args) {
	proc := regprocessor.VerifNewProcessor(sel)
	ps := payloads(false)
	ws := wrapperShapes()
	rs := responses()
	var bodies [][]byte
	for i := 0; i < len(ps); i += 37 {
		for j := 0; j < len(ws); j += 29 {
			b, _ := proto.Marshal(ws[j].build(ps[i], rs[(i+j)%len(rs)]))
			bodies = append(bodies, b)
		}
	}
	bodies = append(bodies, nil, []byte{}, bytes.Repeat([]byte{0xff}, 40), bytes.Repeat([]byte{0x0a}, 33))
	for _, w := range []wrapperShape{ws[len(ws)/2], ws[3]} {
		b, _ := proto.Marshal(w.build(nil, nil)) // no registration_payload
		bodies = append(bodies, b, append(b, bytes.Repeat([]byte{0}, 40)...))
	}
	long, _ := proto.Marshal(&pb.C2SWrapper{SharedSecret: bytes.Repeat([]byte{1}, 32)})
	bodies = append(bodies, long)
	// well-formed registrations for each combination of the address-family flags (the registrar branches on them)
	for _, fam := range [][2]bool{{true, true}, {true, false}, {false, true}, {false, false}} {
		for _, tt := range []pb.TransportType{pb.TransportType_Min, pb.TransportType_Prefix} {
			b, _ := proto.Marshal(vfix.Msg{Secret: vfix.Secret(21), Transport: tt, V4: fam[0], V6: fam[1], Gen: 1, LibVer: 4, Covert: "93.184.216.34:443"}.Wrapper())
			bodies = append(bodies, b)
		}
	}
	idx := 0
	// registrar configurations: no ClientConf to hand out / one to hand out / the same with subnet overrides enforced
	// (as in the shipped reg_config.toml)
	procOv := regprocessor.VerifNewProcessorOverrides(sel)
	for ci, gen := range []uint32{0, 5, 5} {
		var cc *pb.ClientConf
		if gen > 0 {
			cc = &pb.ClientConf{Generation: proto.Uint32(gen)}
		}
		srv := apiregserver.VerifServer(proc, cc)
		if ci == 2 {
			srv = apiregserver.VerifServer(procOv, cc)
		}
		for _, method := range []string{"GET", "POST", "PUT"} {
			for bi, body := range bodies {
				for _, cl := range []string{"real", "absent", "0", "32", "33", "lying"} {
					// ("<absent>": no header; the shapes behind the first five - present but empty, only separators,
					// leading / trailing separators, several header instances - are crossed with POST + real length only)
					for xi, xff := range []string{"<absent>", "203.0.113.9", "garbage", "203.0.113.9, 10.0.0.1", "2001:db8::9", "", ",", ",,,", " ", ", ,", "203.0.113.9,", ",203.0.113.9", "203.0.113.9\x00two-instances"} {
						if xi >= 5 && (method != "POST" || cl != "real") {
							continue
						}
						for _, ra := range []string{"198.51.100.7:4444", "198.51.100.7", "garbage", "[2001:db8::7]:80", ""} {
							for hi, h := range []func(http.ResponseWriter, *http.Request){srv.VerifRegister, srv.VerifRegisterBidirectional} {
								idx++
								if idx%a.ShardN != a.ShardI {
									continue
								}
								if !e.Case() {
									return
								}
								id := fmt.Sprintf("handler=%d;gen=%d;overrides=%v;method=%s;body=%d;cl=%s;xff=%q;remote=%q", hi, gen, ci == 2, method, bi, cl, xff, ra)
								req, _ := http.NewRequest(method, "http://registrar/register", bytes.NewReader(body))
								switch cl {
								case "absent":
									req.ContentLength = -1
								case "0":
									req.ContentLength = 0
								case "32":
									req.ContentLength = 32
								case "33":
									req.ContentLength = 33
								case "lying":
									req.ContentLength = int64(len(body)) + 60
								}
								if xff != "<absent>" {
									if i := strings.IndexByte(xff, 0); i >= 0 {
										req.Header["X-Forwarded-For"] = []string{xff[:i], ""} // two header lines, the last one empty
									} else {
										req.Header["X-Forwarded-For"] = []string{xff}
									}
								}
								req.RemoteAddr = ra
								rec := httptest.NewRecorder()
								guard(e, "http", id, func() { h(rec, req) })
								if rec.Code >= 200 && rec.Code < 300 {
									e.Nontrivial("http:" + id)
								}
							}
						}
					}
				}
			}
		}
	}
}

// onePacket is a PacketConn that delivers one datagram and then ends the server loop.
type onePacket struct {
	data []byte
	done bool
	sent [][]byte
}

func (p *onePacket) ReadFrom(b []byte) (int, net.Addr, error) {
	if p.done {
		return 0, nil, io.EOF
	}
	p.done = true
	return copy(b, p.data), &net.UDPAddr{IP: net.IPv4(203, 0, 113, 5), Port: 5353}, nil
}
func (p *onePacket) WriteTo(b []byte, _ net.Addr) (int, error) {
	p.sent = append(p.sent, append([]byte{}, b...))
	return len(b), nil
}
func (p *onePacket) Close() error                     { return nil }
func (p *onePacket) LocalAddr() net.Addr              { return &net.UDPAddr{} }
func (p *onePacket) SetDeadline(time.Time) error      { return nil }
func (p *onePacket) SetReadDeadline(time.Time) error  { return nil }
func (p *onePacket) SetWriteDeadline(time.Time) error { return nil }

var respPriv, _ = encryption.GeneratePrivkey()

func respPC(pc net.PacketConn) *responder.Responder {
	r, err := responder.VerifNew("t.example.com", respPriv, pc)
	if err != nil {
		vh.Fatal("%v", err)
	}
	return r
}

func dnsEntry(e *venum.E, a *vh.Args) {
	vsched.InlineGo = true // rewritten go statements (the responder's per-datagram goroutine) run synchronously
	// wire-format parser: headers x bodies built from a token alphabet, pointer chains, small strings
	// (the last two tokens are EDNS OPT pseudo-records, version 0 and version 1)
	// (the first two tokens are TXT questions for the responder's own domain: bare, and with one base32 data label)
	dom := []byte{0x01, 't', 0x07, 'e', 'x', 'a', 'm', 'p', 'l', 'e', 0x03, 'c', 'o', 'm', 0x00, 0x00, 0x10, 0x00, 0x01}
	tokens := [][]byte{dom, append([]byte{0x05, 'm', 'f', 'r', 'g', 'g'}, dom...), {0x00, 0x00, 0x29, 0x10, 0x00, 0x00, 0x00, 0x00, 0x00, 0x00, 0x00}, {0x00, 0x00, 0x29, 0x10, 0x00, 0x00, 0x01, 0x00, 0x00, 0x00, 0x00}, {0x00}, {0x01, 'a'}, append([]byte{0x3f}, bytes.Repeat([]byte{'b'}, 63)...), {0x40, 'x'}, {0x80}, {0xc0, 0x0c}, {0xc0, 0x00}, {0xc0, 0xff}, {0xc0, 0x0e}, {0x00, 0x10, 0x00, 0x01}, {0x00, 0x00, 0x00, 0x3c, 0x00, 0x02, 0x01, 'z'}, {0x00, 0x00, 0x00, 0x3c, 0xff, 0xff}}
	var bodies [][]byte
	var rec func(cur []byte, depth int)
	rec = func(cur []byte, depth int) {
		bodies = append(bodies, cur)
		if depth == 4 {
			return
		}
		for _, t := range tokens {
			rec(append(append([]byte{}, cur...), t...), depth+1)
		}
	}
	maxd := 3
	_ = maxd
	rec(nil, 1)
	for n := 0; n <= 12; n++ { // pointer chains of length n, ending in a label / in itself
		var b []byte
		for i := 0; i < n; i++ {
			b = append(b, 0xc0, byte(12+2*(i+1)))
		}
		bodies = append(bodies, append(append([]byte{}, b...), 0x01, 'a', 0x00, 0x00, 0x10, 0x00, 0x01))
		bodies = append(bodies, append(append([]byte{}, b...), 0xc0, 12))
	}
	priv, _ := encryption.GeneratePrivkey()
	resp, err := responder.VerifNew("t.example.com", priv, nil)
	if err != nil {
		vh.Fatal("%v", err)
	}
	idx := 0
	for _, q := range []uint16{0, 1, 2, 65535} {
		for _, an := range []uint16{0, 1, 65535} {
			for _, ns := range []uint16{0, 1} {
				for _, ar := range []uint16{0, 1, 2} {
					for _, flags := range []uint16{0x0100, 0x8000, 0x7800} {
						hdr := []byte{0x12, 0x34, byte(flags >> 8), byte(flags), byte(q >> 8), byte(q), byte(an >> 8), byte(an), byte(ns >> 8), byte(ns), byte(ar >> 8), byte(ar)}
						for bi, body := range bodies {
							idx++
							if idx%a.ShardN != a.ShardI {
								continue
							}
							if !e.Case() {
								return
							}
							id := fmt.Sprintf("dns;q=%d;an=%d;ns=%d;ar=%d;flags=%x;body=%d", q, an, ns, ar, flags, bi)
							msg := append(append([]byte{}, hdr...), body...)
							guard(e, "dns-parse", id, func() {
								m, err := dns.MessageFromWireFormat(msg)
								if err != nil {
									return
								}
								e.Nontrivial("dns:" + id)
								r, payload := resp.VerifResponseFor(&m)
								if r != nil {
									_, _ = r.WireFormat()
								}
								// the whole per-datagram path of the real server loop (parse, respond, build the UDP answer, send)
								pc := &onePacket{data: msg}
								_ = respPC(pc).RecvAndRespond(func(b []byte) ([]byte, error) { return b, nil })
								if payload != nil {
									if p2, err := msgformat.RemoveRequestFormat(payload); err == nil {
										_, _ = resp.VerifCraftResponse(p2, func(b []byte) ([]byte, error) { return b, nil })
									}
								}
							})
						}
					}
				}
			}
		}
	}
	if a.ShardI == 0 {
		alpha := []byte{0x00, 0x01, 0x02, 0x3f, 0x40, 0xc0, 0xfe, 0xff}
		for _, s := range smallStrings(alpha, 4) {
			e.Case()
			id := fmt.Sprintf("small=%x", s)
			guard(e, "dns-small", id, func() {
				_, _ = dns.MessageFromWireFormat(s)
				_, _ = dns.DecodeRDataTXT(s)
				_, _ = msgformat.RemoveRequestFormat(s)
				_, _ = msgformat.RemoveResponseFormat(s)
				_, _ = dns.ParseName(string(s))
				_, _ = resp.VerifCraftResponse(s, func(b []byte) ([]byte, error) { return b, nil })
			})
		}
		for _, n := range []int{0, 1, 31, 32, 47, 48, 49, 64, 300} {
			for _, fill := range []byte{0x00, 0xff, 0x5a} {
				e.Case()
				guard(e, "noise-payload", fmt.Sprintf("len=%d fill=%x", n, fill), func() {
					_, _ = resp.VerifCraftResponse(bytes.Repeat([]byte{fill}, n), func(b []byte) ([]byte, error) { return b, nil })
				})
			}
		}
	}
	// DNS registration server request processing
	proc := regprocessor.VerifNewProcessor(sel)
	ps := payloads(false)
	ws := wrapperShapes()
	rs := responses()
	for _, gen := range []uint32{0, 5} {
		srv := dnsregserver.VerifServer(proc, gen)
		for i := 0; i < len(ps); i += 5 {
			for j := 0; j < len(ws); j += 7 {
				idx++
				if idx%a.ShardN != a.ShardI {
					continue
				}
				if !e.Case() {
					return
				}
				b, _ := proto.Marshal(ws[j].build(ps[i], rs[(i+j)%len(rs)]))
				id := fmt.Sprintf("dnsreg;gen=%d;payload=%d;wrapper=%d", gen, i, j)
				guard(e, "dns-registration", id, func() {
					out, err := srv.VerifProcessRequest(b)
					if err == nil && out != nil {
						e.Nontrivial("dnsreg:" + id)
					}
				})
			}
		}
		if a.ShardI == 0 {
			for _, s := range smallStrings([]byte{0x00, 0x08, 0x0a, 0x1a, 0x7f, 0x80, 0xff}, 3) {
				e.Case()
				guard(e, "dns-registration", fmt.Sprintf("raw=%x", s), func() { _, _ = srv.VerifProcessRequest(s) })
			}
		}
	}
}

func paramsEntry(e *venum.E, a *vh.Args) {
	if a.ShardI != 0 {
		return
	}
	pt, _ := prefix.Default([][32]byte{vfix.StationPriv})
	type st interface {
		ParseParams(uint, *anypb.Any) (any, error)
		GetDstPort(uint, []byte, any) (uint16, error)
		ParamStrings(any) []string
		Name() string
	}
	sts := []st{min.Transport{}, obfs4.Transport{}, pt, prefix.DefaultSet(), dtlst.Transport{}}
	for _, t := range sts {
		for lv := uint(0); lv <= 5; lv++ {
			for ai, an := range anyAlphabet() {
				e.Case()
				id := fmt.Sprintf("params;transport=%s;libver=%d;any=%d", t.Name(), lv, ai)
				guard(e, "parse-params", id, func() {
					p, err := t.ParseParams(lv, an)
					if err != nil {
						return
					}
					e.Nontrivial(id)
					_, _ = t.GetDstPort(lv, bytes.Repeat([]byte{7}, 16), p)
					_ = t.ParamStrings(p)
				})
			}
		}
	}
	// client side: parameters coming back from the registrar
	for ai, an := range anyAlphabet() {
		for ci, mk := range []func() interface {
			SetSessionParams(*anypb.Any, ...bool) error
			GetDstPort([]byte) (uint16, error)
		}{func() interface {
			SetSessionParams(*anypb.Any, ...bool) error
			GetDstPort([]byte) (uint16, error)
		} {
			return &min.ClientTransport{}
		}, func() interface {
			SetSessionParams(*anypb.Any, ...bool) error
			GetDstPort([]byte) (uint16, error)
		} {
			return &obfs4.ClientTransport{}
		}, func() interface {
			SetSessionParams(*anypb.Any, ...bool) error
			GetDstPort([]byte) (uint16, error)
		} {
			c := &prefix.ClientTransport{}
			_ = c.SetParams(nil)
			return c
		}, func() interface {
			SetSessionParams(*anypb.Any, ...bool) error
			GetDstPort([]byte) (uint16, error)
		} {
			return &dtlst.ClientTransport{}
		}} {
			for _, unchecked := range []bool{false, true} {
				e.Case()
				id := fmt.Sprintf("client-params;client=%d;any=%d;unchecked=%v", ci, ai, unchecked)
				guard(e, "client-session-params", id, func() {
					c := mk()
					if err := c.SetSessionParams(an, unchecked); err == nil {
						e.Nontrivial(id)
					}
					_, _ = c.GetDstPort(bytes.Repeat([]byte{7}, 16))
				})
			}
		}
	}
}

type failDNAT struct{ calls *int }

func (d failDNAT) AddEntry(clientAddr *net.IP, clientPort uint16, phantomIP *net.IP, phantomPort uint16) error {
	*d.calls++
	_ = clientAddr.String() + phantomIP.String()
	return errors.New("dnat: scripted failure")
}

// connectEntry: a DTLS registration reaches the connecting transport's Connect (started by the ingest pipeline in a
// goroutine of its own, where a panic takes the station down). Connect is entered for every shape of the
// client-supplied DTLS parameters x phantom family with an already cancelled context and a DNAT that refuses, so that
// everything it does with the registration's bytes before touching the network runs, synchronously (its go statements
// are rewritten and run inline), and nothing waits.
func connectEntry(e *venum.E, a *vh.Args) {
	if a.ShardI != 0 {
		return
	}
	vsched.InlineGo = true
	vnet.ResolveHook = func(network, host string) (*net.IPAddr, error) {
		return &net.IPAddr{IP: net.ParseIP("93.184.216.34")}, nil
	}
	dnatCalls := 0
	tp := dtlst.VerifTransport(failDNAT{&dnatCalls}, func(ctx context.Context, _ *pdtls.Config) (net.Conn, error) {
		<-ctx.Done()
		return nil, ctx.Err()
	})
	addrs := []*pb.Addr{nil, {}, {IP: []byte{198, 51, 100, 9}, Port: proto.Uint32(4000)}, {IP: net.ParseIP("2001:db8::9"), Port: proto.Uint32(70000)},
		{IP: []byte{1, 2, 3, 4, 5}}, {Port: proto.Uint32(4294967295)}, {IP: []byte{}, Port: proto.Uint32(0)}}
	var plist []proto.Message
	plist = append(plist, nil)
	for _, a4 := range addrs {
		for _, a6 := range addrs {
			for _, un := range []*bool{nil, proto.Bool(true)} {
				plist = append(plist, &pb.DTLSTransportParams{SrcAddr4: a4, SrcAddr6: a6, Unordered: un, RandomizeDstPort: proto.Bool(a4 == nil)})
			}
		}
	}
	plist = append(plist, &pb.GenericTransportParams{RandomizeDstPort: proto.Bool(true)})
	cctx, cancel := context.WithCancel(context.Background())
	cancel()
	for pi, pm := range plist {
		for _, fam := range []string{"v4", "v6", "both"} {
			for _, lv := range []uint32{0, 4} {
				if !e.Case() {
					return
				}
				id := fmt.Sprintf("connect;params=%d;family=%s;libver=%d", pi, fam, lv)
				rm := vfix.Manager(&lib.RegConfig{EnableIPv4: true, EnableIPv6: true}, sel, &vfix.Tester{}, vfix.Transports{Min: true}, nil)
				_ = rm.AddTransport(pb.TransportType_DTLS, tp)
				var anns []lib.VerifDetectorMsg
				rm.VerifCaptureDetector(&anns)
				m := vfix.Msg{Secret: vfix.Secret(40 + pi%3), Transport: pb.TransportType_DTLS, Params: pm, V4: fam != "v6", V6: fam != "v4", Gen: 1, LibVer: lv, Covert: "93.184.216.34:443", Source: pb.RegistrationSource_API, Addr: []byte{203, 0, 113, 7}}
				guard(e, "dtls-connect", id, func() {
					regs, err := rm.VerifParseRegMessage(m.Bytes())
					if err != nil {
						return
					}
					for _, r := range regs {
						if r == nil {
							continue
						}
						before := dnatCalls
						_, _ = tp.Connect(cctx, r)
						if dnatCalls > before {
							e.Nontrivial(id)
						}
					}
				})
			}
		}
	}
}

func wrapEntry(e *venum.E, a *vh.Args) {
	if a.ShardI != 1%a.ShardN {
		return
	}
	rm := vfix.Manager(nil, sel, &vfix.Tester{}, vfix.AllWrapping, nil)
	var anns []lib.VerifDetectorMsg
	rm.VerifCaptureDetector(&anns)
	phantom := net.ParseIP("192.122.190.77").To4()
	mk := func(s int, t pb.TransportType, p proto.Message) {
		m := vfix.Msg{Secret: vfix.Secret(s), Transport: t, Params: p, V4: true, Gen: 1, LibVer: 4, Covert: "93.184.216.34:443", Source: pb.RegistrationSource_API, Addr: []byte{203, 0, 113, 77}}
		w := m.Wrapper()
		w.RegistrationResponse = &pb.RegistrationResponse{Ipv4Addr: proto.Uint32(0xC07ABE4D)}
		reg, err := rm.NewRegistrationC2SWrapper(w, false)
		if err != nil {
			vh.Fatal("%v", err)
		}
		rm.AddRegistration(reg)
	}
	mk(1, pb.TransportType_Min, nil)
	mk(2, pb.TransportType_Prefix, &pb.PrefixTransportParams{PrefixId: proto.Int32(1)})
	mk(3, pb.TransportType_Prefix, nil) // registration without params
	mk(4, pb.TransportType_Obfs4, nil)
	wts := rm.GetWrappingTransports()
	var keys []int
	for k := range wts {
		keys = append(keys, int(k))
	}
	sort.Ints(keys)
	var inputs [][]byte
	for n := 0; n <= 130; n++ {
		for _, fill := range []byte{0x00, 0xff, 0x16} {
			inputs = append(inputs, bytes.Repeat([]byte{fill}, n))
		}
	}
	for _, n := range []int{4095, 4096, 8191, 8192, 8193} {
		inputs = append(inputs, bytes.Repeat([]byte{0x41}, n))
	}
	inputs = append(inputs, smallStrings([]byte{0x00, 0x05, 0x15, 0x16, 'G', 'P', 'S', 0xff}, 3)...)
	for id := range prefix.DefaultPrefixes {
		sb := prefix.DefaultPrefixes[id].Bytes()
		for n := 0; n <= len(sb); n++ {
			inputs = append(inputs, sb[:n])
		}
		inputs = append(inputs, append(append([]byte{}, sb...), bytes.Repeat([]byte{0}, 64)...))
		// every length from the bare prefix to a few bytes past prefix + tag, for every row of the live table (a row
		// whose length bounds disagree with its offset is only seen at exactly one length)
		for k := 1; k <= 70; k++ {
			inputs = append(inputs, append(append([]byte{}, sb...), bytes.Repeat([]byte{0x5a}, k)...))
		}
	}
	for i, in := range inputs {
		for _, k := range keys {
			e.Case()
			t := wts[pb.TransportType(k)]
			id := fmt.Sprintf("wrap;transport=%s;input=%d(len %d)", t.Name(), i, len(in))
			guard(e, "wrap-connection", id, func() {
				// the buffer holds exactly what arrived in one read: capacity == length, nothing to over-read into
				exact := make([]byte, len(in))
				copy(exact, in)
				_, _, err := t.WrapConnection(bytes.NewBuffer(exact), &vfix.RecConn{}, phantom, rm)
				if err == nil {
					e.Nontrivial(id)
				}
			})
		}
	}
}

func main() {
	a := vh.Parse()
	fullAlphabet = a.Thorough()
	e := venum.New(fmt.Sprintf("%s:shard%d/%d", a.Scenario, a.ShardI, a.ShardN), a)
	switch a.Scenario {
	case "zmq":
		zmq(e, a)
	case "http":
		httpEntry(e, a)
	case "dns":
		dnsEntry(e, a)
	case "misc":
		paramsEntry(e, a)
		wrapEntry(e, a)
		connectEntry(e, a)
	default:
		vh.Fatal("unknown scenario %q", a.Scenario)
	}
	e.Finish()
}
