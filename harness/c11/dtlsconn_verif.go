//go:build verif

package dtls

import (
	"context"
	"net"

	"github.com/refraction-networking/conjure/pkg/core/interfaces"
	"github.com/refraction-networking/conjure/pkg/dtls"
)

// VerifTransport builds the station-side DTLS transport around a scripted DNAT and a scripted listener (the real
// constructor opens a UDP socket and a tun device).
func VerifTransport(dnat interfaces.DNAT, accept func(context.Context, *dtls.Config) (net.Conn, error)) *Transport {
	nop := func(*net.IP) {}
	return &Transport{DNAT: dnat, dtlsListener: verifListener(accept), logDialSuccess: nop, logListenSuccess: nop}
}

type verifListener func(context.Context, *dtls.Config) (net.Conn, error)

func (f verifListener) AcceptWithContext(ctx context.Context, c *dtls.Config) (net.Conn, error) {
	return f(ctx, c)
}
