//go:build verif

package requester

import (
	"net"
	"time"

	"github.com/refraction-networking/conjure/pkg/registrars/dns-registrar/dns"
)

type verifRec struct{ out [][]byte }

func (r *verifRec) Read([]byte) (int, error)         { select {} }
func (r *verifRec) Write(b []byte) (int, error)      { r.out = append(r.out, append([]byte{}, b...)); return len(b), nil }
func (r *verifRec) Close() error                     { return nil }
func (r *verifRec) LocalAddr() net.Addr              { return &net.UDPAddr{} }
func (r *verifRec) RemoteAddr() net.Addr             { return &net.UDPAddr{} }
func (r *verifRec) SetDeadline(time.Time) error      { return nil }
func (r *verifRec) SetReadDeadline(time.Time) error  { return nil }
func (r *verifRec) SetWriteDeadline(time.Time) error { return nil }

// VerifSend runs the real query framing (send) for payload p under domain and
// returns the DNS message bytes written to the transport.
func VerifSend(domain dns.Name, p []byte) ([]byte, error) {
	c := &DNSPacketConn{domain: domain}
	rec := &verifRec{}
	if err := c.send(rec, p); err != nil {
		return nil, err
	}
	if len(rec.out) != 1 {
		return nil, nil
	}
	return rec.out[0], nil
}
