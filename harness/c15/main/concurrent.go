package main

// exchange2: the encrypted request/response exchange with two (three) clients whose queries arrive back to back. The
// responder handles every datagram in a goroutine of its own; here its receive loop and those handlers are threads of
// the controlled scheduler (go statements of responder.go rewritten) and every interleaving of them is explored:
// scheduling points are the spawn, ReadFrom, the registration callback and WriteTo. The query datagrams come from
// real requesters (one per client, each parked in its read); after the exploration each requester is handed the
// response that the first explored execution addressed to it, which closes the round trip on the client side.

import (
	"bytes"
	"context"
	"errors"
	"fmt"
	"net"
	"sort"
	"strings"
	"time"

	"github.com/refraction-networking/conjure/pkg/registrars/dns-registrar/dns"
	"github.com/refraction-networking/conjure/pkg/registrars/dns-registrar/encryption"
	"github.com/refraction-networking/conjure/pkg/registrars/dns-registrar/requester"
	"github.com/refraction-networking/conjure/pkg/registrars/dns-registrar/responder"
	"github.com/refraction-networking/conjure/pkg/zzverif/vh"
	"github.com/refraction-networking/conjure/pkg/zzverif/vsched"
)

type parkedConn struct {
	out chan []byte
	in  chan []byte
}

func (c *parkedConn) Read(p []byte) (int, error) {
	b, ok := <-c.in
	if !ok {
		return 0, net.ErrClosed
	}
	return copy(p, b), nil
}
func (c *parkedConn) Write(p []byte) (int, error) {
	c.out <- append([]byte{}, p...)
	return len(p), nil
}
func (c *parkedConn) Close() error        { return nil }
func (c *parkedConn) LocalAddr() net.Addr { return &net.UDPAddr{} }
func (c *parkedConn) RemoteAddr() net.Addr {
	return &net.UDPAddr{IP: net.IPv4(127, 0, 0, 1), Port: 5353}
}
func (c *parkedConn) SetDeadline(time.Time) error      { return nil }
func (c *parkedConn) SetReadDeadline(time.Time) error  { return nil }
func (c *parkedConn) SetWriteDeadline(time.Time) error { return nil }

type dgram struct {
	b    []byte
	from net.Addr
}

type scriptPC struct {
	in   []dgram
	next int
	out  []dgram
}

var errScriptEnd = errors.New("script end")

func (s *scriptPC) ReadFrom(p []byte) (int, net.Addr, error) {
	vsched.Yield("readfrom")
	if s.next >= len(s.in) {
		return 0, nil, errScriptEnd
	}
	d := s.in[s.next]
	s.next++
	return copy(p, d.b), d.from, nil
}
func (s *scriptPC) WriteTo(p []byte, to net.Addr) (int, error) {
	vsched.Yield("writeto")
	s.out = append(s.out, dgram{append([]byte{}, p...), to})
	return len(p), nil
}
func (s *scriptPC) Close() error                     { return nil }
func (s *scriptPC) LocalAddr() net.Addr              { return &net.UDPAddr{} }
func (s *scriptPC) SetDeadline(time.Time) error      { return nil }
func (s *scriptPC) SetReadDeadline(time.Time) error  { return nil }
func (s *scriptPC) SetWriteDeadline(time.Time) error { return nil }

func partExchange2(a *vh.Args) {
	priv, err := encryption.GeneratePrivkey()
	if err != nil {
		vh.Fatal("%v", err)
	}
	pub := encryption.PubkeyFromPrivkey(priv)
	domain := "t.example.com"
	type scen struct {
		name string
		lens []int // request payload length per client
	}
	scens := []scen{{"two-equal-length", []int{40, 40}}, {"two-different-length", []int{40, 90}}, {"short-then-long", []int{0, 90}}}
	if a.Thorough() {
		scens = append(scens, scen{"three-equal-length", []int{33, 33, 33}}, scen{"three-mixed", []int{10, 90, 10}}, scen{"long-then-short", []int{90, 1}})
	}
	out := &vh.Out{Name: "dns-exchange-concurrent", Exhaustive: true, Extra: map[string]any{}}
	seenKeys := map[string]bool{}
	for _, sc := range scens {
		type client struct {
			want, resp []byte
			conn       *parkedConn
			addr       *net.UDPAddr
			done       chan struct {
				b   []byte
				err error
			}
			query []byte
		}
		var cls []*client
		for i, n := range sc.lens {
			c := &client{want: pat(n, byte(0x31+i)), resp: pat(20+7*i, byte(0x61+i)), conn: &parkedConn{out: make(chan []byte, 4), in: make(chan []byte, 4)},
				addr: &net.UDPAddr{IP: net.IPv4(198, 51, 100, byte(10+i)), Port: 40000 + i}, done: make(chan struct {
					b   []byte
					err error
				}, 1)}
			req, err := requester.NewRequester(&requester.Config{TransportMethod: requester.UDP, Target: "127.0.0.1:5353", BaseDomain: domain, Pubkey: pub,
				DialTransport: func(ctx context.Context, network, addr string) (net.Conn, error) { return c.conn, nil }})
			if err != nil {
				vh.Fatal("requester: %v", err)
			}
			go func() {
				b, err := req.RequestAndRecv(c.want)
				c.done <- struct {
					b   []byte
					err error
				}{b, err}
			}()
			select {
			case c.query = <-c.conn.out:
			case r := <-c.done:
				vh.Fatal("exchange2: client %d returned before sending a query: %v", i, r.err)
			case <-time.After(20 * time.Second):
				vh.Fatal("exchange2: client %d produced no query", i)
			}
			cls = append(cls, c)
		}
		var firstOut []dgram
		mk := func() *vsched.Scenario {
			pc := &scriptPC{}
			for _, c := range cls {
				pc.in = append(pc.in, dgram{c.query, c.addr})
			}
			var got [][]byte
			return &vsched.Scenario{
				Body: func() {
					resp, err := responder.VerifNew(domain, priv, pc)
					if err != nil {
						vh.Fatal("%v", err)
					}
					_ = resp.RecvAndRespond(func(b []byte) ([]byte, error) {
						vsched.Yield("callback")
						got = append(got, append([]byte{}, b...))
						for _, c := range cls {
							if bytes.Equal(b, c.want) {
								return c.resp, nil
							}
						}
						return []byte("unknown request"), nil
					})
				},
				Check: func(x *vsched.Exec) *vsched.Violation {
					if x.Verdict != vsched.VOK {
						return &vsched.Violation{Key: x.Verdict, What: x.Detail}
					}
					if firstOut == nil {
						firstOut = append([]dgram{}, pc.out...)
					}
					var gs, ws []string
					for _, g := range got {
						gs = append(gs, fmt.Sprintf("%x", g))
					}
					for _, c := range cls {
						ws = append(ws, fmt.Sprintf("%x", c.want))
					}
					sort.Strings(gs)
					sort.Strings(ws)
					if strings.Join(gs, ",") != strings.Join(ws, ",") {
						return &vsched.Violation{Key: "concurrent-requests-mixed-up", What: fmt.Sprintf("the registration callback was given %d payloads %v, the clients sent %v", len(gs), short(gs), short(ws))}
					}
					if len(pc.out) != len(cls) {
						return &vsched.Violation{Key: "concurrent-response-count", What: fmt.Sprintf("%d responses for %d queries", len(pc.out), len(cls))}
					}
					for _, c := range cls {
						q, _ := dns.MessageFromWireFormat(c.query)
						n := 0
						for _, o := range pc.out {
							if o.from.String() != c.addr.String() {
								continue
							}
							n++
							r, err := dns.MessageFromWireFormat(o.b)
							if err != nil || r.ID != q.ID || len(r.Question) != 1 || len(q.Question) != 1 || r.Question[0].Name.String() != q.Question[0].Name.String() {
								return &vsched.Violation{Key: "concurrent-response-for-another-query", What: fmt.Sprintf("the response sent to %v does not answer that client's query (id %d vs %d)", c.addr, r.ID, q.ID)}
							}
						}
						if n != 1 {
							return &vsched.Violation{Key: "concurrent-response-count", What: fmt.Sprintf("%d responses addressed to %v", n, c.addr)}
						}
					}
					return nil
				},
				Outcome: func(x *vsched.Exec) string {
					var o []string
					for _, d := range pc.out {
						o = append(o, d.from.String())
					}
					return x.Verdict + " " + strings.Join(o, ",")
				},
			}
		}
		name := "exchange2:" + sc.name
		if a.Replay != "" {
			rp := vh.LoadReplay(a.Replay)
			if rp["scenario"] != name {
				continue
			}
			x, v := vsched.RunOnce(vh.Ints(rp["choices"]), 0, mk)
			for _, l := range x.Trace() {
				fmt.Println(l)
			}
			if v != nil {
				out.Violations = append(out.Violations, &vh.Violation{Key: v.Key, What: v.What})
			}
			out.Evaluations++
		} else {
			vh.SelfCheck(name, mk)
			r := vsched.Explore(vsched.Config{Name: name, PreemptBound: -1, EnvBound: -1, Deadline: a.Deadline()}, mk)
			o := vh.FromSched(r)
			out.Evaluations += o.Evaluations
			out.Transitions += o.Transitions
			out.Traces += o.Traces
			out.Nontrivial += o.Nontrivial
			out.Outcomes += o.Outcomes
			out.Exhaustive = out.Exhaustive && o.Exhaustive
			for _, v := range o.Violations {
				if !seenKeys[v.Key] {
					seenKeys[v.Key] = true
					out.Violations = append(out.Violations, v)
				}
			}
		}
		// client side of the round trip: each requester gets the datagram the first execution addressed to it
		for i, c := range cls {
			for _, d := range firstOut {
				if d.from.String() == c.addr.String() {
					c.conn.in <- d.b
				}
			}
			select {
			case r := <-c.done:
				out.Evaluations++
				if r.err != nil || !bytes.Equal(r.b, c.resp) {
					k := "concurrent-client-result"
					if !seenKeys[k] {
						seenKeys[k] = true
						out.Violations = append(out.Violations, &vh.Violation{Key: k, What: fmt.Sprintf("%s: client %d got %d bytes, err=%v; the responder's callback answered %d bytes", name, i, len(r.b), r.err, len(c.resp)), Replay: map[string]any{"scenario": name, "choices": []int{}}})
					}
				}
			case <-time.After(20 * time.Second):
				// the datagram addressed to it is not something this client accepts: it keeps waiting (left parked)
				out.Evaluations++
				k := "concurrent-client-result"
				if !seenKeys[k] {
					seenKeys[k] = true
					out.Violations = append(out.Violations, &vh.Violation{Key: k, What: fmt.Sprintf("%s: client %d did not accept the response addressed to it", name, i), Replay: map[string]any{"scenario": name, "choices": []int{}}})
				}
			}
		}
	}
	vh.Emit(out)
}

func short(s []string) []string {
	var o []string
	for _, x := range s {
		if len(x) > 12 {
			x = x[:12] + ".."
		}
		o = append(o, x)
	}
	return o
}
