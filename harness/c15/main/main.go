//go:build verif

package main

// C15: every encoder in the registration channels is inverted by its decoder,
// enumerated over every value of each length dimension.

import (
	"bytes"
	"context"
	"crypto/sha256"
	"fmt"
	"net"
	"strings"
	"sync"
	"time"

	"github.com/refraction-networking/conjure/pkg/registrars/dns-registrar/dns"
	"github.com/refraction-networking/conjure/pkg/registrars/dns-registrar/encryption"
	"github.com/refraction-networking/conjure/pkg/registrars/dns-registrar/msgformat"
	"github.com/refraction-networking/conjure/pkg/registrars/dns-registrar/requester"
	"github.com/refraction-networking/conjure/pkg/registrars/dns-registrar/responder"
	"github.com/refraction-networking/conjure/pkg/transports"
	"github.com/refraction-networking/conjure/pkg/zzverif/venum"
	"github.com/refraction-networking/conjure/pkg/zzverif/vh"
	pb "github.com/refraction-networking/conjure/proto"
	"golang.org/x/crypto/curve25519"
	"google.golang.org/protobuf/proto"
	"google.golang.org/protobuf/reflect/protoreflect"
	"google.golang.org/protobuf/types/known/anypb"
)

func pat(n int, salt byte) []byte {
	b := make([]byte, n)
	for i := range b {
		b[i] = byte(i*7+3) ^ salt
	}
	return b
}

func keypair(i int) (priv [32]byte, pub []byte) {
	h := sha256.Sum256([]byte(fmt.Sprintf("c15 key %d", i)))
	priv = h
	switch i {
	case 1:
		priv[31] |= 0xc0 // high bits set (before clamping)
		priv[0] |= 7
	case 2:
		for j := range priv {
			priv[j] = 0xff
		}
	}
	p, err := curve25519.X25519(priv[:], curve25519.Basepoint)
	if err != nil {
		panic(err)
	}
	return priv, p
}

func partObf(a *vh.Args) {
	e := venum.New("obfuscators", a)
	obfs := []struct {
		name  string
		o     transports.Obfuscator
		keyed bool
		rnd   bool
		repr  bool
	}{{"GCM", transports.GCMObfuscator{}, true, true, true}, {"CTR", transports.CTRObfuscator{}, true, true, true}, {"XOR", transports.XORObfuscator{}, false, true, false}, {"Nil", transports.NilObfuscator{}, false, false, false}}
	for _, ob := range obfs {
		for k := 0; k < 4; k++ {
			priv, pub := keypair(k)
			wpriv, _ := keypair((k + 1) % 4)
			for n := 0; n <= 130; n++ {
				if !e.Case() {
					goto done
				}
				id := fmt.Sprintf("obf=%s;key=%d;len=%d", ob.name, k, n)
				tag := pat(n, byte(k))
				var enc, dec, sent []byte
				var err, derr error
				if p, msg, site := venum.Guard(func() {
					enc, err = ob.o.Obfuscate(tag, pub)
					if err == nil {
						sent = append([]byte{}, enc...)
						dec, derr = ob.o.TryReveal(enc, priv)
					}
				}); p {
					e.Violation("panic:"+site, msg+" "+id, map[string]any{"case": id})
					continue
				}
				if err != nil {
					continue // encoder rejected: allowed
				}
				e.Nontrivial(id)
				if derr != nil || !bytes.Equal(dec, tag) {
					cls := "len>0"
					if n == 0 {
						cls = "len0"
					}
					e.Violation("obfuscator-roundtrip:"+ob.name+":"+cls, fmt.Sprintf("%s: reveal(obfuscate(tag)) = %x, %v; want the %d-byte tag", id, dec, derr, n), map[string]any{"case": id})
					continue
				}
				// a station tries each of its keys on the same received bytes (key rotation), and more than one
				// transport looks at them: revealing must leave the bytes as they were received
				if !bytes.Equal(enc, sent) {
					e.Violation("reveal-alters-received-bytes:"+ob.name, fmt.Sprintf("%s: after a successful reveal the encoded tag differs from what was received", id), map[string]any{"case": id})
					enc = append([]byte{}, sent...)
				}
				if ob.keyed && n >= 8 {
					wd, werr := ob.o.TryReveal(enc, wpriv)
					if d3, e3 := ob.o.TryReveal(enc, priv); !bytes.Equal(enc, sent) || e3 != nil || !bytes.Equal(d3, tag) {
						e.Violation("reveal-after-wrong-key:"+ob.name, fmt.Sprintf("%s: after an attempt with another key the right key reveals %x, %v (bytes unchanged: %v)", id, d3, e3, bytes.Equal(enc, sent)), map[string]any{"case": id})
						enc = append([]byte{}, sent...)
					}
					if werr == nil && bytes.Equal(wd, tag) {
						e.Violation("wrong-key-reveals:"+ob.name, id, map[string]any{"case": id})
					}
					if ob.name == "GCM" && werr == nil {
						e.Violation("gcm-wrong-key-no-error", id, map[string]any{"case": id})
					}
				}
				if ob.rnd && (n > 0 || ob.keyed) {
					enc2, err2 := ob.o.Obfuscate(tag, pub)
					if err2 == nil && bytes.Equal(enc, enc2) {
						e.Violation("encoding-not-fresh:"+ob.name, id, map[string]any{"case": id})
					}
				}
				if ob.repr {
					for hb := 0; hb < 4; hb++ {
						m := append([]byte{}, enc...)
						m[31] = (m[31] & 0x3f) | byte(hb<<6)
						d2, e2 := ob.o.TryReveal(m, priv)
						if e2 != nil || !bytes.Equal(d2, tag) {
							e.Violation("representative-high-bits:"+ob.name, fmt.Sprintf("%s highbits=%d", id, hb), map[string]any{"case": id})
						}
					}
				}
				if n == 64 && k == 0 {
					e.Sample(map[string]any{"case": id, "encoded_len": len(enc)})
				}
			}
		}
	}
done:
	e.Finish()
}

func partMsgformat(a *vh.Args) {
	e := venum.New("msgformat", a)
	var lens []int
	for i := 0; i <= 300; i++ {
		lens = append(lens, i)
	}
	lens = append(lens, 65534, 65535, 65536, 70000)
	for _, n := range lens {
		for _, f := range []struct {
			name string
			add  func([]byte) ([]byte, error)
			rem  func([]byte) ([]byte, error)
		}{{"request", msgformat.AddRequestFormat, msgformat.RemoveRequestFormat}, {"response", msgformat.AddResponseFormat, msgformat.RemoveResponseFormat}} {
			e.Case()
			id := fmt.Sprintf("format=%s;len=%d", f.name, n)
			p := pat(n, 0x5a)
			enc, err := f.add(p)
			if err != nil {
				continue
			}
			e.Nontrivial(id)
			// trailing bytes (as in a fixed-size receive buffer) must not matter
			dec, derr := f.rem(append(append([]byte{}, enc...), 0, 0, 0))
			if derr != nil || !bytes.Equal(dec, p) {
				e.Violation("length-prefix-truncation:"+f.name, fmt.Sprintf("%s: encoder accepted %d bytes, decoder returned %d bytes (err %v)", id, n, len(dec), derr), map[string]any{"case": id})
			}
			if n == 200 {
				e.Sample(map[string]any{"case": id, "encoded_len": len(enc)})
			}
		}
	}
	e.Finish()
}

func nameEq(x, y dns.Name) bool {
	if len(x) != len(y) {
		return false
	}
	for i := range x {
		if !bytes.Equal(x[i], y[i]) {
			return false
		}
	}
	return true
}

func rrEq(x, y []dns.RR) bool {
	if len(x) != len(y) {
		return false
	}
	for i := range x {
		if !nameEq(x[i].Name, y[i].Name) || x[i].Type != y[i].Type || x[i].Class != y[i].Class || x[i].TTL != y[i].TTL || !bytes.Equal(x[i].Data, y[i].Data) {
			return false
		}
	}
	return true
}

func msgEq(x, y *dns.Message) bool {
	if x.ID != y.ID || x.Flags != y.Flags || len(x.Question) != len(y.Question) {
		return false
	}
	for i := range x.Question {
		if !nameEq(x.Question[i].Name, y.Question[i].Name) || x.Question[i].Type != y.Question[i].Type || x.Question[i].Class != y.Question[i].Class {
			return false
		}
	}
	return rrEq(x.Answer, y.Answer) && rrEq(x.Authority, y.Authority) && rrEq(x.Additional, y.Additional)
}

func roundtrip(e *venum.E, id string, m *dns.Message, key string) {
	var buf []byte
	var err error
	var back dns.Message
	var derr error
	if p, msg, site := venum.Guard(func() {
		buf, err = m.WireFormat()
		if err == nil {
			back, derr = dns.MessageFromWireFormat(buf)
		}
	}); p {
		e.Violation("panic:"+site, msg+" "+id, map[string]any{"case": id})
		return
	}
	if err != nil {
		return
	}
	e.Nontrivial(id)
	if derr != nil || !msgEq(m, &back) {
		e.Violation(key, fmt.Sprintf("%s: decode(encode(m)) != m (err %v)", id, derr), map[string]any{"case": id})
	}
}

func partNames(a *vh.Args) {
	e := venum.New("dns-names-txt", a)
	// names whose encoded length takes every value 240..262
	for L := 240; L <= 262; L++ {
		for _, first := range []int{1, 2, 62, 63, 64} {
			e.Case()
			id := fmt.Sprintf("name;encoded_len=%d;first_label=%d", L, first)
			rest := L - 1 - (first + 1)
			labels := [][]byte{pat(first, 'a')}
			for rest > 0 {
				n := rest - 1
				if n > 63 {
					n = 63
				}
				if rest-(n+1) == 1 { // would leave room for a zero-length label
					n--
				}
				if n <= 0 {
					break
				}
				labels = append(labels, pat(n, byte(len(labels))))
				rest -= n + 1
			}
			if rest != 0 {
				continue
			}
			for i := range labels {
				for j := range labels[i] {
					labels[i][j] = 'a' + labels[i][j]%26
				}
			}
			name, err := dns.NewName(labels)
			ok := L <= 255 && first <= 63
			if (err == nil) != ok {
				e.Violation("name-limit", fmt.Sprintf("%s: NewName err=%v, representable=%v", id, err, ok), map[string]any{"case": id})
				continue
			}
			if err != nil {
				continue
			}
			roundtrip(e, id, &dns.Message{ID: 7, Question: []dns.Question{{Name: name, Type: 16, Class: 1}}, Answer: []dns.RR{{Name: name, Type: 16, Class: 1, TTL: 60, Data: []byte{1, 2}}}}, "name-roundtrip")
		}
	}
	// TXT RDATA for every length
	var lens []int
	for i := 0; i <= 520; i++ {
		lens = append(lens, i)
	}
	lens = append(lens, 65535, 65536)
	for _, n := range lens {
		e.Case()
		id := fmt.Sprintf("txt;len=%d", n)
		p := pat(n, 0x33)
		dec, err := dns.DecodeRDataTXT(dns.EncodeRDataTXT(p))
		e.Nontrivial(id)
		if err != nil || !bytes.Equal(dec, p) {
			e.Violation("txt-roundtrip", fmt.Sprintf("%s: got %d bytes err %v", id, len(dec), err), map[string]any{"case": id})
		}
	}
	// representation limits of messages
	for _, n := range []int{65535, 65536} {
		e.Case()
		id := fmt.Sprintf("rrdata;len=%d", n)
		m := &dns.Message{Answer: []dns.RR{{Name: dns.Name{[]byte("a")}, Type: 16, Class: 1, Data: pat(n, 1)}}}
		roundtrip(e, id, m, "rrdata-limit")
		e.Case()
		id = fmt.Sprintf("questions;count=%d", n)
		m = &dns.Message{Question: make([]dns.Question, n)}
		for i := range m.Question {
			m.Question[i] = dns.Question{Name: dns.Name{[]byte("a")}, Type: 1, Class: 1}
		}
		roundtrip(e, id, m, "count-limit")
	}
	e.Finish()
}

func partMessages(a *vh.Args) {
	e := venum.New("dns-messages", a)
	// names that each extend the previous one: the encoder's name compression then points into a name that itself
	// ends in a pointer, one level deeper per record; every depth 1..16 (the decoder bounds the pointers it follows)
	if a.ShardI == 0 {
		for depth := 1; depth <= 16; depth++ {
			e.Case()
			var rrs []dns.RR
			var name dns.Name
			for k := 0; k < depth; k++ {
				name = append(dns.Name{[]byte(fmt.Sprintf("x%d", k))}, name...)
				rrs = append(rrs, dns.RR{Name: append(dns.Name{}, name...), Type: 16, Class: 1, TTL: 60, Data: []byte{byte(k)}})
			}
			roundtrip(e, fmt.Sprintf("msg;name-chain;records=%d", depth), &dns.Message{ID: uint16(depth), Flags: 0x8400, Answer: rrs}, "message-roundtrip:name-chain")
		}
	}
	names := []dns.Name{
		{[]byte("a"), []byte("example"), []byte("com")},
		{[]byte("A"), []byte("example"), []byte("com")},
		{[]byte("b"), []byte("a"), []byte("example"), []byte("com")},
		{[]byte("a.example"), []byte("com")},
		{},
		{[]byte("\\x2e"), []byte("com")},
	}
	datas := [][]byte{{}, {9}, pat(255, 2), pat(256, 3)}
	type qv struct{ n, t int }
	qs := []qv{{0, 16}, {1, 16}, {2, 1}, {4, 41}}
	type rv struct{ n, t, d int }
	rs := []rv{{0, 16, 0}, {1, 16, 1}, {2, 16, 2}, {3, 1, 3}, {4, 41, 0}, {5, 16, 1}}
	var qsets [][]dns.Question
	qsets = append(qsets, nil)
	for _, x := range qs {
		qsets = append(qsets, []dns.Question{{Name: names[x.n], Type: uint16(x.t), Class: 1}})
		for _, y := range qs {
			qsets = append(qsets, []dns.Question{{Name: names[x.n], Type: uint16(x.t), Class: 1}, {Name: names[y.n], Type: uint16(y.t), Class: 1}})
		}
	}
	mkrr := func(x rv) dns.RR {
		return dns.RR{Name: names[x.n], Type: uint16(x.t), Class: 1, TTL: uint32(60 + x.d), Data: datas[x.d]}
	}
	var rsets [][]dns.RR
	rsets = append(rsets, nil)
	for _, x := range rs {
		rsets = append(rsets, []dns.RR{mkrr(x)})
		for _, y := range rs {
			rsets = append(rsets, []dns.RR{mkrr(x), mkrr(y)})
		}
	}
	ar := rsets[:7] // additional: 0..1 entries
	idx := 0
	for qi, q := range qsets {
		for ai, an := range rsets {
			for ni, ns := range rsets {
				for di, ad := range ar {
					idx++
					if idx%a.ShardN != a.ShardI {
						continue
					}
					if !e.Case() {
						goto done
					}
					id := fmt.Sprintf("msg;q=%d;an=%d;ns=%d;ar=%d", qi, ai, ni, di)
					m := &dns.Message{ID: uint16(idx), Flags: 0x8400, Question: q, Answer: an, Authority: ns, Additional: ad}
					roundtrip(e, id, m, "message-roundtrip")
					if idx%40009 == 0 {
						e.Sample(map[string]any{"case": id})
					}
				}
			}
		}
	}
done:
	e.Finish()
}

func partAnypb(a *vh.Args) {
	e := venum.New("anypb-nourl", a)
	protos := []func() proto.Message{func() proto.Message { return &pb.GenericTransportParams{} }, func() proto.Message { return &pb.PrefixTransportParams{} }, func() proto.Message { return &pb.DTLSTransportParams{} }}
	for _, mk := range protos {
		fields := mk().ProtoReflect().Descriptor().Fields()
		n := fields.Len()
		for mask := 0; mask < 1<<n; mask++ {
			for variant := 0; variant < 2; variant++ {
				e.Case()
				m := mk()
				r := m.ProtoReflect()
				for i := 0; i < n; i++ {
					if mask&(1<<i) == 0 {
						continue
					}
					fd := fields.Get(i)
					switch fd.Kind() {
					case protoreflect.BoolKind:
						r.Set(fd, protoreflect.ValueOfBool(variant == 0))
					case protoreflect.Int32Kind:
						r.Set(fd, protoreflect.ValueOfInt32(int32(5-9*variant)))
					case protoreflect.BytesKind:
						r.Set(fd, protoreflect.ValueOfBytes(pat(3+300*variant, 9)))
					case protoreflect.MessageKind:
						sub := r.NewField(fd).Message()
						sf := sub.Descriptor().Fields()
						for j := 0; j < sf.Len(); j++ {
							switch sf.Get(j).Kind() {
							case protoreflect.BytesKind:
								sub.Set(sf.Get(j), protoreflect.ValueOfBytes(pat(4+12*variant, 1)))
							case protoreflect.Uint32Kind:
								sub.Set(sf.Get(j), protoreflect.ValueOfUint32(uint32(443+variant)))
							}
						}
						r.Set(fd, protoreflect.ValueOfMessage(sub))
					}
				}
				id := fmt.Sprintf("anypb;type=%s;mask=%d;variant=%d", r.Descriptor().Name(), mask, variant)
				an, err := anypb.New(m)
				if err != nil {
					continue
				}
				for _, url := range []string{"", an.TypeUrl, strings.Replace(an.TypeUrl, "proto.", "tapdance.", 1)} {
					c := proto.Clone(an).(*anypb.Any)
					c.TypeUrl = url
					dst := mk()
					if err := transports.UnmarshalAnypbTo(c, dst); err != nil || !proto.Equal(dst, m) {
						e.Violation("anypb-roundtrip", fmt.Sprintf("%s url=%q: err=%v", id, url, err), map[string]any{"case": id})
					}
				}
				e.Nontrivial(id)
			}
		}
	}
	e.Finish()
}

// in-memory transport pair -------------------------------------------------

type memNet struct {
	toServer chan []byte
	toClient chan []byte
	srvAddr  net.Addr
	cliAddr  net.Addr
}

type srvPC struct{ n *memNet }

func (s srvPC) ReadFrom(p []byte) (int, net.Addr, error) {
	b, ok := <-s.n.toServer
	if !ok {
		return 0, nil, net.ErrClosed
	}
	return copy(p, b), s.n.cliAddr, nil
}
func (s srvPC) WriteTo(p []byte, _ net.Addr) (int, error) {
	s.n.toClient <- append([]byte{}, p...)
	return len(p), nil
}
func (s srvPC) Close() error                     { return nil }
func (s srvPC) LocalAddr() net.Addr              { return s.n.srvAddr }
func (s srvPC) SetDeadline(time.Time) error      { return nil }
func (s srvPC) SetReadDeadline(time.Time) error  { return nil }
func (s srvPC) SetWriteDeadline(time.Time) error { return nil }

type cliConn struct{ n *memNet }

func (c cliConn) Read(p []byte) (int, error) {
	b, ok := <-c.n.toClient
	if !ok {
		return 0, net.ErrClosed
	}
	return copy(p, b), nil
}
func (c cliConn) Write(p []byte) (int, error) {
	c.n.toServer <- append([]byte{}, p...)
	return len(p), nil
}
func (c cliConn) Close() error                     { return nil }
func (c cliConn) LocalAddr() net.Addr              { return c.n.cliAddr }
func (c cliConn) RemoteAddr() net.Addr             { return c.n.srvAddr }
func (c cliConn) SetDeadline(time.Time) error      { return nil }
func (c cliConn) SetReadDeadline(time.Time) error  { return nil }
func (c cliConn) SetWriteDeadline(time.Time) error { return nil }

// maxRequest: largest request payload whose framed, encrypted, base32-encoded form fits a name under domain.
func fits(domain dns.Name, n int) bool {
	raw := 1 + 48 + n
	enc := (raw*8 + 4) / 5
	labels := (enc + 62) / 63
	total := enc + labels + 1
	for _, l := range domain {
		total += len(l) + 1
	}
	return total <= 255
}

func partExchange(a *vh.Args) {
	e := venum.New("dns-exchange", a)
	priv, err := encryption.GeneratePrivkey()
	if err != nil {
		vh.Fatal("%v", err)
	}
	pub := encryption.PubkeyFromPrivkey(priv)
	for _, domain := range []string{"t.example.com", "x.a", "registration.some-longer-subdomain.example.org"} {
		mn := &memNet{toServer: make(chan []byte, 64), toClient: make(chan []byte, 64), srvAddr: &net.UDPAddr{IP: net.IPv4(127, 0, 0, 1), Port: 5353}, cliAddr: &net.UDPAddr{IP: net.IPv4(127, 0, 0, 1), Port: 40000}}
		resp, err := responder.VerifNew(domain, priv, srvPC{mn})
		if err != nil {
			vh.Fatal("%v", err)
		}
		var mu sync.Mutex
		var lastReq []byte
		var nextResp []byte
		go func() {
			_ = resp.RecvAndRespond(func(b []byte) ([]byte, error) {
				mu.Lock()
				defer mu.Unlock()
				lastReq = append([]byte{}, b...)
				return nextResp, nil
			})
		}()
		req, err := requester.NewRequester(&requester.Config{TransportMethod: requester.UDP, Target: "127.0.0.1:5353", BaseDomain: domain, Pubkey: pub,
			DialTransport: func(ctx context.Context, network, addr string) (net.Conn, error) { return cliConn{mn}, nil }})
		if err != nil {
			vh.Fatal("requester: %v", err)
		}
		dname, _ := dns.ParseName(domain)
		respLens := []int{0, 1, 2, 100, 254, 255, 256, 500, 511, 512, 1000, 1100}
		if a.Thorough() {
			respLens = nil
			for i := 0; i <= 1150; i++ {
				respLens = append(respLens, i)
			}
		}
		for n := 0; n <= 230; n++ {
			if !fits(dname, n) {
				// the framing itself must refuse it (checked through the real send below)
				e.Case()
				_, serr := requester.VerifSend(dname, pat(1+48+n, 4))
				if serr == nil {
					e.Violation("oversize-query-accepted", fmt.Sprintf("domain=%s request=%d: query framing accepted a name that cannot be represented", domain, n), map[string]any{"case": fmt.Sprintf("%s/%d", domain, n)})
				}
				continue
			}
			rl := respLens
			if n%16 != 0 && !a.Thorough() {
				rl = []int{0, 37, 300}
			}
			for _, rn := range rl {
				if !e.Case() {
					goto done
				}
				id := fmt.Sprintf("exchange;domain=%s;request=%d;response=%d", domain, n, rn)
				want := pat(n, 0x11)
				mu.Lock()
				nextResp = pat(rn, 0x22)
				lastReq = nil
				mu.Unlock()
				type rr struct {
					b   []byte
					err error
				}
				ch := make(chan rr, 1)
				go func() { b, err := req.RequestAndRecv(want); ch <- rr{b, err} }()
				var got rr
				select {
				case got = <-ch:
				case <-time.After(20 * time.Second):
					vh.Fatal("exchange stalled: %s", id)
				}
				mu.Lock()
				lr := lastReq
				mu.Unlock()
				if lr != nil && !bytes.Equal(lr, want) {
					e.Violation("request-altered", fmt.Sprintf("%s: responder saw %d bytes", id, len(lr)), map[string]any{"case": id})
				}
				if got.err == nil {
					e.Nontrivial(id)
					if !bytes.Equal(got.b, pat(rn, 0x22)) {
						e.Violation("response-altered", fmt.Sprintf("%s: requester got %d bytes", id, len(got.b)), map[string]any{"case": id})
					}
				} else if lr == nil {
					e.Violation("request-lost", fmt.Sprintf("%s: %v", id, got.err), map[string]any{"case": id})
				}
				if n == 64 && rn == 100 {
					e.Sample(map[string]any{"case": id, "ok": got.err == nil})
				}
			}
		}
	}
done:
	e.Finish()
}

func main() {
	a := vh.Parse()
	name := a.Scenario
	switch name {
	case "obfuscators":
		partObf(a)
	case "msgformat":
		partMsgformat(a)
	case "names":
		partNames(a)
	case "messages":
		partMessages(a)
	case "anypb":
		partAnypb(a)
	case "exchange":
		partExchange(a)
	case "exchange2":
		partExchange2(a)
	default:
		vh.Fatal("unknown scenario %q", name)
	}
}
