//go:build verif

package responder

import (
	"net"

	"github.com/flynn/noise"
	"github.com/refraction-networking/conjure/pkg/registrars/dns-registrar/dns"
	"github.com/refraction-networking/conjure/pkg/registrars/dns-registrar/encryption"
)

// VerifNew builds a Responder like NewDnsResponder but on a given PacketConn.
func VerifNew(domain string, privkey []byte, transport net.PacketConn) (*Responder, error) {
	noiseConfig := encryption.NewConfig()
	noiseConfig.Initiator = false
	noiseConfig.StaticKeypair = noise.DHKey{Private: privkey, Public: encryption.PubkeyFromPrivkey(privkey)}
	basename, err := dns.ParseName(domain)
	if err != nil {
		return nil, err
	}
	return &Responder{domain: basename, transport: transport, privkey: privkey, noiseConfig: noiseConfig, maxUDPPayload: 1280 - 40 - 8}, nil
}

// VerifResponseFor exposes responseFor.
func (r *Responder) VerifResponseFor(q *dns.Message) (*dns.Message, []byte) {
	return r.responseFor(q, r.domain)
}

// VerifCraftResponse exposes craftResponse.
func (r *Responder) VerifCraftResponse(msg []byte, f func([]byte) ([]byte, error)) ([]byte, error) {
	return r.craftResponse(msg, f)
}
