//go:build verif

package main

import "github.com/refraction-networking/conjure/pkg/phantoms"

func main() { phantoms.VerifC14Main() }
