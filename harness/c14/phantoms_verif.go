//go:build verif

package phantoms

// C14 harness. Part A: complete cross product of subnet configurations x
// library versions x families x generations x seeds through the real selector,
// plus every offset of every small subnet. Part B: all interleavings of legacy
// selections whose global math/rand operations are scheduling points.

import (
	"bytes"
	"crypto/sha256"
	"encoding/binary"
	"fmt"
	"math/big"
	"net"
	"sort"
	"strings"
	"sync"
	"sync/atomic"
	"time"

	"github.com/refraction-networking/conjure/pkg/zzverif/venum"
	"github.com/refraction-networking/conjure/pkg/zzverif/vh"
	"github.com/refraction-networking/conjure/pkg/zzverif/vsched"
	"github.com/refraction-networking/conjure/pkg/zzverif/vsync"
	pb "github.com/refraction-networking/conjure/proto"
	"google.golang.org/protobuf/proto"
)

type c14Group struct {
	name    string
	subnets []string
}

var c14Groups = []c14Group{
	{"std", []string{"192.122.190.0/24", "2001:48a8:687f:1::/64"}},
	{"v4s31", []string{"10.0.0.0/31"}},
	{"v4s32", []string{"10.0.0.7/32"}},
	{"v6s128", []string{"2001:db8::1/128"}},
	{"lz4", []string{"0.1.2.0/24"}},
	{"lz6", []string{"64:ff9b::/96"}},
	{"zero6", []string{"::/120", "0.0.0.0/30"}},
	{"ovl", []string{"192.122.190.0/25", "192.122.190.0/24", "192.122.190.0/24"}},
	{"none", nil},
	{"v6only", []string{"2001:db8:77::/64"}},
	{"big", []string{"141.219.0.0/16", "35.8.0.0/16"}},
	{"mixed", []string{"10.9.0.0/30", "fd00::/126", "10.9.1.0/32"}},
	// prefix lengths that are not a multiple of 8, with network bits set in the octet the mask splits
	// an IPv4-mapped IPv6 CIDR, alone and next to genuine IPv6 / IPv4 subnets
	{"mapped", []string{"::ffff:10.0.0.0/104"}},
	{"mapped+", []string{"::ffff:10.8.0.0/112", "2001:db8:5::/64", "10.7.0.0/24"}},
	// CIDRs written with host bits set (an address inside the network instead of the network address): the subnet is
	// the masked network, also at the very top of the address space where base + offset would overflow
	{"hostbits", []string{"192.0.2.200/24", "10.9.8.7/30", "2001:db8::1:c8/120", "255.255.255.250/24", "ffff:ffff:ffff:ffff:ffff:ffff:ffff:fff0/120"}},
	{"unaligned", []string{"192.0.2.16/28", "10.1.16.0/20", "203.0.113.252/30", "2001:db8::ff10/124", "2001:db8:0:f000::/52"}},
}

type c14Cfg struct {
	id     string
	groups []*pb.PhantomSubnets
}

func c14MkGroup(g c14Group, w uint32, rnd bool) *pb.PhantomSubnets {
	return &pb.PhantomSubnets{Weight: proto.Uint32(w), Subnets: g.subnets, RandomizeDstPort: proto.Bool(rnd)}
}

func c14Configs(thorough bool) []c14Cfg {
	var out []c14Cfg
	bs := func(b bool) string {
		if b {
			return "R"
		}
		return "r"
	}
	for _, g := range c14Groups {
		for _, w := range []uint32{0, 1} {
			for _, r := range []bool{false, true} {
				out = append(out, c14Cfg{fmt.Sprintf("%s:%d%s", g.name, w, bs(r)), []*pb.PhantomSubnets{c14MkGroup(g, w, r)}})
			}
		}
	}
	wp := [][2]uint32{{0, 0}, {0, 1}, {1, 1}, {1, 9}, {9, 1}}
	rp := [][2]bool{{true, false}, {false, false}, {false, true}}
	for _, g1 := range c14Groups {
		for _, g2 := range c14Groups {
			for _, w := range wp {
				for _, r := range rp {
					out = append(out, c14Cfg{fmt.Sprintf("%s:%d%s+%s:%d%s", g1.name, w[0], bs(r[0]), g2.name, w[1], bs(r[1])),
						[]*pb.PhantomSubnets{c14MkGroup(g1, w[0], r[0]), c14MkGroup(g2, w[1], r[1])}})
				}
			}
		}
	}
	// triples (and, thorough, 4- and 5-group configs) over a sub-pool
	sub := []int{0, 1, 4, 5, 8, 10}
	for _, a := range sub {
		for _, b := range sub {
			for _, c := range sub {
				for _, w := range [][3]uint32{{1, 1, 1}, {1, 9, 1}, {0, 0, 1}, {0, 0, 0}} {
					out = append(out, c14Cfg{fmt.Sprintf("%s:%dR+%s:%dr+%s:%dR", c14Groups[a].name, w[0], c14Groups[b].name, w[1], c14Groups[c].name, w[2]),
						[]*pb.PhantomSubnets{c14MkGroup(c14Groups[a], w[0], true), c14MkGroup(c14Groups[b], w[1], false), c14MkGroup(c14Groups[c], w[2], true)}})
				}
			}
		}
	}
	if thorough {
		for _, a := range sub {
			for _, b := range sub {
				gs := []*pb.PhantomSubnets{c14MkGroup(c14Groups[a], 1, true), c14MkGroup(c14Groups[b], 9, false), c14MkGroup(c14Groups[0], 1, false), c14MkGroup(c14Groups[10], 3, true), c14MkGroup(c14Groups[11], 1, false)}
				out = append(out, c14Cfg{fmt.Sprintf("5g:%s+%s+std+big+mixed", c14Groups[a].name, c14Groups[b].name), gs})
				out = append(out, c14Cfg{fmt.Sprintf("4g:%s+%s+std+big", c14Groups[a].name, c14Groups[b].name), gs[:4]})
			}
		}
	}
	return out
}

func c14Seeds(n int) [][]byte {
	out := [][]byte{{}, {0}, {0x80}, bytes.Repeat([]byte{0}, 16), bytes.Repeat([]byte{0xff}, 16)}
	for i := 0; i < n; i++ {
		var b [8]byte
		binary.BigEndian.PutUint64(b[:], uint64(i))
		h := sha256.Sum256(b[:])
		out = append(out, h[:16])
	}
	return out
}

type c14Nets struct {
	nets []*net.IPNet
	rnd  []bool
}

func c14Parse(groups []*pb.PhantomSubnets) c14Nets {
	var n c14Nets
	for _, g := range groups {
		for _, s := range g.GetSubnets() {
			_, c, err := net.ParseCIDR(s)
			if err == nil {
				n.nets = append(n.nets, c)
				n.rnd = append(n.rnd, g.GetRandomizeDstPort())
			}
		}
	}
	return n
}

// c14CheckResult applies oracle A to one selection result. Returns "" or a violation key + text.
func c14CheckResult(ip *PhantomIP, err error, v6 bool, cfg c14Nets) (string, string) {
	if err != nil {
		return "", ""
	}
	if ip == nil || ip.IP() == nil {
		return "nil-result", "nil phantom without error"
	}
	addr := *ip.IP()
	want := 4
	if v6 {
		want = 16
	}
	// A 16-byte v4-mapped form would also be well-formed for v4; the code returns 4 bytes for v4.
	if len(addr) != want && !(want == 4 && len(addr) == 16 && addr.To4() != nil) {
		return "malformed-address", fmt.Sprintf("address has %d bytes (%x), want %d", len(addr), []byte(addr), want)
	}
	if v6 && addr.To4() != nil {
		return "wrong-family", fmt.Sprintf("asked for IPv6, got %v", addr)
	}
	if !v6 && addr.To4() == nil {
		return "wrong-family", fmt.Sprintf("asked for IPv4, got %v", addr)
	}
	inside, rndOK := false, false
	for i, n := range cfg.nets {
		if (n.IP.To4() != nil) != !v6 {
			continue
		}
		if n.Contains(addr) {
			inside = true
			if cfg.rnd[i] {
				rndOK = true
			}
		}
	}
	if !inside {
		return "outside-configured-subnets", fmt.Sprintf("address %v is in no configured subnet", addr)
	}
	if ip.SupportRandomPort() && !rndOK {
		return "random-port-not-allowed", fmt.Sprintf("address %v granted port randomisation but no containing subnet allows it", addr)
	}
	return "", ""
}

func c14PartA(a *vh.Args) {
	e := venum.New("A:select", a)
	cfgs := c14Configs(a.Thorough())
	nseeds := 24
	if a.Thorough() {
		nseeds = 200
	}
	seeds := c14Seeds(nseeds)
	// shard by config index
	for ci, cfg := range cfgs {
		if ci%a.ShardN != a.ShardI {
			continue
		}
		nets := c14Parse(cfg.groups)
		sel := &PhantomIPSelector{Networks: map[uint]*SubnetConfig{}}
		sel.AddGeneration(1, &SubnetConfig{WeightedSubnets: cfg.groups})
		sel.AddGeneration(2, &SubnetConfig{WeightedSubnets: cfg.groups})
		sel.RemoveGeneration(2)
		plist := &pb.PhantomSubnetsList{WeightedSubnets: cfg.groups}
		for _, seed := range seeds {
			for libver := uint(0); libver <= 4; libver++ {
				for _, v6 := range []bool{false, true} {
					for _, gen := range []uint{1, 2, 7} {
						if !e.Case() {
							goto done
						}
						id := fmt.Sprintf("cfg=%s;seed=%x;libver=%d;v6=%v;gen=%d", cfg.id, seed, libver, v6, gen)
						var ip, ip2 *PhantomIP
						var err, err2 error
						p, msg, site := venum.Guard(func() {
							ip, err = sel.Select(seed, gen, libver, v6)
							ip2, err2 = sel.Select(seed, gen, libver, v6)
						})
						if p {
							e.Violation("panic:"+site, fmt.Sprintf("Select panicked: %s (%s)", msg, id), map[string]any{"case": id})
							continue
						}
						if gen != 1 {
							if err == nil {
								e.Violation("unknown-generation-selected", "selection succeeded for an unknown/removed generation: "+id, map[string]any{"case": id})
							}
							continue
						}
						if (err == nil) != (err2 == nil) || (err == nil && !bytes.Equal(*ip.IP(), *ip2.IP())) {
							e.Violation("not-repeatable", "two identical selections differ: "+id, map[string]any{"case": id})
						}
						if k, w := c14CheckResult(ip, err, v6, nets); k != "" {
							e.Violation(k+":libver"+c14VerClass(libver), w+" ("+id+")", map[string]any{"case": id})
						}
						if err == nil {
							e.Nontrivial(fmt.Sprintf("%s/%d/%v/%x", cfg.id, libver, v6, []byte(*ip.IP())))
							if e.Out.Evaluations%50021 == 1 {
								e.Sample(map[string]any{"case": id, "phantom": ip.IP().String(), "random_port": ip.SupportRandomPort()})
							}
						}
					}
				}
			}
			// client entry point (library version >= 2 algorithm)
			for _, f := range []struct {
				n  string
				fn SubnetFilter
				v6 bool
			}{{"v4", V4Only, false}, {"v6", V6Only, true}} {
				if !e.Case() {
					goto done
				}
				id := fmt.Sprintf("client;cfg=%s;seed=%x;filter=%s", cfg.id, seed, f.n)
				var ip *PhantomIP
				var err error
				p, msg, site := venum.Guard(func() { ip, err = SelectPhantom(seed, plist, f.fn, true) })
				if p {
					e.Violation("panic:"+site, fmt.Sprintf("SelectPhantom panicked: %s (%s)", msg, id), map[string]any{"case": id})
					continue
				}
				if k, w := c14CheckResult(ip, err, f.v6, nets); k != "" {
					e.Violation(k+":client", w+" ("+id+")", map[string]any{"case": id})
				}
			}
		}
	}
done:
	e.Out.Extra["dimensions"] = map[string]any{"configs": len(cfgs), "seeds": len(seeds), "libver": 5, "family": 2, "generation": 3}
	e.Finish()
}

func c14VerClass(v uint) string {
	switch {
	case v == 0:
		return "0"
	case v == 1:
		return "1"
	}
	return "2+"
}

// Part A2: every offset of every small subnet (bijection) and boundary offsets of large ones.
func c14PartOffsets(a *vh.Args) {
	e := venum.New("A:offsets", a)
	cidrs := []string{"10.0.0.0/31", "10.0.0.7/32", "2001:db8::1/128", "0.1.2.0/24", "192.122.190.0/24", "::/120", "0.0.0.0/30", "64:ff9b::/120", "fd00::/126", "255.255.255.0/24", "ffff:ffff:ffff:ffff:ffff:ffff:ffff:ff00/120",
		"141.219.0.0/16", "2001:48a8:687f:1::/64", "64:ff9b::/96", "0.0.0.0/1", "::/1", "10.0.0.0/8",
		"192.0.2.16/28", "10.1.16.0/20", "203.0.113.252/30", "198.51.100.130/31", "2001:db8::ff10/124", "2001:db8:0:f000::/52", "2001:db8::8000/113", "172.16.255.128/25"}
	for _, c := range cidrs {
		_, n, err := net.ParseCIDR(c)
		if err != nil {
			vh.Fatal("cidr %s", c)
		}
		ones, bits := n.Mask.Size()
		pn := &phantomNet{IPNet: n, supportRandomPort: true}
		size := new(big.Int).Lsh(big.NewInt(1), uint(bits-ones))
		var offs []*big.Int
		full := bits-ones <= 8
		if full {
			for i := int64(0); i < size.Int64(); i++ {
				offs = append(offs, big.NewInt(i))
			}
		} else {
			offs = []*big.Int{big.NewInt(0), big.NewInt(1), big.NewInt(255), big.NewInt(256), new(big.Int).Sub(size, big.NewInt(1))}
		}
		seen := map[string]bool{}
		for _, o := range offs {
			e.Case()
			id := fmt.Sprintf("cidr=%s;offset=%s", c, o.String())
			var ip *PhantomIP
			var err error
			p, msg, site := venum.Guard(func() { ip, err = selectAddrFromSubnetOffset(pn, o) })
			if p {
				e.Violation("panic:"+site, msg+" "+id, map[string]any{"case": id})
				continue
			}
			if err != nil {
				e.Violation("offset-in-range-rejected", id+": "+err.Error(), map[string]any{"case": id})
				continue
			}
			addr := *ip.IP()
			if len(addr) != bits/8 {
				e.Violation("malformed-address:offset", fmt.Sprintf("%s: %d-byte address %x", id, len(addr), []byte(addr)), map[string]any{"case": id})
				continue
			}
			if !n.Contains(addr) {
				e.Violation("outside-configured-subnets:offset", fmt.Sprintf("%s: %v", id, addr), map[string]any{"case": id})
			}
			want := new(big.Int).Add(new(big.Int).SetBytes(n.IP), o)
			if new(big.Int).SetBytes(addr).Cmp(want) != 0 {
				e.Violation("offset-not-base-plus-offset", fmt.Sprintf("%s: %v", id, addr), map[string]any{"case": id})
			}
			seen[string(addr)] = true
			e.Nontrivial(id)
		}
		if full && int64(len(seen)) != size.Int64() {
			e.Violation("offsets-not-bijective", fmt.Sprintf("cidr=%s: %d distinct addresses for %s offsets", c, len(seen), size), map[string]any{"case": c})
		}
		for _, d := range []int64{0, 1} {
			e.Case()
			o := new(big.Int).Add(size, big.NewInt(d))
			var err error
			p, msg, site := venum.Guard(func() { _, err = selectAddrFromSubnetOffset(pn, o) })
			if p {
				e.Violation("panic:"+site, msg, map[string]any{"case": c})
			} else if err == nil {
				e.Violation("offset-out-of-range-accepted", fmt.Sprintf("cidr=%s offset=%s accepted", c, o), map[string]any{"case": c})
			}
		}
		e.Sample(map[string]any{"cidr": c, "offsets_tried": len(offs), "all_offsets": full})
	}
	e.Finish()
}

// Part B: interleavings of concurrent selections.
func c14PartB(a *vh.Args, name string) {
	// name: "B:<libver list>" e.g. "B:0,1" "B:1,1,4"
	var vers []uint
	for _, s := range strings.Split(strings.TrimPrefix(name, "B:"), ",") {
		var v uint
		fmt.Sscanf(s, "%d", &v)
		vers = append(vers, v)
	}
	groups := []*pb.PhantomSubnets{c14MkGroup(c14Groups[0], 9, true), c14MkGroup(c14Groups[10], 1, false), c14MkGroup(c14Groups[11], 3, false)}
	sel := &PhantomIPSelector{Networks: map[uint]*SubnetConfig{}}
	sel.AddGeneration(1, &SubnetConfig{WeightedSubnets: groups})
	seeds := c14Seeds(8)[5:]
	// serial reference, computed before any exploration
	type res struct {
		ip  string
		err string
	}
	one := func(i int) res {
		ip, err := sel.Select(seeds[i], 1, vers[i], i%2 == 1)
		if err != nil {
			return res{"", err.Error()}
		}
		return res{ip.IP().String(), ""}
	}
	serial := make([]res, len(vers))
	for i := range vers {
		serial[i] = one(i)
	}
	mk := func() *vsched.Scenario {
		got := make([]res, len(vers))
		var wg vsync.WaitGroup
		return &vsched.Scenario{
			Body: func() {
				for i := range vers {
					i := i
					wg.Add(1)
					vsched.GoNamed(fmt.Sprintf("sel%d:v%d", i, vers[i]), func() { defer wg.Done(); got[i] = one(i) })
				}
				wg.Wait()
			},
			Check: func(x *vsched.Exec) *vsched.Violation {
				if x.Verdict != vsched.VOK {
					return &vsched.Violation{Key: x.Verdict, What: x.Detail}
				}
				for i := range vers {
					if got[i] != serial[i] {
						return &vsched.Violation{Key: fmt.Sprintf("concurrent-selection-differs:libver%s", c14VerClass(vers[i])),
							What: fmt.Sprintf("selector %d (libver %d) returned %v concurrently but %v serially", i, vers[i], got[i], serial[i])}
					}
				}
				return nil
			},
			Outcome: func(x *vsched.Exec) string {
				var ss []string
				for _, g := range got {
					ss = append(ss, g.ip+g.err)
				}
				sort.Strings(ss)
				return strings.Join(ss, ",")
			},
		}
	}
	if a.Replay != "" {
		rp := vh.LoadReplay(a.Replay)
		x, v := vsched.RunOnce(vh.Ints(rp["choices"]), 0, mk)
		for _, l := range x.Trace() {
			fmt.Println(l)
		}
		o := &vh.Out{Name: name, Evaluations: 1}
		if v != nil {
			o.Violations = append(o.Violations, &vh.Violation{Key: v.Key, What: v.What})
		}
		vh.Emit(o)
		return
	}
	vh.SelfCheck(name, mk)
	r := vsched.Explore(vsched.Config{Name: name, PreemptBound: -1, EnvBound: -1, Deadline: a.Deadline()}, mk)
	vh.Emit(vh.FromSched(r))
}

// VerifC14Main is the worker entry point.
func VerifC14Main() {
	a := vh.Parse()
	name := a.Scenario
	if a.Replay != "" {
		rp := vh.LoadReplay(a.Replay)
		if s, ok := rp["scenario"].(string); ok {
			name = s
		} else {
			// enumeration case: re-run the whole (fast) part and report
			name = "A:select"
		}
	}
	switch {
	case name == "A:select":
		c14PartA(a)
	case name == "A:offsets":
		c14PartOffsets(a)
	case name == "race":
		c14Race(a)
	case strings.HasPrefix(name, "B:"):
		c14PartB(a, name)
	default:
		vh.Fatal("unknown scenario %q", name)
	}
}

// c14Race: free-running companion for the race detector: 6 goroutines x 40 selections (library versions
// 0-4, both families) on one shared selector; every result is also compared with the serial answer.
func c14Race(a *vh.Args) {
	groups := []*pb.PhantomSubnets{c14MkGroup(c14Groups[0], 9, true), c14MkGroup(c14Groups[10], 1, false), c14MkGroup(c14Groups[11], 3, false)}
	sel := &PhantomIPSelector{Networks: map[uint]*SubnetConfig{}}
	sel.AddGeneration(1, &SubnetConfig{WeightedSubnets: groups})
	// generations whose selection fails (every weight zero; no group at all): error paths interleaved with the others
	sel.AddGeneration(2, &SubnetConfig{WeightedSubnets: []*pb.PhantomSubnets{c14MkGroup(c14Groups[0], 0, true), c14MkGroup(c14Groups[10], 0, false)}})
	sel.AddGeneration(3, &SubnetConfig{})
	seeds := c14Seeds(8)
	type q struct {
		seed []byte
		ver  uint
		v6   bool
		gen  uint
	}
	var qs []q
	var want []string
	one := func(x q) string {
		ip, err := sel.Select(x.seed, x.gen, x.ver, x.v6)
		if err != nil {
			return "err:" + err.Error()
		}
		return ip.IP().String()
	}
	for i, sd := range seeds {
		for ver := uint(0); ver <= 4; ver++ {
			x := q{sd, ver, (i+int(ver))%2 == 1, 1}
			qs = append(qs, x)
			want = append(want, one(x))
			if i < 2 {
				for _, g := range []uint{2, 3} {
					y := q{sd, ver, x.v6, g}
					qs = append(qs, y)
					want = append(want, one(y))
				}
			}
		}
	}
	out := &vh.Out{Name: "race", Exhaustive: false, Cap: "free-running sample of schedules under the race detector (adjunct)", ViolCounts: map[string]int64{},
		Samples: []any{map[string]any{"iteration": "6 goroutines x 40 Select calls (libver 0-4, both families; generations that select and generations whose selection fails) on one selector, each compared with the serial answer"}}}
	t0 := time.Now()
	var n, bad int64
	var first atomic.Value
	for time.Since(t0) < a.Budget/4 {
		var wg sync.WaitGroup
		for g := 0; g < 6; g++ {
			g := g
			wg.Add(1)
			go func() {
				defer wg.Done()
				for i := 0; i < 40; i++ {
					k := (g*7 + i) % len(qs)
					if got := one(qs[k]); got != want[k] {
						atomic.AddInt64(&bad, 1)
						first.CompareAndSwap(nil, fmt.Sprintf("libver %d: %s concurrently, %s serially", qs[k].ver, got, want[k]))
					}
					atomic.AddInt64(&n, 1)
				}
			}()
		}
		wg.Wait()
	}
	out.Evaluations, out.Traces, out.WallS = n, n, time.Since(t0).Seconds()
	if bad > 0 {
		out.ViolCounts["concurrent-selection-differs:free-running"] = bad
		out.Violations = append(out.Violations, &vh.Violation{Key: "concurrent-selection-differs:free-running", What: first.Load().(string), Replay: map[string]any{"scenario": "race", "kind": "race"}})
	}
	vh.Emit(out)
}
