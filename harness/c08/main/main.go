//go:build verif

package main

// C08: explicit-state BFS over register/duplicate/validate/connect/advance/
// sweep/lookup histories on a real RegistrationManager with a virtual clock,
// against a reference map with the 10 min / 6 h rule.

import (
	"fmt"
	"net"
	"sort"
	"strings"
	"time"

	"github.com/refraction-networking/conjure/pkg/station/lib"
	"github.com/refraction-networking/conjure/pkg/zzverif/vbfs"
	"github.com/refraction-networking/conjure/pkg/zzverif/vfix"
	"github.com/refraction-networking/conjure/pkg/zzverif/vh"
	"github.com/refraction-networking/conjure/pkg/zzverif/vsched"
	pb "github.com/refraction-networking/conjure/proto"
)

type regSpec struct {
	name   string
	secret int
	tt     pb.TransportType
	v6     bool
}

type entry struct {
	t0    time.Duration
	used  bool
	valid bool
}

type inst struct {
	rm     *lib.RegistrationManager
	now    time.Duration
	model  map[string]*entry // key: spec name
	specs  []regSpec
	ops    []string
	ann    []lib.VerifDetectorMsg
	proto  map[string]*lib.DecoyRegistration // freshly built registration objects per spec
	newAnn map[string]int
	sweptSinceChange bool
}

var (
	sel        = vfix.Selector(vfix.SubnetsTOML)
	unusedLife = 10 * time.Minute
	usedLife   = 6 * time.Hour
)

func (in *inst) build(sp regSpec) *lib.DecoyRegistration {
	var params = (*pb.PrefixTransportParams)(nil)
	m := vfix.Msg{Secret: vfix.Secret(sp.secret), Transport: sp.tt, V4: !sp.v6, V6: sp.v6, Gen: 1, LibVer: 4, Covert: "1.2.3.4:443", Source: pb.RegistrationSource_API, Addr: []byte{10, 0, 0, 1}}
	if sp.tt == pb.TransportType_Prefix {
		params = &pb.PrefixTransportParams{PrefixId: new(int32)}
		m.Params = params
	}
	reg, err := in.rm.NewRegistrationC2SWrapper(m.Wrapper(), sp.v6)
	if err != nil {
		vh.Fatal("building registration %s: %v", sp.name, err)
	}
	return reg
}

func newInst(specs []regSpec, ops []string) *inst {
	vsched.SetManualClock(true)
	in := &inst{specs: specs, ops: ops, model: map[string]*entry{}, newAnn: map[string]int{}}
	in.rm = vfix.Manager(nil, sel, &vfix.Tester{}, vfix.Transports{Min: true, Prefix: true}, nil)
	in.rm.VerifCaptureDetector(&in.ann)
	return in
}

func (in *inst) expired(e *entry) bool {
	age := in.now - e.t0
	if !e.used && age > unusedLife {
		return true
	}
	return age > usedLife
}

// lookupImpl returns the spec names visible (valid) through GetRegistrations.
func (in *inst) lookupImpl() []string {
	var out []string
	for _, sp := range in.specs {
		r := in.build(sp)
		regs := in.rm.GetRegistrations(r.PhantomIp)
		if _, ok := regs[in.rm.VerifIdentifier(r)]; ok {
			out = append(out, sp.name)
		}
	}
	sort.Strings(out)
	return out
}

func (in *inst) Apply(op int) (string, string) {
	name := in.ops[op]
	parts := strings.SplitN(name, ":", 2)
	var sp regSpec
	if len(parts) == 2 {
		for _, s := range in.specs {
			if s.name == parts[1] {
				sp = s
			}
		}
	}
	switch parts[0] {
	case "track":
		r := in.build(sp)
		if err := in.rm.TrackRegistration(r); err != nil {
			return "track-error", err.Error()
		}
		if _, ok := in.model[sp.name]; !ok {
			in.model[sp.name] = &entry{t0: in.now}
		}
	case "validate":
		r := in.build(sp)
		before := len(in.ann)
		in.rm.AddRegistration(r)
		e, ok := in.model[sp.name]
		if !ok {
			e = &entry{t0: in.now}
			in.model[sp.name] = e
		}
		wantNew := !e.valid
		e.valid = true
		gotNew := 0
		for _, a := range in.ann[before:] {
			if a.Op == "New" {
				gotNew++
			}
		}
		if (wantNew && gotNew != 1) || (!wantNew && gotNew != 0) {
			return "announce-count", fmt.Sprintf("validate %s: %d New announcements, expected %v", sp.name, gotNew, wantNew)
		}
	case "connect":
		// what a connection handler does: look the registration up, and if it is
		// returned (valid), mark it active.
		r := in.build(sp)
		regs := in.rm.GetRegistrations(r.PhantomIp)
		found, ok := regs[in.rm.VerifIdentifier(r)]
		e, mok := in.model[sp.name]
		wantVisible := mok && e.valid
		if ok != wantVisible {
			return "lookup-mismatch", fmt.Sprintf("connect %s: registration visible=%v, model says %v", sp.name, ok, wantVisible)
		}
		if ok {
			in.rm.MarkActive(found.(*lib.DecoyRegistration))
			e.used = true
		}
	case "adv":
		d, err := time.ParseDuration(parts[1])
		if err != nil {
			vh.Fatal("bad duration")
		}
		in.now += d
		vsched.ManualAdvance(d)
	case "sweep":
		in.rm.RemoveOldRegistrations()
		for k, e := range in.model {
			if in.expired(e) {
				delete(in.model, k)
			}
		}
		// after a sweep: tracked set == model set, both maps have the model's size
		if got, want := in.rm.VerifTotal(), len(in.model); got != want {
			return "sweep-tracked-count", fmt.Sprintf("after sweep %d registrations tracked, reference model has %d (%s)", got, want, in.modelKey())
		}
		if got, want := in.rm.VerifTimeoutCount(), len(in.model); got != want {
			return "sweep-timeout-count", fmt.Sprintf("after sweep %d timeout records, reference model has %d", got, want)
		}
	case "lookup":
	}
	// after every operation: what connections can match == valid model entries
	// (expiry is defined at sweeps, so unswept-but-old entries still count)
	got := in.lookupImpl()
	var want []string
	for k, e := range in.model {
		if e.valid {
			want = append(want, k)
		}
	}
	sort.Strings(want)
	if strings.Join(got, ",") != strings.Join(want, ",") {
		return "visible-set", fmt.Sprintf("after %s connections can match {%s}, reference model says {%s}", name, strings.Join(got, ","), strings.Join(want, ","))
	}
	// per-phantom counts
	for _, sp := range in.specs {
		r := in.build(sp)
		n := 0
		for _, sp2 := range in.specs {
			if _, ok := in.model[sp2.name]; ok && in.build(sp2).PhantomIp.Equal(r.PhantomIp) {
				n++
			}
		}
		if got := in.rm.CountRegistrations(r.PhantomIp); got != n {
			return "phantom-count", fmt.Sprintf("after %s phantom %v tracks %d registrations, model %d", name, net.IP(r.PhantomIp), got, n)
		}
	}
	return "", ""
}

func bucket(age time.Duration) int {
	switch {
	case age <= unusedLife-2*time.Second:
		return 0
	case age <= unusedLife:
		return 1
	case age <= usedLife-2*time.Second:
		return 2
	case age <= usedLife:
		return 3
	}
	return 4
}

func (in *inst) modelKey() string {
	var ks []string
	for k, e := range in.model {
		ks = append(ks, fmt.Sprintf("%s:%d:%v:%v", k, int64((in.now-e.t0)/time.Second), e.used, e.valid))
	}
	sort.Strings(ks)
	return strings.Join(ks, " ")
}

func (in *inst) Key() string {
	// (the implementation's own record ages are part of the state: two histories that agree on the reference ages
	// but not on what the implementation stored must not be merged)
	return in.modelKey() + "\n" + in.rm.VerifDump(false) + "\n" + in.rm.VerifDumpAges(vsched.VNow())
}

func main() {
	a := vh.Parse()
	specsAll := []regSpec{
		{"a.min.4", 1, pb.TransportType_Min, false}, {"a.pfx.4", 1, pb.TransportType_Prefix, false},
		{"a.min.6", 1, pb.TransportType_Min, true}, {"b.min.4", 2, pb.TransportType_Min, false},
		{"b.pfx.4", 2, pb.TransportType_Prefix, false}, {"a.pfx.6", 1, pb.TransportType_Prefix, true},
	}
	nspec := 4
	depth := 5
	if a.Thorough() {
		nspec = 6
		depth = 7
	}
	if a.Scenario == "small" {
		nspec, depth = 2, 8
		if a.Thorough() {
			depth = 10
		}
	}
	specs := specsAll[:nspec]
	var ops []string
	for _, s := range specs {
		ops = append(ops, "track:"+s.name, "validate:"+s.name, "connect:"+s.name)
	}
	ops = append(ops, "adv:9m59s", "adv:2s", "adv:5h49m58s", "adv:2s ", "sweep")
	for i := range ops {
		ops[i] = strings.TrimSpace(ops[i])
	}
	// dedupe (adv:2s twice collapses)
	seen := map[string]bool{}
	var ops2 []string
	for _, o := range ops {
		if !seen[o] {
			seen[o] = true
			ops2 = append(ops2, o)
		}
	}
	ops = ops2
	sys := &vbfs.System{OpNames: ops, New: func() vbfs.Instance { return newInst(specs, ops) }}
	if a.Replay != "" {
		rp := vh.LoadReplay(a.Replay)
		hist, _ := rp["history"].([]any)
		var idx []int
		for _, h := range hist {
			for i, o := range ops {
				if o == h.(string) {
					idx = append(idx, i)
				}
			}
		}
		k, w, log := vbfs.Replay(sys, idx)
		for _, l := range log {
			fmt.Println(l)
		}
		o := &vh.Out{Name: "replay", Evaluations: 1}
		if k != "" {
			o.Violations = append(o.Violations, &vh.Violation{Key: k, What: w})
		}
		vh.Emit(o)
		return
	}
	var first []int
	for i := range ops {
		if i%a.ShardN == a.ShardI {
			first = append(first, i)
		}
	}
	res := vbfs.Run(vbfs.Config{Depth: depth, Deadline: a.Deadline(), FirstOps: first}, sys)
	// the same search (one level shallower) from a non-initial state: a registration that was used has lived out its six
	// hours and has been swept - whatever the registry keeps around from earlier lifetimes (recycled records, caches)
	// must not change how later registrations age
	seedOps := []string{"validate:a.min.4", "connect:a.min.4", "adv:5h49m58s", "adv:9m59s", "adv:2s", "adv:2s", "sweep"}
	sys2 := &vbfs.System{OpNames: ops, New: func() vbfs.Instance {
		in := newInst(specs, ops)
		for _, so := range seedOps {
			for i, o := range ops {
				if o == so {
					in.Apply(i)
				}
			}
		}
		return in
	}}
	res2 := vbfs.Run(vbfs.Config{Depth: depth - 1, Deadline: a.Deadline(), FirstOps: first}, sys2)
	res.States += res2.States
	res.Transitions += res2.Transitions
	if !res2.Exhaustive {
		res.Exhaustive, res.Cap = false, res2.Cap
	}
	for k, n := range res2.ViolCounts {
		res.ViolCounts[k] += n
	}
	for _, v := range res2.Violations {
		v.History = append(append([]string{}, seedOps...), v.History...)
		res.Violations = append(res.Violations, v)
	}
	o := &vh.Out{Name: fmt.Sprintf("bfs:%s:shard%d/%d", a.Scenario, a.ShardI, a.ShardN), Evaluations: res.Transitions, Nontrivial: res.States, States: res.States, Transitions: res.Transitions, Traces: res.Transitions,
		Exhaustive: res.Exhaustive, Cap: res.Cap, WallS: res.WallS, ViolCounts: res.ViolCounts,
		Extra: map[string]any{"depth_completed": res.DepthCompleted, "max_depth": res.MaxDepth, "alphabet": ops, "second_search_from": seedOps, "second_search_depth_completed": res2.DepthCompleted}}
	for _, v := range res.Violations {
		o.Violations = append(o.Violations, &vh.Violation{Key: v.Key, What: v.What, Replay: map[string]any{"history": v.History, "scenario": a.Scenario}})
	}
	for _, s := range res.Samples {
		o.Samples = append(o.Samples, map[string]any{"history": s})
	}
	vh.Emit(o)
}
