//go:build verif

package main

// C20 child: performs a store history with the real client asset store on one
// OS thread, bracketed by marker syscalls, so that the parent can inject a kill
// or an errno at every syscall of the history under strace.
//
//	child  <dir> <resultfile>   run the history (stops after the first failing store)
//	read   <dir>                load the directory in a fresh process, print the digest
//	digests                     print the digest of every configuration of the history

import (
	"crypto/sha256"
	"encoding/hex"
	"fmt"
	"os"
	"runtime"
	"strconv"
	"syscall"

	"github.com/refraction-networking/conjure/pkg/client/assets"
	pb "github.com/refraction-networking/conjure/proto"
	"google.golang.org/protobuf/proto"
)

func digest(c *pb.ClientConf) string {
	b, err := proto.MarshalOptions{Deterministic: true}.Marshal(c)
	if err != nil {
		return "marshal-error"
	}
	h := sha256.Sum256(b)
	return hex.EncodeToString(h[:8])
}

// memDigest is what a reader of the in-memory state sees: the digest of the configuration returned by
// GetClientConfPtr, provided every derived accessor (generation, keys, decoy lists by family, phantom subnets) answers
// from that same configuration; an accessor that answers from another configuration is named in the result, which
// then equals neither the old nor the new digest.
func memDigest(a interface {
	GetClientConfPtr() *pb.ClientConf
	GetGeneration() uint32
	GetAllDecoys() []*pb.TLSDecoySpec
	GetV4Decoys() []*pb.TLSDecoySpec
	GetV6Decoys() []*pb.TLSDecoySpec
	GetPubkey() *[32]byte
	GetConjurePubkey() *[32]byte
	GetPhantomSubnets() *pb.PhantomSubnetsList
}) string {
	c := a.GetClientConfPtr()
	d := digest(c)
	same := func(x, y []*pb.TLSDecoySpec) bool {
		if len(x) != len(y) {
			return false
		}
		for i := range x {
			if !proto.Equal(x[i], y[i]) {
				return false
			}
		}
		return true
	}
	var v4, v6 []*pb.TLSDecoySpec
	for _, x := range c.GetDecoyList().GetTlsDecoys() {
		if x.GetIpv4Addr() != 0 {
			v4 = append(v4, x)
		}
		if x.GetIpv6Addr() != nil {
			v6 = append(v6, x)
		}
	}
	var k1, k2 [32]byte
	copy(k1[:], c.GetDefaultPubkey().GetKey())
	copy(k2[:], c.GetConjurePubkey().GetKey())
	switch {
	case a.GetGeneration() != c.GetGeneration():
		d += "!generation"
	case !same(a.GetAllDecoys(), c.GetDecoyList().GetTlsDecoys()):
		d += "!all-decoys"
	case !same(a.GetV4Decoys(), v4):
		d += "!v4-decoys"
	case !same(a.GetV6Decoys(), v6):
		d += "!v6-decoys"
	case *a.GetPubkey() != k1:
		d += "!pubkey"
	case *a.GetConjurePubkey() != k2:
		d += "!conjure-pubkey"
	case c.GetPhantomSubnetsList() != nil && !proto.Equal(a.GetPhantomSubnets(), c.GetPhantomSubnetsList()):
		d += "!phantom-subnets"
	}
	return d
}

func confA() *pb.ClientConf {
	kt := pb.KeyType_AES_GCM_128
	return &pb.ClientConf{Generation: proto.Uint32(5), DefaultPubkey: &pb.PubKey{Key: make([]byte, 32), Type: &kt}, ConjurePubkey: &pb.PubKey{Key: make([]byte, 32), Type: &kt},
		DecoyList: &pb.DecoyList{TlsDecoys: []*pb.TLSDecoySpec{pb.InitTLSDecoySpec("192.0.2.1", "a.example"), pb.InitTLSDecoySpec("192.0.2.2", "b.example")}}}
}

func decoys(n int, tag string) []*pb.TLSDecoySpec {
	out := make([]*pb.TLSDecoySpec, n)
	for i := range out {
		out[i] = pb.InitTLSDecoySpec(fmt.Sprintf("198.51.%d.%d", (i/250)%250, i%250), fmt.Sprintf("decoy-%s-%d.example.org", tag, i))
	}
	return out
}

func confB() *pb.ClientConf {
	c := confA()
	c.Generation = proto.Uint32(900)
	c.DecoyList = &pb.DecoyList{TlsDecoys: decoys(90000, "big")} // ~4 MiB
	return c
}

// history: the configurations after each step, starting from the file the parent put there (conf0)
func conf0() *pb.ClientConf {
	c := confA()
	c.Generation = proto.Uint32(1)
	return c
}

type step struct {
	name  string
	whole bool // SetClientConf (memory rollback required on failure)
	do    func(a interface {
		SetClientConf(*pb.ClientConf) error
		SetGeneration(uint32) error
		SetDecoys([]*pb.TLSDecoySpec) error
		SetPubkey(*pb.PubKey) error
		SetPhantomSubnets(*pb.PhantomSubnetsList) error
	}) error
	apply func(c *pb.ClientConf) *pb.ClientConf
}

func steps() []step {
	kt := pb.KeyType_AES_GCM_128
	key := make([]byte, 32)
	for i := range key {
		key[i] = byte(i)
	}
	type A = interface {
		SetClientConf(*pb.ClientConf) error
		SetGeneration(uint32) error
		SetDecoys([]*pb.TLSDecoySpec) error
		SetPubkey(*pb.PubKey) error
		SetPhantomSubnets(*pb.PhantomSubnetsList) error
	}
	return []step{
		{"SetClientConf(small)", true, func(a A) error { return a.SetClientConf(confA()) }, func(*pb.ClientConf) *pb.ClientConf { return confA() }},
		{"SetGeneration(7)", false, func(a A) error { return a.SetGeneration(7) }, func(c *pb.ClientConf) *pb.ClientConf { c.Generation = proto.Uint32(7); return c }},
		{"SetDecoys(3)", false, func(a A) error { return a.SetDecoys(decoys(3, "s")) }, func(c *pb.ClientConf) *pb.ClientConf {
			c.DecoyList = &pb.DecoyList{TlsDecoys: decoys(3, "s")}
			return c
		}},
		{"SetClientConf(4MiB)", true, func(a A) error { return a.SetClientConf(confB()) }, func(*pb.ClientConf) *pb.ClientConf { return confB() }},
		{"SetPubkey", false, func(a A) error { return a.SetPubkey(&pb.PubKey{Key: key, Type: &kt}) }, func(c *pb.ClientConf) *pb.ClientConf { c.DefaultPubkey = &pb.PubKey{Key: key, Type: &kt}; return c }},
		{"SetPhantomSubnets", false, func(a A) error {
			return a.SetPhantomSubnets(&pb.PhantomSubnetsList{WeightedSubnets: []*pb.PhantomSubnets{{Weight: proto.Uint32(1), Subnets: []string{"192.0.2.0/24"}}}})
		}, func(c *pb.ClientConf) *pb.ClientConf {
			c.PhantomSubnetsList = &pb.PhantomSubnetsList{WeightedSubnets: []*pb.PhantomSubnets{{Weight: proto.Uint32(1), Subnets: []string{"192.0.2.0/24"}}}}
			return c
		}},
		{"SetClientConf(small again)", true, func(a A) error { return a.SetClientConf(confA()) }, func(*pb.ClientConf) *pb.ClientConf { return confA() }},
	}
}

func marker(s string) { _ = syscall.Access("/verif-marker-"+s, 0) }

func main() {
	if len(os.Args) < 2 {
		os.Exit(2)
	}
	switch os.Args[1] {
	case "digests":
		c := conf0()
		fmt.Printf("0 init %s\n", digest(c))
		for i, s := range steps() {
			c = s.apply(proto.Clone(c).(*pb.ClientConf))
			fmt.Printf("%d %s %s %v\n", i+1, s.name, digest(c), s.whole)
		}
	case "init":
		b, _ := proto.Marshal(conf0())
		if err := os.WriteFile(os.Args[2]+"/ClientConf", b, 0o644); err != nil {
			fmt.Println("init error", err)
			os.Exit(2)
		}
	case "read":
		a, err := assets.AssetsSetDir(os.Args[2])
		if err != nil {
			fmt.Printf("READ-ERROR %v\n", err)
			return
		}
		fmt.Printf("READ-OK %s gen=%d\n", digest(a.GetClientConfPtr()), a.GetGeneration())
	case "poststore":
		// a healthy small store in a fresh process after a crash
		a, err := assets.AssetsSetDir(os.Args[2])
		if err != nil {
			fmt.Printf("POST-LOAD-ERROR %v\n", err)
			return
		}
		if err := a.SetGeneration(4242); err != nil {
			fmt.Printf("POST-STORE-ERROR %v\n", err)
			return
		}
		fmt.Printf("POST-OK %s\n", digest(a.GetClientConfPtr()))
	case "child":
		runtime.LockOSThread()
		dir, resfile := os.Args[2], os.Args[3]
		a, err := assets.AssetsSetDir(dir)
		if err != nil {
			fmt.Println("child: cannot load", err)
			os.Exit(3)
		}
		var rl syscall.Rlimit
		_ = syscall.Getrlimit(syscall.RLIMIT_FSIZE, &rl)
		if v := os.Getenv("VERIF_FSIZE"); v != "" {
			n, _ := strconv.ParseUint(v, 10, 64)
			_ = syscall.Setrlimit(syscall.RLIMIT_FSIZE, &syscall.Rlimit{Cur: n, Max: rl.Max})
		}
		only := -1
		if v := os.Getenv("VERIF_ONLY_STEP"); v != "" {
			only, _ = strconv.Atoi(v)
		}
		out := ""
		marker("begin")
		for i, s := range steps() {
			if only >= 0 && i > only {
				break
			}
			before := memDigest(a)
			err := s.do(a)
			marker(fmt.Sprintf("step-%d", i+1))
			after := memDigest(a)
			out += fmt.Sprintf("STEP %d err=%v before=%s mem=%s whole=%v gen=%d\n", i+1, err != nil, before, after, s.whole, a.GetGeneration())
			if err != nil && os.Getenv("VERIF_CONTINUE") == "" {
				break
			}
		}
		marker("end")
		_ = syscall.Setrlimit(syscall.RLIMIT_FSIZE, &rl)
		_ = os.WriteFile(resfile, []byte(out), 0o644)
	}
}
