//go:build verif

package main

// C05: the real Proxy/halfPipe on scripted connections under the explorer:
// all interleavings up to a preemption bound x every kind of I/O fault at every
// call position (environment deviations) x read/write chunkings.

import (
	"bytes"
	"encoding/json"
	"fmt"
	"io"
	"net"
	"os"
	"strings"
	"sync"
	"sync/atomic"
	"syscall"
	"time"

	"github.com/refraction-networking/conjure/pkg/station/lib"
	"github.com/refraction-networking/conjure/pkg/station/log"
	"github.com/refraction-networking/conjure/pkg/zzverif/vconn"
	"github.com/refraction-networking/conjure/pkg/zzverif/vfix"
	"github.com/refraction-networking/conjure/pkg/zzverif/vh"
	"github.com/refraction-networking/conjure/pkg/zzverif/vnet"
	"github.com/refraction-networking/conjure/pkg/zzverif/vsched"
	pb "github.com/refraction-networking/conjure/proto"
)

func opErr(op string, e error) error {
	return &net.OpError{Op: op, Net: "tcp", Source: &net.TCPAddr{IP: net.IPv4(192, 0, 2, 200), Port: 443}, Addr: &net.TCPAddr{IP: net.IPv4(203, 0, 113, 77), Port: 54321}, Err: e}
}

var (
	readFaults = []vconn.Fault{
		{Name: "EOF", Err: io.EOF}, {Name: "data+EOF", Err: io.EOF},
		{Name: "ECONNRESET", Err: opErr("read", syscall.ECONNRESET)}, {Name: "data+ECONNRESET", Err: opErr("read", syscall.ECONNRESET)},
		{Name: "timeout", Err: opErr("read", vconn.Timeout())}, {Name: "data+timeout", Err: opErr("read", vconn.Timeout())},
	}
	writeFaults = []vconn.Fault{
		{Name: "short-by-1", Short: 1}, {Name: "zero-bytes", Zero: true},
		{Name: "EPIPE", Err: opErr("write", syscall.EPIPE)}, {Name: "timeout", Err: opErr("write", vconn.Timeout())}, {Name: "ECONNRESET", Err: opErr("write", syscall.ECONNRESET)},
		// the peer stops draining: the Write blocks until the connection is closed or its write deadline passes
		{Name: "blocks", Block: true},
	}
	closeFaults = []vconn.Fault{{Name: "EIO", Err: opErr("close", syscall.EIO)}, {Name: "timeout", Err: opErr("close", vconn.Timeout())}}
	dlFaults    = []vconn.Fault{{Name: "EINVAL", Err: opErr("set", syscall.EINVAL)}}
)

func chunk(tag byte, n int) []byte {
	b := make([]byte, n)
	for i := range b {
		b[i] = tag + byte(i%13)
	}
	return b
}

// script "7,1|32769" -> up chunks 7 and 1, down chunk 32769; suffix "!" on a side = no EOF at its end
func parseSide(s string, tag byte) ([]vconn.Event, int) {
	var ev []vconn.Event
	total := 0
	noEOF := strings.HasSuffix(s, "!")
	s = strings.TrimSuffix(s, "!")
	if s != "" {
		for i, f := range strings.Split(s, ",") {
			var n int
			fmt.Sscanf(f, "%d", &n)
			ev = append(ev, vconn.Event{Data: chunk(tag+byte(i)*16, n)})
			total += n
		}
	}
	if !noEOF {
		ev = append(ev, vconn.Event{Err: io.EOF})
	}
	return ev, total
}

type dirCheck struct{ name string }

// checkDirection: writes to dst must equal the data reads from src, in order, up to the first failing/short write.
func checkDirection(name string, src, dst *vconn.Conn) (string, string) {
	var reads, writes [][]byte
	var wn []int
	var werr []string
	for _, c := range src.Calls {
		if c.Op == "Read" && c.N > 0 {
			reads = append(reads, c.Data)
		}
	}
	for _, c := range dst.Calls {
		if c.Op == "Write" {
			writes = append(writes, c.Data)
			wn = append(wn, c.N)
			werr = append(werr, c.Err)
		}
	}
	failedAt := -1
	for i := range writes {
		if i >= len(reads) {
			return "write-without-read:" + name, fmt.Sprintf("%s: write %d has no corresponding read", name, i)
		}
		if !bytes.Equal(writes[i], reads[i]) {
			return "relay-alters-stream:" + name, fmt.Sprintf("%s: write %d (%d bytes) differs from read %d (%d bytes)", name, i, len(writes[i]), i, len(reads[i]))
		}
		if werr[i] != "" || wn[i] != len(writes[i]) {
			failedAt = i
			if i != len(writes)-1 {
				return "write-after-failed-write:" + name, fmt.Sprintf("%s: %d writes after write %d failed/was short", name, len(writes)-1-i, i)
			}
		}
	}
	if failedAt < 0 && len(writes) < len(reads) {
		// every byte that was read must be forwarded unless the destination was already gone
		last := reads[len(writes)]
		withErr := false
		for _, c := range src.Calls {
			if c.Op == "Read" && c.N > 0 && bytes.Equal(c.Data, last) && c.Err != "" {
				withErr = true
			}
		}
		if dst.Closed && !withErr {
			// destination torn down by the other direction before this read could be forwarded: a failure of the other side
			for _, c := range dst.Calls {
				if c.Op == "Write" && c.Err != "" {
					return "", ""
				}
			}
		}
		k := "read-data-not-forwarded:" + name
		if withErr {
			k = "data-returned-with-error-not-forwarded:" + name
		}
		return k, fmt.Sprintf("%s: %d data reads but only %d writes (read %d returned %d bytes, with error: %v)", name, len(reads), len(writes), len(writes), len(last), withErr)
	}
	return "", ""
}

func accepted(c *vconn.Conn) int64 {
	var n int64
	for _, cl := range c.Calls {
		if cl.Op == "Write" {
			n += int64(cl.N)
		}
	}
	return n
}

func main() {
	a := vh.Parse()
	log.SetLevel(log.ErrorLevel)
	name := a.Scenario
	if a.Replay != "" {
		name = vh.LoadReplay(a.Replay)["scenario"].(string)
	}
	if name == "race" {
		raceCompanion(a)
		return
	}
	// scenario: "<up>|<down>|d<envbound>p<preemptbound>|dialfault"
	parts := strings.Split(name, "|")
	if len(parts) < 3 {
		vh.Fatal("bad scenario %q", name)
	}
	var dB, pB int
	fmt.Sscanf(parts[2], "d%dp%d", &dB, &pB)
	sel := vfix.Selector(vfix.SubnetsTOML)
	rm := vfix.Manager(nil, sel, &vfix.Tester{}, vfix.Transports{Min: true}, nil)
	m := vfix.Msg{Secret: vfix.Secret(90), Transport: pb.TransportType_Min, V4: true, Gen: 1, LibVer: 4, Covert: "93.184.216.34:443", Source: pb.RegistrationSource_API, Addr: []byte{203, 0, 113, 77}}
	regs, err := rm.VerifParseRegMessage(m.Bytes())
	if err != nil || len(regs) != 1 {
		vh.Fatal("registration: %v", err)
	}
	reg := regs[0]
	mk := func() *vsched.Scenario {
		upEv, _ := parseSide(parts[0], 'a')
		downEv, _ := parseSide(parts[1], 'A')
		client := &vconn.Conn{Name: "client", In: upEv, ChooseFaults: true, ReadFaults: readFaults, WriteFaults: writeFaults, CloseFaults: closeFaults, DLFaults: dlFaults}
		covert := &vconn.Conn{Name: "covert", In: downEv, ChooseFaults: true, ReadFaults: readFaults, WriteFaults: writeFaults, CloseFaults: closeFaults, DLFaults: dlFaults,
			Local: &net.TCPAddr{IP: net.IPv4(192, 0, 2, 200), Port: 40000}, Remote: &net.TCPAddr{IP: net.IPv4(93, 184, 216, 34), Port: 443}}
		var logbuf bytes.Buffer
		dialed := false
		dialFailed := false
		before := lib.VerifSessionsProxying()
		returned := false
		clientClosedAtReturn, covertClosedAtReturn := false, false
		body := func() {
			vnet.DialHook = func(network, address string) (net.Conn, error) {
				switch vsched.Choose(3, "dial") {
				case 1:
					dialFailed = true
					return nil, &net.OpError{Op: "dial", Net: "tcp", Addr: covert.Remote, Err: syscall.ECONNREFUSED}
				case 2:
					dialFailed = true
					return nil, &net.OpError{Op: "dial", Net: "tcp", Addr: covert.Remote, Err: syscall.ENETUNREACH}
				}
				dialed = true
				return covert, nil
			}
			lib.Proxy(reg, client, lib.VerifLogger(&logbuf, log.ErrorLevel))
			returned = true
			clientClosedAtReturn, covertClosedAtReturn = client.Closed, covert.Closed
		}
		check := func(x *vsched.Exec) *vsched.Violation {
			vnet.DialHook = nil
			if x.Verdict == vsched.VPanic {
				return &vsched.Violation{Key: "panic", What: x.Detail}
			}
			if x.Verdict == vsched.VDeadlock {
				return &vsched.Violation{Key: "goroutine-left-behind", What: "a thread never finishes: " + x.Detail}
			}
			if x.Verdict != vsched.VOK {
				return &vsched.Violation{Key: x.Verdict, What: x.Detail}
			}
			if !returned {
				return &vsched.Violation{Key: "proxy-did-not-return", What: "Proxy never returned"}
			}
			if lib.VerifSessionsProxying() != before {
				return &vsched.Violation{Key: "session-gauge-leaks", What: fmt.Sprintf("sessionsProxying %d -> %d", before, lib.VerifSessionsProxying())}
			}
			if dialFailed || !dialed {
				if len(client.Written) != 0 {
					return &vsched.Violation{Key: "bytes-to-client-without-covert", What: "client received bytes although the dial failed"}
				}
				return nil
			}
			if !clientClosedAtReturn || !covertClosedAtReturn {
				return &vsched.Violation{Key: "connection-left-open", What: fmt.Sprintf("when Proxy returned: client closed=%v covert closed=%v", clientClosedAtReturn, covertClosedAtReturn)}
			}
			if client.ClosedAt != covert.ClosedAt {
				// a direction that ends closes both connections itself: teardown must not depend on the other direction
				// noticing (it may be blocked in a Write to a peer that does not drain, until its 30 s / 2 min deadline)
				return &vsched.Violation{Key: "teardown-waits-for-other-direction", What: fmt.Sprintf("client connection closed at %v, covert connection at %v", client.ClosedAt, covert.ClosedAt)}
			}
			if k, w := checkDirection("up", client, covert); k != "" {
				return &vsched.Violation{Key: k, What: w}
			}
			if k, w := checkDirection("down", covert, client); k != "" {
				return &vsched.Violation{Key: k, What: w}
			}
			// reported byte counts
			i := strings.Index(logbuf.String(), "proxy closed ")
			if i < 0 {
				return &vsched.Violation{Key: "no-tunnel-summary", What: "no 'proxy closed' line"}
			}
			line := logbuf.String()[i+len("proxy closed "):]
			if j := strings.IndexByte(line, '\n'); j >= 0 {
				line = line[:j]
			}
			var ts struct{ BytesUp, BytesDown int64 }
			if err := json.Unmarshal([]byte(line), &ts); err != nil {
				return &vsched.Violation{Key: "tunnel-summary-unparsable", What: line}
			}
			if ts.BytesUp != accepted(covert) || ts.BytesDown != accepted(client) {
				return &vsched.Violation{Key: "byte-counts-differ", What: fmt.Sprintf("reported up=%d down=%d, delivered up=%d down=%d", ts.BytesUp, ts.BytesDown, accepted(covert), accepted(client))}
			}
			return nil
		}
		outcome := func(x *vsched.Exec) string {
			return fmt.Sprintf("%s up=%d down=%d cc=%v vc=%v", x.Verdict, accepted(covert), accepted(client), client.Closed, covert.Closed)
		}
		return &vsched.Scenario{Body: body, Check: check, Outcome: outcome}
	}
	if a.Replay != "" {
		rp := vh.LoadReplay(a.Replay)
		x, v := vsched.RunOnce(vh.Ints(rp["choices"]), 0, mk)
		for _, l := range x.Trace() {
			fmt.Fprintln(os.Stderr, l)
		}
		o := &vh.Out{Name: name, Evaluations: 1}
		if v != nil {
			o.Violations = append(o.Violations, &vh.Violation{Key: v.Key, What: v.What})
		}
		vh.Emit(o)
		return
	}
	vh.SelfCheck(name, mk)
	r := vsched.Explore(vsched.Config{Name: name, PreemptBound: pB, EnvBound: dB, Deadline: a.Deadline(), MaxPoints: 5000}, mk)
	vh.Emit(vh.FromSched(r))
}

// raceCompanion: the real Proxy free-running under the Go race detector on in-memory pipes: the client sends
// three chunks and half-way through the covert side answers and one of the two sides closes first (alternating);
// two tunnels run at once, as on a station.
func raceCompanion(a *vh.Args) {
	sel := vfix.Selector(vfix.SubnetsTOML)
	rm := vfix.Manager(nil, sel, &vfix.Tester{}, vfix.Transports{Min: true}, nil)
	m := vfix.Msg{Secret: vfix.Secret(90), Transport: pb.TransportType_Min, V4: true, Gen: 1, LibVer: 4, Covert: "93.184.216.34:443", Source: pb.RegistrationSource_API, Addr: []byte{203, 0, 113, 77}}
	regs, err := rm.VerifParseRegMessage(m.Bytes())
	if err != nil || len(regs) != 1 {
		vh.Fatal("registration: %v", err)
	}
	reg := regs[0]
	var mu sync.Mutex
	var covertEnds []net.Conn
	vnet.DialHook = func(network, address string) (net.Conn, error) {
		a, b := net.Pipe()
		mu.Lock()
		covertEnds = append(covertEnds, b)
		mu.Unlock()
		go func() { // covert server: echo a little, then maybe close
			buf := make([]byte, 4096)
			for {
				n, err := b.Read(buf)
				if n > 0 {
					if _, werr := b.Write(buf[:n/2+1]); werr != nil {
						return
					}
				}
				if err != nil {
					b.Close()
					return
				}
			}
		}()
		return a, nil
	}
	t0 := time.Now()
	var n, stuck int64
	for it := 0; time.Since(t0) < a.Budget/4 && stuck < 4; it++ {
		var wg sync.WaitGroup
		for k := 0; k < 2; k++ {
			k := k
			wg.Add(1)
			go func() {
				defer wg.Done()
				cl, st := net.Pipe()
				done := make(chan struct{})
				go func() {
					defer close(done)
					var logbuf bytes.Buffer
					lib.Proxy(reg, st, lib.VerifLogger(&logbuf, log.ErrorLevel))
				}()
				go io.Copy(io.Discard, cl)
				for c := 0; c < 3; c++ {
					if _, err := cl.Write(bytes.Repeat([]byte{byte('a' + c)}, 100+c)); err != nil {
						break
					}
				}
				if (it+k)%2 == 0 {
					cl.Close()
				} else {
					mu.Lock()
					for _, e := range covertEnds {
						e.Close()
					}
					covertEnds = covertEnds[:0]
					mu.Unlock()
					time.Sleep(200 * time.Microsecond)
					cl.Close()
				}
				select {
				case <-done:
				case <-time.After(5 * time.Second):
					// the relay did not end although both peers are gone: not this companion's business (the
					// exhaustive search decides that); release what we hold and go on
					atomic.AddInt64(&stuck, 1)
					st.Close()
				}
				atomic.AddInt64(&n, 1)
			}()
		}
		wg.Wait()
	}
	vh.Emit(&vh.Out{Name: "race", Evaluations: n, Traces: n, Exhaustive: false, Cap: "free-running sample of schedules under the race detector (adjunct)", WallS: time.Since(t0).Seconds(),
		Samples: []any{map[string]any{"iteration": "2 concurrent tunnels: client writes 3 chunks over net.Pipe, covert end echoes, client or covert closes first"}}})
}
