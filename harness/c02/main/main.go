//go:build verif

package main

// C02: BFS over register / validate / expire histories on a real
// RegistrationManager; in every new state a probe menu (genuine, replayed and
// altered first flights, random blobs) is offered to the real WrapConnection of
// every wrapping transport on every phantom. A reference registry says which
// probes may be accepted and by which registration.

import (
	"bytes"
	"encoding/binary"
	"fmt"
	"net"
	"os"
	"sort"
	"strings"
	"time"

	"github.com/refraction-networking/conjure/pkg/station/lib"
	"github.com/refraction-networking/conjure/pkg/transports"
	"github.com/refraction-networking/conjure/pkg/zzverif/vbfs"
	"github.com/refraction-networking/conjure/pkg/zzverif/vfix"
	"github.com/refraction-networking/conjure/pkg/zzverif/vh"
	"github.com/refraction-networking/conjure/pkg/zzverif/vsched"
	pb "github.com/refraction-networking/conjure/proto"
	"google.golang.org/protobuf/proto"
)

type ident struct {
	name    string
	secret  int
	tt      pb.TransportType
	pfx     int32
	phantom int
	noid    bool // prefix parameters present but without a prefix id (proto2 optional field unset: means id 0, "Min")
}

var phantoms = []net.IP{net.ParseIP("192.122.190.77").To4(), net.ParseIP("192.122.190.99").To4()}

func (id ident) params() proto.Message {
	if id.tt == pb.TransportType_Prefix {
		if id.noid {
			return &pb.PrefixTransportParams{RandomizeDstPort: proto.Bool(false)}
		}
		return &pb.PrefixTransportParams{PrefixId: proto.Int32(id.pfx)}
	}
	return &pb.GenericTransportParams{RandomizeDstPort: proto.Bool(false)}
}

// slot: registrations with the same secret and transport on the same phantom share one slot
// (the prefix id is not part of the transport identifier).
func (id ident) slot() string { return fmt.Sprintf("s%d/%v/p%d", id.secret, id.tt, id.phantom) }

type entry struct {
	id    ident
	valid bool
	used  bool      // a connection proved the secret and was marked active: the 6 h lifetime applies instead of 10 min
	born  time.Time // virtual instant at which the slot was first tracked (duplicates do not refresh it)
}

type probe struct {
	name    string
	data    []byte
	secret  int
	tt      pb.TransportType
	pfx     int32
	altered string // "" genuine, "extended", or an alteration that must never be accepted
}

type inst struct {
	rm    *lib.RegistrationManager
	ids   []ident
	ops   []string
	model map[string]*entry
	anns  []lib.VerifDetectorMsg
	regs  map[string]*lib.DecoyRegistration // slot -> tracked object
}

var sel = vfix.Selector(vfix.SubnetsTOML)

func (in *inst) build(id ident) *lib.DecoyRegistration {
	m := vfix.Msg{Secret: vfix.Secret(id.secret), Transport: id.tt, Params: id.params(), V4: true, Gen: 1, LibVer: 4, Covert: "93.184.216.34:443", Source: pb.RegistrationSource_API, Addr: []byte{203, 0, 113, 77}}
	w := m.Wrapper()
	w.RegistrationResponse = &pb.RegistrationResponse{Ipv4Addr: proto.Uint32(binary.BigEndian.Uint32(phantoms[id.phantom]))}
	reg, err := in.rm.NewRegistrationC2SWrapper(w, false)
	if err != nil {
		vh.Fatal("registration %s: %v", id.name, err)
	}
	return reg
}

func newInst(ids []ident, ops []string) *inst {
	vsched.SetManualClock(true)
	in := &inst{ids: ids, ops: ops, model: map[string]*entry{}, regs: map[string]*lib.DecoyRegistration{}}
	in.rm = vfix.Manager(nil, sel, &vfix.Tester{}, vfix.AllWrapping, nil)
	in.rm.VerifCaptureDetector(&in.anns)
	return in
}

func (in *inst) Apply(op int) (string, string) {
	name := in.ops[op]
	p := strings.SplitN(name, ":", 2)
	var id ident
	if len(p) == 2 {
		for _, x := range in.ids {
			if x.name == p[1] {
				id = x
			}
		}
	}
	switch p[0] {
	case "track":
		r := in.build(id)
		if err := in.rm.TrackRegistration(r); err != nil {
			return "track-error", err.Error()
		}
		if _, ok := in.model[id.slot()]; !ok {
			in.model[id.slot()] = &entry{id: id, born: vsched.VNow()}
			in.regs[id.slot()] = r
		}
	case "validate":
		r := in.build(id)
		in.rm.AddRegistration(r)
		e, ok := in.model[id.slot()]
		if !ok {
			e = &entry{id: id, born: vsched.VNow()}
			in.model[id.slot()] = e
			in.regs[id.slot()] = r
		}
		e.valid = true
	case "use":
		// what the connection handler does once a transport returned the registration: mark it active
		if r, ok := in.rm.GetRegistrations(net.IP(phantoms[id.phantom]))[in.rm.VerifIdentifier(in.build(id))]; ok {
			in.rm.MarkActive(r.(*lib.DecoyRegistration))
			if e, mok := in.model[id.slot()]; mok {
				e.used = true
			}
		}
	case "expire":
		vsched.ManualAdvance(11 * time.Minute)
		in.rm.RemoveOldRegistrations()
		now := vsched.VNow()
		for k, e := range in.model {
			if !e.used || now.Sub(e.born) > 6*time.Hour {
				delete(in.model, k)
				delete(in.regs, k)
			}
		}
	case "age6m":
		// six more minutes, then a sweep: only what is older than the 10 minute unused lifetime goes
		vsched.ManualAdvance(6 * time.Minute)
		in.rm.RemoveOldRegistrations()
		now := vsched.VNow()
		for k, e := range in.model {
			if (!e.used && now.Sub(e.born) > 10*time.Minute) || now.Sub(e.born) > 6*time.Hour {
				delete(in.model, k)
				delete(in.regs, k)
			}
		}
	}
	// connection handlers look registrations up all the time: every history is implicitly interleaved with a lookup
	// on every phantom after every operation (whatever a lookup caches or memoises is then in place)
	for _, ph := range phantoms {
		_ = in.rm.GetRegistrations(net.IP(ph))
	}
	return "", ""
}

func (in *inst) Key() string {
	var ks []string
	for k, e := range in.model {
		ks = append(ks, fmt.Sprintf("%s=%s:%v:%v:%dm", k, e.id.name, e.valid, e.used, int(vsched.VNow().Sub(e.born)/time.Minute)))
	}
	sort.Strings(ks)
	return strings.Join(ks, " ") + "\n" + in.rm.VerifDumpFull() + "\n" + in.rm.VerifDumpAges(vsched.VNow())
}

var menu []probe

var (
	maxlenMissing bool
	maxlenSearch  time.Duration
)

func buildMenu(thorough bool) {
	type fl struct {
		secret int
		tt     pb.TransportType
		pfx    int32
	}
	fls := []fl{{1, pb.TransportType_Min, 0}, {2, pb.TransportType_Min, 0}, {1, pb.TransportType_Prefix, 1}, {1, pb.TransportType_Prefix, 4}, {2, pb.TransportType_Prefix, 1}, {2, pb.TransportType_Prefix, 0}, {1, pb.TransportType_Obfs4, 0}, {2, pb.TransportType_Obfs4, 0}, {3, pb.TransportType_Min, 0}}
	for _, f := range fls {
		var params proto.Message = &pb.GenericTransportParams{RandomizeDstPort: proto.Bool(false)}
		if f.tt == pb.TransportType_Prefix {
			params = &pb.PrefixTransportParams{PrefixId: proto.Int32(f.pfx)}
		}
		data, err := vfix.ClientFlight(vfix.Secret(f.secret), f.tt, params)
		if err != nil {
			vh.Fatal("flight: %v", err)
		}
		base := fmt.Sprintf("s%d/%v/pfx%d", f.secret, f.tt, f.pfx)
		add := func(n string, d []byte, alt string) {
			menu = append(menu, probe{base + ":" + n, d, f.secret, f.tt, f.pfx, alt})
		}
		add("genuine", data, "")
		add("extended", append(append([]byte{}, data...), 0x41), "extended")
		add("truncated", data[:len(data)-1], "truncated")
		var pos []int
		switch f.tt {
		case pb.TransportType_Min:
			pos = []int{0, 16, 31}
		case pb.TransportType_Prefix:
			off := len(data) - 64
			pos = []int{0, off, off + 16, off + 31, off + 32, off + 48, len(data) - 1}
			if off == 0 {
				pos = pos[1:]
			}
		case pb.TransportType_Obfs4:
			pos = []int{0, 31, 40, len(data) - 32, len(data) - 17, len(data) - 16, len(data) - 1}
			if !thorough {
				pos = []int{0, len(data) - 32, len(data) - 1}
			}
		}
		for _, p := range pos {
			if p < 0 || p >= len(data) {
				continue
			}
			m := append([]byte{}, data...)
			m[p] ^= 0x04
			add(fmt.Sprintf("bitflip@%d", p), m, "bitflip")
		}
	}
	// a genuine obfs4 flight of the maximum handshake length (the client picked the maximum padding: once in about
	// 8000 handshakes); recognition must not depend on the padding the client happened to draw
	t0 := time.Now()
	sized := vfix.Obfs4FlightsOfLens(vfix.Secret(1), []int{141, 8192}, 200000)
	if d := sized[8192]; d != nil {
		menu = append(menu, probe{"s1/Obfs4/pfx0:genuine-maxlen", d, 1, pb.TransportType_Obfs4, 0, ""})
	} else {
		maxlenMissing = true
	}
	if d := sized[141]; d != nil {
		menu = append(menu, probe{"s1/Obfs4/pfx0:genuine-minlen", d, 1, pb.TransportType_Obfs4, 0, ""})
	} else {
		maxlenMissing = true
	}
	maxlenSearch = time.Since(t0)
	for i, n := range []int{32, 64, 80, 85, 96, 4096, 8192, 8193} {
		menu = append(menu, probe{fmt.Sprintf("random%d", n), noise(n, i), 0, 0, 0, "random"})
	}
}

func noise(n, salt int) []byte {
	out := make([]byte, n)
	x := uint32(2166136261 ^ uint32(salt*7919))
	for i := range out {
		x = x*16777619 + 12345
		out[i] = byte(x >> 16)
	}
	return out
}

// probeState offers the whole menu to every wrapping transport on every phantom.
func probeState(i vbfs.Instance) (string, string) {
	in := i.(*inst)
	wts := in.rm.GetWrappingTransports()
	var tts []int
	for tt := range wts {
		tts = append(tts, int(tt))
	}
	sort.Ints(tts)
	for _, pr := range menu {
		for ph := range phantoms {
			// which registration may accept this probe?
			var want *entry
			if pr.altered == "" || pr.altered == "extended" {
				slot := fmt.Sprintf("s%d/%v/p%d", pr.secret, pr.tt, ph)
				if e, ok := in.model[slot]; ok && e.valid && (pr.tt != pb.TransportType_Prefix || e.id.pfx == pr.pfx) {
					want = e
				}
			}
			accepted := 0
			for _, tti := range tts {
				t := wts[pb.TransportType(tti)]
				buf := bytes.NewBuffer(append([]byte{}, pr.data...))
				conn := &vfix.RecConn{}
				reg, _, err := t.WrapConnection(buf, conn, phantoms[ph], in.rm)
				if err != nil || reg == nil {
					if err == nil {
						return "nil-registration-without-error", fmt.Sprintf("probe %s at phantom %d via %s", pr.name, ph, t.Name())
					}
					_ = transports.ErrTryAgain
					continue
				}
				accepted++
				got, _ := reg.(*lib.DecoyRegistration)
				cls := fmt.Sprintf("%v:%s", pr.tt, pr.altered)
				if pr.altered == "" {
					cls = fmt.Sprintf("%v:genuine", pr.tt)
				}
				if want == nil {
					why := "no validated registration for that secret/transport/prefix on that phantom"
					if pr.altered != "" && pr.altered != "extended" {
						why = "the flight was altered (" + pr.altered + ")"
					}
					return "accepted-without-entitlement:" + cls, fmt.Sprintf("probe %s at phantom %v accepted by %s as %s although %s (state: %s)", pr.name, phantoms[ph], t.Name(), got.IDString(), why, strings.SplitN(in.Key(), "\n", 2)[0])
				}
				if got != in.regs[want.id.slot()] {
					return "matched-wrong-registration:" + cls, fmt.Sprintf("probe %s at phantom %v matched another registration object", pr.name, phantoms[ph])
				}
				if int(t.(interface{ Name() string }).Name()[0]) == 0 {
					return "", ""
				}
			}
			if pr.altered == "" && want != nil && accepted == 0 {
				return "genuine-flight-rejected:" + fmt.Sprint(pr.tt), fmt.Sprintf("probe %s at phantom %v rejected although its registration is validated (state: %s)", pr.name, phantoms[ph], strings.SplitN(in.Key(), "\n", 2)[0])
			}
			if accepted > 1 {
				return "accepted-by-two-transports", fmt.Sprintf("probe %s at phantom %v", pr.name, phantoms[ph])
			}
		}
	}
	return "", ""
}

func main() {
	a := vh.Parse()
	ids := []ident{
		{"s1.min.p1", 1, pb.TransportType_Min, 0, 0, false}, {"s1.pfx1.p1", 1, pb.TransportType_Prefix, 1, 0, false}, {"s1.pfx4.p1", 1, pb.TransportType_Prefix, 4, 0, false},
		{"s1.obfs4.p1", 1, pb.TransportType_Obfs4, 0, 0, false}, {"s2.min.p1", 2, pb.TransportType_Min, 0, 0, false}, {"s1.min.p2", 1, pb.TransportType_Min, 0, 1, false},
		{"s2.pfx1.p2", 2, pb.TransportType_Prefix, 1, 1, false}, {"s2.obfs4.p1", 2, pb.TransportType_Obfs4, 0, 0, false},
		// prefix parameters without a prefix id: registered as prefix 0; flights behind any other prefix are not its own
		{"s2.pfxunset.p1", 2, pb.TransportType_Prefix, 0, 0, true},
	}
	depth := 4
	if a.Thorough() {
		depth = 6
	}
	var ops []string
	for _, id := range ids {
		ops = append(ops, "track:"+id.name, "validate:"+id.name)
	}
	ops = append(ops, "expire", "age6m")
	buildMenu(a.Thorough())
	sys := &vbfs.System{OpNames: ops, New: func() vbfs.Instance { return newInst(ids, ops) }, OnNewState: probeState}
	if a.Replay != "" {
		// apply the recorded operation history to a fresh registry, then run the whole probe menu on the state it
		// ends in (genuine flights are regenerated by the real client code; the recorded violation key tells which
		// probe class failed)
		hist, _ := vh.LoadReplay(a.Replay)["history"].([]any)
		var idx []int
		opsAll := append([]string{}, ops...)
		for _, id := range ids {
			opsAll = append(opsAll, "use:"+id.name)
		}
		sysR := &vbfs.System{OpNames: opsAll, New: func() vbfs.Instance { return newInst(ids, opsAll) }, OnNewState: probeState}
		for _, h := range hist {
			for i, o := range opsAll {
				if o == h.(string) {
					idx = append(idx, i)
				}
			}
		}
		k, w, log := vbfs.Replay(sysR, idx)
		for _, l := range log {
			fmt.Fprintln(os.Stderr, l)
		}
		o := &vh.Out{Name: "replay", Evaluations: 1}
		if k != "" {
			o.Violations = append(o.Violations, &vh.Violation{Key: k, What: w})
		}
		vh.Emit(o)
		return
	}
	var first []int
	for i := range ops {
		if i%a.ShardN == a.ShardI {
			first = append(first, i)
		}
	}
	res := vbfs.Run(vbfs.Config{Depth: depth, Deadline: a.Deadline(), FirstOps: first}, sys)
	// the same search from a non-initial state: another client's validated registration already sits on phantom 1 and
	// is six minutes old (it will expire while registrations tracked from now on stay)
	seedOps := []string{"track:s2.min.p1", "validate:s2.min.p1", "age6m"}
	sys2 := &vbfs.System{OpNames: ops, OnNewState: probeState, New: func() vbfs.Instance {
		in := newInst(ids, ops)
		for _, so := range seedOps {
			for i, o := range ops {
				if o == so {
					in.Apply(i)
				}
			}
		}
		return in
	}}
	res2 := vbfs.Run(vbfs.Config{Depth: depth, Deadline: a.Deadline(), FirstOps: first}, sys2)
	res.States += res2.States
	res.Transitions += res2.Transitions
	if !res2.Exhaustive {
		res.Exhaustive, res.Cap = false, res2.Cap
	}
	for k, n := range res2.ViolCounts {
		res.ViolCounts[k] += n
	}
	for _, v := range res2.Violations {
		v.History = append(append([]string{}, seedOps...), v.History...)
		res.Violations = append(res.Violations, v)
	}
	// a third search over the two lifetimes: two clients' validated registrations (tracked a minute apart, on the same
	// and on different phantoms) of which either may have been used by a connection (6 h lifetime) or not (10 min),
	// under every order of use / ageing / sweep up to the depth; the probe menu runs in every state
	for vi, seed3 := range [][]string{
		{"track:s1.min.p1", "validate:s1.min.p1", "track:s2.min.p1", "validate:s2.min.p1"},
		{"track:s1.min.p2", "validate:s1.min.p2", "track:s2.min.p1", "validate:s2.min.p1"},
		{"track:s2.pfx1.p2", "validate:s2.pfx1.p2", "track:s1.pfx1.p1", "validate:s1.pfx1.p1"},
	} {
		ops3 := append(append([]string{}, ops...), "use:"+seed3[0][6:], "use:"+seed3[2][6:])
		allowed := map[string]bool{"expire": true, "age6m": true, "use:" + seed3[0][6:]: true, "use:" + seed3[2][6:]: true, seed3[0]: true, seed3[1]: true}
		var first3 []int
		n3 := 0
		for i, o := range ops3 {
			if allowed[o] {
				if n3%a.ShardN == (a.ShardI+vi)%a.ShardN {
					first3 = append(first3, i)
				}
				n3++
			}
		}
		sys3 := &vbfs.System{OpNames: ops3, OnNewState: probeState, New: func() vbfs.Instance {
			in := newInst(ids, ops3)
			for _, so := range seed3 {
				for i, o := range ops3 {
					if o == so {
						in.Apply(i)
					}
				}
			}
			return in
		}, Enabled: func(_ []uint8, op int) bool { return allowed[ops3[op]] }}
		res3 := vbfs.Run(vbfs.Config{Depth: depth, Deadline: a.Deadline(), FirstOps: first3}, sys3)
		res.States += res3.States
		res.Transitions += res3.Transitions
		if !res3.Exhaustive {
			res.Exhaustive, res.Cap = false, res3.Cap
		}
		for k, n := range res3.ViolCounts {
			res.ViolCounts[k] += n
		}
		for _, v := range res3.Violations {
			v.History = append(append([]string{}, seed3...), v.History...)
			res.Violations = append(res.Violations, v)
		}
	}
	o := &vh.Out{Name: fmt.Sprintf("bfs:shard%d/%d", a.ShardI, a.ShardN), Evaluations: res.States * int64(len(menu)*len(phantoms)), Nontrivial: res.States, States: res.States, Transitions: res.Transitions, Traces: res.Transitions,
		Exhaustive: res.Exhaustive, Cap: res.Cap, WallS: res.WallS, ViolCounts: res.ViolCounts,
		Extra: map[string]any{"depth_completed": res.DepthCompleted, "alphabet": ops, "probe_menu": len(menu), "phantoms": len(phantoms), "obfs4_maxlen_flight_found": !maxlenMissing, "obfs4_maxlen_search_s": maxlenSearch.Seconds()}}
	for _, v := range res.Violations {
		o.Violations = append(o.Violations, &vh.Violation{Key: v.Key, What: v.What, Replay: map[string]any{"history": v.History}})
	}
	for _, s := range res.Samples {
		o.Samples = append(o.Samples, map[string]any{"history": s, "probes_per_state": len(menu) * len(phantoms)})
	}
	vh.Emit(o)
}
