#!/bin/sh
# seedtest.sh <ID> [check ids...] : apply /verif/seeded/<ID>/patch.diff (or /tmp/seed/<ID>/patch.diff) to /repo, run checks, revert.
ID=$1; shift
P=/verif/seeded/$ID/patch.diff; [ -f "$P" ] || P=/tmp/seed/$ID/patch.diff
CHECKS=${@:-$(echo $ID | cut -d- -f1)}
cd /repo && git diff --quiet || { echo "repo dirty"; exit 3; }
git -C /repo apply "$P" || exit 3
for c in $CHECKS; do (cd /verif && ./vcheck $c 2>&1 | grep -E "VIOLATION|KNOWN|HARNESS|quick:" | cut -c1-260 | head -8); done
git -C /repo checkout -- . 
find /verif/replays -name '*.json' -delete
