"""Shared driver plumbing for the conjure model-checking harness.

Every check: instrument the *current* /repo working tree into an overlay,
build a worker binary, run worker processes (one per scenario / shard) in
parallel, aggregate their RESULT records, match violations against
known_findings.json, write evidence and replay files, print the verdict lines.
"""
import concurrent.futures as cf
import glob
import hashlib
import json
import os
import re
import subprocess
import sys
import time

VERIF = os.path.dirname(os.path.abspath(__file__))
REPO = os.environ.get("VERIF_REPO", "/repo")
# scratch root (overlays, binaries) and output root (evidence/, replays/): overridable so that a seeded change can be
# examined in its own worktree (VERIF_REPO) without touching /repo, the committed evidence or a run in progress
WORK = os.environ.get("VERIF_SCRATCH", os.path.join(VERIF, ".work"))
OUT = os.environ.get("VERIF_OUT", VERIF)
RTBASE = "pkg/zzverif"
NCPU = int(os.environ.get("VERIF_JOBS", "16"))


def goenv():
    e = dict(os.environ)
    e.update(GOPROXY="off", GOSUMDB="off", GOTOOLCHAIN="local", GOFLAGS="")
    e.pop("GOFLAGS", None)
    return e


class HarnessError(Exception):
    pass


def harness_error(msg):
    print("HARNESS-ERROR " + msg)
    sys.stdout.flush()
    sys.exit(2)


def sh(cmd, cwd=None, env=None, timeout=None, check=True):
    p = subprocess.run(cmd, cwd=cwd, env=env or goenv(), stdout=subprocess.PIPE, stderr=subprocess.STDOUT, text=True, errors="replace", timeout=timeout)
    if check and p.returncode != 0:
        raise HarnessError("command failed (%d): %s\n%s" % (p.returncode, " ".join(cmd), p.stdout[-6000:]))
    return p.stdout


def ensure_tools():
    os.makedirs(os.path.join(WORK, "bin"), exist_ok=True)
    vinstr = os.path.join(WORK, "bin", "vinstr")
    src = os.path.join(VERIF, "cmd", "vinstr", "main.go")
    if not os.path.exists(vinstr) or os.path.getmtime(vinstr) < os.path.getmtime(src):
        sh(["go", "build", "-o", vinstr, "./cmd/vinstr"], cwd=VERIF)
    return vinstr


def build(cid, rewrites=(), injects=(), pkg="", out=None, test=False, cwd=None, race=False, tags="verif", extra_overlay=None):
    """rewrites: list of (relpath, [vinstr args]); injects: list of (src rel to /verif, dst rel to /repo).
    pkg: package path to build relative to cwd (e.g. ./internal/zzverif_c13).
    Returns path of the worker binary."""
    vinstr = ensure_tools()
    work = os.path.join(WORK, cid + ("-race" if race else ""))
    os.makedirs(os.path.join(work, "rw"), exist_ok=True)
    ov = {}
    for d in sorted(glob.glob(os.path.join(VERIF, "rt", "*"))):
        if not os.path.isdir(d):
            continue
        name = os.path.basename(d)
        for f in sorted(glob.glob(os.path.join(d, "*.go"))):
            if f.endswith("_test.go"):
                continue
            ov[os.path.join(REPO, RTBASE, name, os.path.basename(f))] = f
    for rel, args in rewrites:
        src = os.path.join(REPO, rel)
        if not os.path.exists(src):
            raise HarnessError("file to instrument does not exist: " + rel)
        dst = os.path.join(work, "rw", rel.replace("/", "__"))
        sh([vinstr, "-in", src, "-out", dst] + list(args))
        ov[src] = dst
    for src, dst in injects:
        ov[os.path.join(REPO, dst)] = os.path.join(VERIF, src)
    if extra_overlay:
        ov.update(extra_overlay)
    ovp = os.path.join(work, "overlay.json")
    with open(ovp, "w") as f:
        json.dump({"Replace": ov}, f, indent=1)
    out = out or os.path.join(work, "worker")
    cmd = ["go", "test", "-c", "-vet=off"] if test else ["go", "build"]
    if race:
        cmd.append("-race")
    cmd += ["-tags", tags, "-overlay", ovp, "-o", out, pkg]
    sh(cmd, cwd=cwd or REPO, timeout=1200)
    return out


def run_worker(binary, args, timeout, cwd=None, env=None):
    t0 = time.time()
    e = goenv()
    e.setdefault("GOMAXPROCS", "2")
    if env:
        e.update(env)
    try:
        p = subprocess.run([binary] + args, cwd=cwd, env=e, stdout=subprocess.PIPE, stderr=subprocess.PIPE, text=True, errors="replace", timeout=timeout)
    except subprocess.TimeoutExpired as ex:
        return {"error": "worker timeout after %ds: %s" % (timeout, " ".join(args)), "stdout": (ex.stdout or b"")[-2000:] if ex.stdout else ""}
    results = []
    herr = None
    for line in p.stdout.splitlines():
        if line.startswith("RESULT "):
            rec = json.loads(line[7:])
            rec["_args"] = list(args)
            results.append(rec)
        elif line.startswith("HARNESS-ERROR"):
            herr = line
    if herr or p.returncode != 0 or not results:
        return {"error": "worker failed rc=%d args=%s: %s\n--stdout--\n%s\n--stderr--\n%s" % (p.returncode, " ".join(args), herr, p.stdout[-3000:], p.stderr[-6000:])}
    return {"results": results, "wall": time.time() - t0, "stderr": p.stderr[-2000:]}


def run_workers(binary, arglists, timeout, cwd=None, jobs=None, env=None):
    """Run one worker per arg list, up to NCPU in parallel. Returns list of result records."""
    outs = []
    with cf.ThreadPoolExecutor(max_workers=jobs or NCPU) as ex:
        futs = [ex.submit(run_worker, binary, a, timeout, cwd, env) for a in arglists]
        for f in futs:
            r = f.result()
            if "error" in r:
                raise HarnessError(r["error"])
            outs.extend(r["results"])
    return outs


def load_known():
    p = os.path.join(VERIF, "known_findings.json")
    if not os.path.exists(p):
        return []
    return json.load(open(p)).get("findings", [])


def match_known(pid, key, known):
    for k in known:
        if k.get("property") != pid or k.get("status") != "known":
            continue
        kk = k.get("key", "")
        if kk == key or (kk.endswith("*") and key.startswith(kk[:-1])):
            return k
    return None


def finish(pid, tier, level, results, t0, assumptions, rule, extra_cov=None, seed=0, samples_extra=None):
    """Aggregate worker results, write evidence, print verdicts, exit."""
    known = load_known()
    cov = {"evaluations": 0, "distinct_nontrivial": 0, "states": 0, "transitions": 0, "traces_validated_against_impl": 0,
           "rule": rule, "samples": [], "exhaustive": True, "scenarios": []}
    viols = []
    for r in results:
        if r.get("adjunct"):
            # free-running companion runs (race detector): listed, but neither counted as explored
            # executions nor allowed to influence the exhaustiveness statement of the deciding search
            cov.setdefault("adjunct_runs", []).append({"name": r.get("name"), "kind": r["adjunct"], "runs": r.get("evaluations", 0), "note": r.get("cap", ""),
                                                        "reports": r.get("viol_counts", {}), "wall_s": round(r.get("wall_s", 0), 2)})
            for v in r.get("violations") or []:
                v = dict(v)
                v["scenario"] = r.get("name")
                viols.append(v)
            continue
        cov["evaluations"] += r.get("evaluations", 0)
        cov["distinct_nontrivial"] += r.get("nontrivial", 0)
        cov["states"] += r.get("states", 0)
        cov["transitions"] += r.get("transitions", 0)
        cov["traces_validated_against_impl"] += r.get("traces", 0)
        if not r.get("exhaustive", False):
            cov["exhaustive"] = False
        sc = {"name": r.get("name"), "evaluations": r.get("evaluations", 0), "states": r.get("states", 0), "transitions": r.get("transitions", 0),
              "distinct_outcomes": r.get("outcomes", 0), "exhaustive": r.get("exhaustive", False), "wall_s": round(r.get("wall_s", 0), 2)}
        if r.get("cap"):
            sc["cap"] = r["cap"]
        if r.get("extra"):
            sc.update(r["extra"])
        if r.get("viol_counts"):
            sc["violating_executions_by_key"] = r["viol_counts"]
        cov["scenarios"].append(sc)
        for s in (r.get("samples") or [])[:3]:
            if len(cov["samples"]) < 12:
                cov["samples"].append(s)
        for v in r.get("violations") or []:
            v = dict(v)
            v["scenario"] = r.get("name")
            v["_args"] = r.get("_args")
            viols.append(v)
    if samples_extra:
        cov["samples"].extend(samples_extra)
    if extra_cov:
        cov.update(extra_cov)
    if level != "model_checking":
        for k in ("states", "transitions", "traces_validated_against_impl"):
            if cov.get(k, 0) == 0:
                cov.pop(k, None)
    # verdicts
    os.makedirs(os.path.join(OUT, "replays"), exist_ok=True)
    seen_known, new = {}, []
    seen_keys = set()
    for v in viols:
        if v["key"] in seen_keys:
            continue
        seen_keys.add(v["key"])
        k = match_known(pid, v["key"], known)
        if k is not None:
            seen_known.setdefault(k["key"], (k, v))
        else:
            new.append(v)
    kf_lines = []
    for kk, (k, v) in sorted(seen_known.items()):
        line = "KNOWN-FINDING: property=%s %s [%s]" % (pid, k.get("what", ""), kk)
        print(line)
        kf_lines.append(line)
    rc = 0
    vlines = []
    for v in new:
        h = hashlib.sha1((pid + v["key"]).encode()).hexdigest()[:10]
        path = os.path.join(OUT, "replays", "%s-%s.json" % (pid, h))
        with open(path, "w") as f:
            json.dump({"property": pid, "tier": tier, "key": v["key"], "what": v["what"], "scenario": v.get("scenario"), "worker_args": v.get("_args"), "replay": v.get("replay")}, f, indent=1)
        print("VIOLATION property=%s replay=%s" % (pid, path))
        print("  key=%s: %s" % (v["key"], v["what"][:600]))
        vlines.append({"key": v["key"], "what": v["what"][:600], "replay": path})
        rc = 1
    cov["known_findings_seen"] = kf_lines
    cov["violation_list"] = vlines
    ev = {"property_id": pid, "tier": tier, "seed": seed, "level": level, "coverage": cov, "assumptions": assumptions,
          "wall_s": round(time.time() - t0, 2), "violations": len(new)}
    os.makedirs(os.path.join(OUT, "evidence"), exist_ok=True)
    with open(os.path.join(OUT, "evidence", pid + ".json"), "w") as f:
        json.dump(ev, f, indent=1)
    if tier == "thorough":
        # keep the last thorough run next to the per-change evidence (which the next quick run overwrites)
        os.makedirs(os.path.join(OUT, "evidence", "thorough"), exist_ok=True)
        with open(os.path.join(OUT, "evidence", "thorough", pid + ".json"), "w") as f:
            json.dump(ev, f, indent=1)
    print("%s %s: evaluations=%d states=%s transitions=%s exhaustive=%s violations=%d known=%d wall=%.1fs" % (
        pid, tier, cov["evaluations"], cov.get("states", "-"), cov.get("transitions", "-"), cov["exhaustive"], len(new), len(seen_known), time.time() - t0))
    sys.stdout.flush()
    sys.exit(rc)


def race_reports(logprefix):
    """Parse Go race detector logs (GORACE log_path=<logprefix>): returns {key: (count, first report text)}.
    key = sorted top frames (function + file:line) of the conflicting accesses."""
    import glob
    import re
    out = {}
    for f in glob.glob(logprefix + "*"):
        for b in open(f, errors="replace").read().split("=================="):
            if "DATA RACE" not in b:
                continue
            m = re.findall(r"(?:Write|Read|Previous write|Previous read|Atomic \w+|Previous atomic \w+) at .*? by .*?:\n  (\S+)\(\)\n\s+(\S+)", b)
            k = " | ".join(sorted("%s %s" % (fn.split("/")[-1], loc.split("/")[-1].split(" ")[0]) for fn, loc in m))
            c, t = out.get(k, (0, b.strip()))
            out[k] = (c + 1, t)
    return out


def race_pass(cid, injects, pkg, scenarios, budget=60, keyfn=None, rewrites=()):
    """Build pkg with -race (nothing rewritten unless asked), run one free-running worker per scenario with the
    race detector logging to .work, and turn every distinct report into a violation of an adjunct record."""
    import glob
    w = build(cid, list(rewrites), injects, pkg, race=True)
    d = os.path.dirname(w)
    out = []
    for sc in scenarios:
        lp = os.path.join(d, "racelog-" + re.sub(r"[^A-Za-z0-9]", "_", sc))
        for f in glob.glob(lp + "*"):
            os.remove(f)
        r = run_worker(w, ["-scenario", sc, "-budget", str(budget)], budget + 120,
                       env={"GORACE": "halt_on_error=0 exitcode=0 log_path=" + lp, "GOMAXPROCS": "8"})
        if "error" in r:
            m = re.search(r"fatal error: (concurrent map[^\n]*)\n(?:.*\n)*?goroutine \d+ \[running\]:\n(\S+)\(", r["error"])
            if not m and not race_reports(lp) and r["error"].startswith("worker timeout"):
                # an adjunct run must never turn the verdict of the deciding search into a harness error: a companion
                # that does not finish (e.g. the code under test no longer lets a tunnel end) is inconclusive
                out.append({"name": sc, "evaluations": 0, "exhaustive": False, "adjunct": "go race detector, free-running",
                            "cap": "companion did not finish within its time limit: inconclusive", "violations": [], "viol_counts": {}})
                continue
            if not m and not race_reports(lp):
                raise HarnessError(r["error"])
            # the Go runtime itself stopped the process on an unsynchronised map access: that is a verdict, not a harness error
            rec = {"name": sc, "evaluations": 0, "exhaustive": False, "cap": "worker stopped by the Go runtime", "violations": [], "viol_counts": {}}
            if m:
                key = "data-race:runtime-fatal:%s in %s" % (m.group(1), m.group(2).split("/")[-1])
                rec["viol_counts"][key] = 1
                rec["violations"].append({"key": key, "what": "the Go runtime aborted the free-running companion: " + m.group(0)[:400],
                                          "replay": {"scenario": sc, "kind": "race", "report": r["error"][-4000:]}})
        else:
            rec = r["results"][0]
        rec["adjunct"] = "go race detector, free-running"
        rec.setdefault("viol_counts", {})
        rec.setdefault("violations", [])
        for k, (c, text) in sorted(race_reports(lp).items()):
            key = keyfn(sc, k, text) if keyfn else "data-race:" + k
            if key is None:
                rec.setdefault("extra", {}).setdefault("reports_outside_scope", []).append(k)
                continue
            rec["viol_counts"][key] = c
            rec["violations"].append({"key": key, "what": "race detector report (%d x) in %s: %s" % (c, sc, k),
                                      "replay": {"scenario": sc, "kind": "race", "report": text[:6000]}})
        out.append(rec)
    return out


def replay_enum(pid, binary, path, env=None, extra=()):
    """Replay for enumeration harnesses: the worker re-runs its enumeration unsharded in the recorded tier and reports
    only the violation whose record equals the recorded one (venum does the filtering)."""
    d = json.load(open(path))
    args = ["-replay", path, "-tier", d.get("tier", "quick"), "-budget", "3000"] + list(extra)
    wa = d.get("worker_args") or []
    i = 0
    while i < len(wa):  # the recorded worker arguments, minus sharding / budget / tier
        if wa[i] in ("-shard", "-shards", "-budget", "-tier", "-replay"):
            i += 2
            continue
        args.append(wa[i])
        i += 1
    out = run_worker(binary, args, 3600, env=env)
    if "error" in out:
        raise HarnessError(out["error"])
    vs = [v for r in out["results"] for v in (r.get("violations") or [])]
    for v in vs:
        print("  key=%s: %s" % (v["key"], v["what"][:400]))
    if vs:
        print("VIOLATION property=%s replay=%s" % (pid, path))
        sys.exit(1)
    print("replay: no violation")
    sys.exit(0)
