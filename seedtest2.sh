#!/bin/sh
# seedtest2.sh <SID> <check id> [tier]: run a check against the scratch worktree /tmp/seed/<SID>/repo (patch applied there),
# with its own scratch and output directories, so that /repo, the committed evidence and runs in progress are untouched.
# If /tmp/seed/<SID>/repo does not exist it is created from /verif/seeded/<SID>/patch.diff.
SID=$1; CHK=$2; TIER=${3:-quick}
D=/tmp/seed/$SID
if [ ! -d $D/repo ]; then
  mkdir -p $D && git -C /repo worktree add --detach $D/repo HEAD >/dev/null 2>&1 || exit 3
  git -C $D/repo apply /verif/seeded/$SID/patch.diff || exit 3
fi
cd /verif && VERIF_REPO=$D/repo VERIF_SCRATCH=$D/work VERIF_OUT=$D/out ./vcheck $CHK --tier $TIER 2>&1 | grep -E "VIOLATION|KNOWN|HARNESS|key=|$TIER:" | cut -c1-300 | head -${4:-14}
