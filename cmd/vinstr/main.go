// vinstr rewrites one Go source file for exploration under vsched:
//
//	vinstr -in f.go -out g.go [-swap sync=<importpath>]... [-go] [-chan] [-maprange expr]...
//
// Import swaps keep the local package name, so selectors keep compiling as
// long as the shim mirrors the identifiers used (checked by the compiler).
// -go rewrites `go f(x)` into vsched.Go(func(){ f(x) }) with arguments
// pre-evaluated. -chan rewrites channel send/recv/close/select/range into
// vchan helper calls.
package main

import (
	"bytes"
	"flag"
	"fmt"
	"go/ast"
	"go/format"
	"go/parser"
	"go/token"
	"os"
	"strconv"
	"strings"
)

type multi []string

func (m *multi) String() string     { return strings.Join(*m, ",") }
func (m *multi) Set(s string) error { *m = append(*m, s); return nil }

const rtBase = "github.com/refraction-networking/conjure/pkg/zzverif/"

var (
	counter int
	needSch bool
	needCh  bool
	chanVar = map[string]bool{}
)

func tmp() string { counter++; return fmt.Sprintf("_vz%d", counter) }

func die(f string, a ...any) {
	fmt.Fprintf(os.Stderr, "HARNESS-ERROR vinstr: "+f+"\n", a...)
	os.Exit(2)
}

func main() {
	var swaps, rangeChans, rangeMaps multi
	in := flag.String("in", "", "input file")
	out := flag.String("out", "", "output file")
	doGo := flag.Bool("go", false, "rewrite go statements")
	doChan := flag.Bool("chan", false, "rewrite channel operations")
	flag.Var(&swaps, "swap", "import swap old=new (new relative to zzverif base unless it contains a dot)")
	flag.Var(&rangeChans, "rangechan", "expression text that is a channel when used in for-range (needed with -chan)")
	flag.Var(&rangeMaps, "maprange", "expression text of a string-keyed map whose for-range is made to visit keys in sorted order")
	flag.Parse()
	for _, r := range rangeMaps {
		mapVar[r] = true
	}
	fset := token.NewFileSet()
	f, err := parser.ParseFile(fset, *in, nil, parser.ParseComments)
	if err != nil {
		die("parse %s: %v", *in, err)
	}
	sw := map[string]string{}
	for _, s := range swaps {
		kv := strings.SplitN(s, "=", 2)
		if len(kv) != 2 {
			die("bad -swap %q", s)
		}
		n := kv[1]
		if !strings.Contains(n, ".") {
			n = rtBase + n
		}
		sw[kv[0]] = n
	}
	for _, r := range rangeChans {
		chanVar[r] = true
	}
	done := map[string]bool{}
	for _, imp := range f.Imports {
		p, _ := strconv.Unquote(imp.Path.Value)
		if n, ok := sw[p]; ok {
			if imp.Name == nil {
				base := p[strings.LastIndex(p, "/")+1:]
				// versioned import paths (.../v2) and known odd names
				switch p {
				case "github.com/hashicorp/golang-lru":
					base = "lru"
				case "github.com/pion/dtls/v2":
					base = "dtls"
				}
				imp.Name = ast.NewIdent(base)
			}
			imp.Path.Value = strconv.Quote(n)
			imp.EndPos = 0
			done[p] = true
		}
	}
	for p := range sw {
		if !done[p] {
			// not an error: the file may simply not import it (edited tree)
			fmt.Fprintf(os.Stderr, "vinstr: note: %s does not import %q\n", *in, p)
		}
	}
	if *doGo || *doChan || len(rangeMaps) > 0 {
		rewriteFile(f, *doGo, *doChan)
	}
	if needSch {
		addImport(f, "zzvsched", rtBase+"vsched")
	}
	if needCh {
		addImport(f, "zzvchan", rtBase+"vchan")
	}
	var buf bytes.Buffer
	if err := format.Node(&buf, fset, f); err != nil {
		die("print: %v", err)
	}
	if err := os.WriteFile(*out, buf.Bytes(), 0o644); err != nil {
		die("write: %v", err)
	}
}

func addImport(f *ast.File, name, path string) {
	spec := &ast.ImportSpec{Name: ast.NewIdent(name), Path: &ast.BasicLit{Kind: token.STRING, Value: strconv.Quote(path)}}
	for _, d := range f.Decls {
		if gd, ok := d.(*ast.GenDecl); ok && gd.Tok == token.IMPORT {
			// never touch a cgo declaration (import "C" must stay alone, right behind its preamble comment)
			if len(gd.Specs) == 1 {
				if is, ok := gd.Specs[0].(*ast.ImportSpec); ok && is.Path.Value == `"C"` {
					continue
				}
			}
			gd.Specs = append(gd.Specs, spec)
			if !gd.Lparen.IsValid() {
				gd.Lparen = gd.Pos()
				gd.Rparen = gd.End()
			}
			f.Imports = append(f.Imports, spec)
			return
		}
	}
	gd := &ast.GenDecl{Tok: token.IMPORT, Specs: []ast.Spec{spec}}
	f.Decls = append([]ast.Decl{gd}, f.Decls...)
	f.Imports = append(f.Imports, spec)
}

func sel(pkg, name string) ast.Expr {
	return &ast.SelectorExpr{X: ast.NewIdent(pkg), Sel: ast.NewIdent(name)}
}

func call(fn ast.Expr, args ...ast.Expr) *ast.CallExpr { return &ast.CallExpr{Fun: fn, Args: args} }

// rewriteFile walks all statement lists.
func rewriteFile(f *ast.File, doGo, doChan bool) {
	var walkBlock func(list []ast.Stmt) []ast.Stmt
	var walkStmt func(s ast.Stmt) ast.Stmt
	var walkExpr func(e ast.Expr) ast.Expr

	walkExpr = func(e ast.Expr) ast.Expr {
		if e == nil {
			return nil
		}
		switch v := e.(type) {
		case *ast.FuncLit:
			v.Body.List = walkBlock(v.Body.List)
			return v
		case *ast.UnaryExpr:
			v.X = walkExpr(v.X)
			if doChan && v.Op == token.ARROW {
				needCh = true
				return call(sel("zzvchan", "Recv"), v.X)
			}
			return v
		case *ast.CallExpr:
			v.Fun = walkExpr(v.Fun)
			for i := range v.Args {
				v.Args[i] = walkExpr(v.Args[i])
			}
			if doChan {
				if id, ok := v.Fun.(*ast.Ident); ok && id.Name == "close" && len(v.Args) == 1 {
					needCh = true
					return call(sel("zzvchan", "Close"), v.Args[0])
				}
			}
			return v
		case *ast.ParenExpr:
			v.X = walkExpr(v.X)
			return v
		case *ast.SelectorExpr:
			v.X = walkExpr(v.X)
			return v
		case *ast.BinaryExpr:
			v.X = walkExpr(v.X)
			v.Y = walkExpr(v.Y)
			return v
		case *ast.StarExpr:
			v.X = walkExpr(v.X)
			return v
		case *ast.IndexExpr:
			v.X = walkExpr(v.X)
			v.Index = walkExpr(v.Index)
			return v
		case *ast.SliceExpr:
			v.X = walkExpr(v.X)
			v.Low, v.High, v.Max = walkExpr(v.Low), walkExpr(v.High), walkExpr(v.Max)
			return v
		case *ast.TypeAssertExpr:
			v.X = walkExpr(v.X)
			return v
		case *ast.KeyValueExpr:
			v.Value = walkExpr(v.Value)
			return v
		case *ast.CompositeLit:
			for i := range v.Elts {
				v.Elts[i] = walkExpr(v.Elts[i])
			}
			return v
		}
		return e
	}

	walkStmt = func(s ast.Stmt) ast.Stmt {
		if s == nil {
			return nil
		}
		switch v := s.(type) {
		case *ast.BlockStmt:
			v.List = walkBlock(v.List)
		case *ast.IfStmt:
			v.Init = walkStmt(v.Init)
			v.Cond = walkExpr(v.Cond)
			v.Body.List = walkBlock(v.Body.List)
			if v.Else != nil {
				v.Else = walkStmt(v.Else)
			}
		case *ast.ForStmt:
			v.Init = walkStmt(v.Init)
			v.Cond = walkExpr(v.Cond)
			v.Post = walkStmt(v.Post)
			v.Body.List = walkBlock(v.Body.List)
		case *ast.RangeStmt:
			v.X = walkExpr(v.X)
			v.Body.List = walkBlock(v.Body.List)
			if doChan && chanVar[exprText(v.X)] {
				return rangeChan(v)
			}
			if mapVar[exprText(v.X)] {
				return rangeMap(v)
			}
		case *ast.SwitchStmt:
			v.Init = walkStmt(v.Init)
			v.Tag = walkExpr(v.Tag)
			v.Body.List = walkBlock(v.Body.List)
		case *ast.TypeSwitchStmt:
			v.Init = walkStmt(v.Init)
			v.Assign = walkStmt(v.Assign)
			v.Body.List = walkBlock(v.Body.List)
		case *ast.CaseClause:
			for i := range v.List {
				v.List[i] = walkExpr(v.List[i])
			}
			v.Body = walkBlock(v.Body)
		case *ast.SelectStmt:
			if doChan {
				return rewriteSelect(v, walkBlock, walkExpr)
			}
			v.Body.List = walkBlock(v.Body.List)
		case *ast.CommClause:
			v.Comm = walkStmt(v.Comm)
			v.Body = walkBlock(v.Body)
		case *ast.LabeledStmt:
			v.Stmt = walkStmt(v.Stmt)
		case *ast.ExprStmt:
			v.X = walkExpr(v.X)
		case *ast.AssignStmt:
			// v, ok := <-ch
			if doChan && len(v.Lhs) == 2 && len(v.Rhs) == 1 {
				if u, ok := v.Rhs[0].(*ast.UnaryExpr); ok && u.Op == token.ARROW {
					needCh = true
					u.X = walkExpr(u.X)
					v.Rhs[0] = call(sel("zzvchan", "Recv2"), u.X)
					return v
				}
			}
			for i := range v.Rhs {
				v.Rhs[i] = walkExpr(v.Rhs[i])
			}
			for i := range v.Lhs {
				v.Lhs[i] = walkExpr(v.Lhs[i])
			}
		case *ast.DeclStmt:
			if gd, ok := v.Decl.(*ast.GenDecl); ok {
				for _, sp := range gd.Specs {
					if vs, ok := sp.(*ast.ValueSpec); ok {
						for i := range vs.Values {
							vs.Values[i] = walkExpr(vs.Values[i])
						}
					}
				}
			}
		case *ast.ReturnStmt:
			for i := range v.Results {
				v.Results[i] = walkExpr(v.Results[i])
			}
		case *ast.DeferStmt:
			v.Call = walkExpr(v.Call).(*ast.CallExpr)
		case *ast.SendStmt:
			v.Chan = walkExpr(v.Chan)
			v.Value = walkExpr(v.Value)
			if doChan {
				needCh = true
				return &ast.ExprStmt{X: call(sel("zzvchan", "Send"), v.Chan, v.Value)}
			}
		case *ast.GoStmt:
			v.Call.Fun = walkExpr(v.Call.Fun)
			for i := range v.Call.Args {
				v.Call.Args[i] = walkExpr(v.Call.Args[i])
			}
			if doGo {
				return rewriteGo(v)
			}
		}
		return s
	}
	walkBlock = func(list []ast.Stmt) []ast.Stmt {
		for i := range list {
			list[i] = walkStmt(list[i])
		}
		return list
	}
	for _, d := range f.Decls {
		switch v := d.(type) {
		case *ast.FuncDecl:
			if v.Body != nil {
				v.Body.List = walkBlock(v.Body.List)
			}
		case *ast.GenDecl:
			for _, sp := range v.Specs {
				if vs, ok := sp.(*ast.ValueSpec); ok {
					for i := range vs.Values {
						vs.Values[i] = walkExpr(vs.Values[i])
					}
				}
			}
		}
	}
}

func exprText(e ast.Expr) string {
	var buf bytes.Buffer
	_ = format.Node(&buf, token.NewFileSet(), e)
	return buf.String()
}

// go f(a, b)  =>  { _f := f; _a, _b := a, b; zzvsched.Go(func(){ _f(_a,_b) }) }
func rewriteGo(g *ast.GoStmt) ast.Stmt {
	needSch = true
	c := g.Call
	var stmts []ast.Stmt
	var fn ast.Expr = c.Fun
	if _, isLit := c.Fun.(*ast.FuncLit); !isLit {
		// bind the function value (and method receiver) now
		if id, ok := c.Fun.(*ast.Ident); !ok || id.Obj != nil || true {
			if _, isIdent := c.Fun.(*ast.Ident); !isIdent {
				n := tmp()
				stmts = append(stmts, &ast.AssignStmt{Lhs: []ast.Expr{ast.NewIdent(n)}, Tok: token.DEFINE, Rhs: []ast.Expr{c.Fun}})
				fn = ast.NewIdent(n)
			}
		}
	}
	var args []ast.Expr
	if len(c.Args) > 0 {
		var lhs []ast.Expr
		for range c.Args {
			n := tmp()
			lhs = append(lhs, ast.NewIdent(n))
			args = append(args, ast.NewIdent(n))
		}
		stmts = append(stmts, &ast.AssignStmt{Lhs: lhs, Tok: token.DEFINE, Rhs: c.Args})
	}
	inner := &ast.CallExpr{Fun: fn, Args: args, Ellipsis: c.Ellipsis}
	if c.Ellipsis.IsValid() {
		inner.Ellipsis = 1
	}
	lit := &ast.FuncLit{Type: &ast.FuncType{Params: &ast.FieldList{}}, Body: &ast.BlockStmt{List: []ast.Stmt{&ast.ExprStmt{X: inner}}}}
	stmts = append(stmts, &ast.ExprStmt{X: call(sel("zzvsched", "Go"), lit)})
	return &ast.BlockStmt{List: stmts}
}

// for v := range ch { body }  =>  for v, _ok := Recv2(ch); _ok; v, _ok = Recv2(ch) { body }
var mapVar = map[string]bool{}

// rangeMap turns   for k, v := range m { body }   into
//
//	for _, k := range vsched.SortedKeys(m) { v, ok := m[k]; if !ok { continue }; body }
//
// so that the iteration order of a map is owned by the harness (it is otherwise random per execution, which
// breaks replay). Entries deleted during the loop are skipped as with the built-in range; entries added during the
// loop are not visited (the built-in range may or may not visit them).
func rangeMap(r *ast.RangeStmt) ast.Stmt {
	needSch = true
	if r.Tok != token.DEFINE || r.Key == nil {
		die("-maprange needs 'for k[, v] := range m'")
	}
	key := r.Key
	if id, ok := key.(*ast.Ident); ok && id.Name == "_" {
		key = ast.NewIdent(tmp())
	}
	okn := ast.NewIdent(tmp())
	var val ast.Expr = ast.NewIdent("_")
	if r.Value != nil {
		val = r.Value
	}
	pre := []ast.Stmt{
		&ast.AssignStmt{Lhs: []ast.Expr{val, okn}, Tok: token.DEFINE, Rhs: []ast.Expr{&ast.IndexExpr{X: r.X, Index: key}}},
		&ast.IfStmt{Cond: &ast.UnaryExpr{Op: token.NOT, X: okn}, Body: &ast.BlockStmt{List: []ast.Stmt{&ast.BranchStmt{Tok: token.CONTINUE}}}},
	}
	if id, ok := val.(*ast.Ident); ok && id.Name == "_" {
		pre[0] = &ast.AssignStmt{Lhs: []ast.Expr{ast.NewIdent("_"), okn}, Tok: token.DEFINE, Rhs: []ast.Expr{&ast.IndexExpr{X: r.X, Index: key}}}
	}
	return &ast.RangeStmt{
		Key: ast.NewIdent("_"), Value: key, Tok: token.DEFINE,
		X:    &ast.CallExpr{Fun: &ast.SelectorExpr{X: ast.NewIdent("zzvsched"), Sel: ast.NewIdent("SortedKeys")}, Args: []ast.Expr{r.X}},
		Body: &ast.BlockStmt{List: append(pre, r.Body.List...)},
	}
}

func rangeChan(r *ast.RangeStmt) ast.Stmt {
	needCh = true
	okn := tmp()
	var key ast.Expr = ast.NewIdent("_")
	tok := token.DEFINE
	if r.Key != nil {
		key = r.Key
		tok = r.Tok
	}
	if tok == token.ASSIGN {
		// for v = range ch: need ok declared before
		die("for-range over channel with '=' not supported")
	}
	rc := func() ast.Expr { return call(sel("zzvchan", "Recv2"), r.X) }
	return &ast.ForStmt{
		Init: &ast.AssignStmt{Lhs: []ast.Expr{key, ast.NewIdent(okn)}, Tok: token.DEFINE, Rhs: []ast.Expr{rc()}},
		Cond: ast.NewIdent(okn),
		Post: &ast.AssignStmt{Lhs: []ast.Expr{key, ast.NewIdent(okn)}, Tok: token.ASSIGN, Rhs: []ast.Expr{rc()}},
		Body: r.Body,
	}
}

// select rewriting, see DESIGN.md appendix B.
func rewriteSelect(s *ast.SelectStmt, walkBlock func([]ast.Stmt) []ast.Stmt, walkExpr func(ast.Expr) ast.Expr) ast.Stmt {
	needCh = true
	var pre []ast.Stmt
	var caseVars []ast.Expr
	sw := &ast.SwitchStmt{Body: &ast.BlockStmt{}}
	hasDefault := false
	idx := 0
	if len(s.Body.List) == 0 {
		return &ast.ExprStmt{X: call(sel("zzvchan", "BlockForever"))}
	}
	for _, cl := range s.Body.List {
		cc := cl.(*ast.CommClause)
		body := walkBlock(cc.Body)
		if cc.Comm == nil {
			hasDefault = true
			sw.Body.List = append(sw.Body.List, &ast.CaseClause{List: nil, Body: body})
			continue
		}
		cv := tmp()
		var mk ast.Expr
		var bind ast.Stmt
		switch c := cc.Comm.(type) {
		case *ast.SendStmt:
			mk = call(sel("zzvchan", "S"), walkExpr(c.Chan), walkExpr(c.Value))
		case *ast.ExprStmt:
			u, ok := c.X.(*ast.UnaryExpr)
			if !ok || u.Op != token.ARROW {
				die("select case: unsupported expr")
			}
			mk = call(sel("zzvchan", "R"), walkExpr(u.X))
		case *ast.AssignStmt:
			u, ok := c.Rhs[0].(*ast.UnaryExpr)
			if !ok || u.Op != token.ARROW {
				// could be a type assertion around a receive etc.
				die("select case: unsupported assignment rhs")
			}
			mk = call(sel("zzvchan", "R"), walkExpr(u.X))
			rhs := []ast.Expr{&ast.SelectorExpr{X: ast.NewIdent(cv), Sel: ast.NewIdent("V")}}
			if len(c.Lhs) == 2 {
				rhs = append(rhs, &ast.SelectorExpr{X: ast.NewIdent(cv), Sel: ast.NewIdent("OK")})
			}
			bind = &ast.AssignStmt{Lhs: c.Lhs, Tok: c.Tok, Rhs: rhs}
		default:
			die("select case: unsupported comm")
		}
		pre = append(pre, &ast.AssignStmt{Lhs: []ast.Expr{ast.NewIdent(cv)}, Tok: token.DEFINE, Rhs: []ast.Expr{mk}})
		caseVars = append(caseVars, ast.NewIdent(cv))
		if bind != nil {
			// silence "declared and not used" for := bindings the body ignores
			body = append([]ast.Stmt{bind}, body...)
			if as := bind.(*ast.AssignStmt); as.Tok == token.DEFINE {
				for _, l := range as.Lhs {
					if id, ok := l.(*ast.Ident); ok && id.Name != "_" {
						body = append(body[:1], append([]ast.Stmt{&ast.AssignStmt{Lhs: []ast.Expr{ast.NewIdent("_")}, Tok: token.ASSIGN, Rhs: []ast.Expr{ast.NewIdent(id.Name)}}}, body[1:]...)...)
					}
				}
			}
		}
		sw.Body.List = append(sw.Body.List, &ast.CaseClause{List: []ast.Expr{&ast.BasicLit{Kind: token.INT, Value: strconv.Itoa(idx)}}, Body: body})
		idx++
	}
	hd := "false"
	if hasDefault {
		hd = "true"
	} else {
		// keep the statement terminating when every case returns (a select without default is)
		sw.Body.List = append(sw.Body.List, &ast.CaseClause{List: nil, Body: []ast.Stmt{&ast.ExprStmt{X: call(ast.NewIdent("panic"), &ast.BasicLit{Kind: token.STRING, Value: strconv.Quote("vchan: select returned no case")})}}})
	}
	args := append([]ast.Expr{ast.NewIdent(hd)}, caseVars...)
	sw.Tag = call(sel("zzvchan", "Select"), args...)
	return &ast.BlockStmt{List: append(pre, sw)}
}
