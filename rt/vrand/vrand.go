// Package vrand mirrors math/rand. Operations on the process-global source are
// scheduling points (so interleavings of Seed/Read/Intn by different threads are
// explored) or, when a script is installed, environment answers.
package vrand

import (
	"math/rand"

	"github.com/refraction-networking/conjure/pkg/zzverif/vsched"
)

type (
	Rand     = rand.Rand
	Source   = rand.Source
	Source64 = rand.Source64
	Zipf     = rand.Zipf
)

var (
	New       = rand.New
	NewSource = rand.NewSource
	NewZipf   = rand.NewZipf
)

// Script, if non-nil, answers global-source draws instead of the real source.
// kind is "Intn", "Int63n", "Float64", ...; n the bound (0 if none). It returns
// the value and whether it handled the draw.
var Script func(kind string, n int64) (float64, bool)

func pt(k string) {
	if vsched.Active() {
		vsched.Yield("rand." + k)
	}
}

func Seed(seed int64) { pt("Seed"); rand.Seed(seed) }
func Read(p []byte) (int, error) {
	pt("Read")
	return rand.Read(p)
}
func Intn(n int) int {
	pt("Intn")
	if Script != nil {
		if v, ok := Script("Intn", int64(n)); ok {
			return int(v)
		}
	}
	return rand.Intn(n)
}
func Int63n(n int64) int64 {
	pt("Int63n")
	if Script != nil {
		if v, ok := Script("Int63n", n); ok {
			return int64(v)
		}
	}
	return rand.Int63n(n)
}
func Int31n(n int32) int32 {
	pt("Int31n")
	if Script != nil {
		if v, ok := Script("Int31n", int64(n)); ok {
			return int32(v)
		}
	}
	return rand.Int31n(n)
}
func Float64() float64 {
	pt("Float64")
	if Script != nil {
		if v, ok := Script("Float64", 0); ok {
			return v
		}
	}
	return rand.Float64()
}
func Float32() float32     { pt("Float32"); return rand.Float32() }
func Int63() int64         { pt("Int63"); return rand.Int63() }
func Int31() int32         { pt("Int31"); return rand.Int31() }
func Int() int             { pt("Int"); return rand.Int() }
func Uint32() uint32       { pt("Uint32"); return rand.Uint32() }
func Uint64() uint64       { pt("Uint64"); return rand.Uint64() }
func Perm(n int) []int     { pt("Perm"); return rand.Perm(n) }
func ExpFloat64() float64  { pt("ExpFloat64"); return rand.ExpFloat64() }
func NormFloat64() float64 { pt("NormFloat64"); return rand.NormFloat64() }
func Shuffle(n int, swap func(i, j int)) {
	pt("Shuffle")
	rand.Shuffle(n, swap)
}
