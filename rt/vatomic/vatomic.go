// Package vatomic mirrors the part of sync/atomic the station uses; every
// operation is a scheduling point (atomics are synchronisation operations).
package vatomic

import (
	"sync/atomic"

	"github.com/refraction-networking/conjure/pkg/zzverif/vsched"
)

func pt(kind string, p any) {
	if vsched.Active() {
		vsched.Do(&vsched.Op{Kind: kind, Obj: vsched.ObjLabel("atomic", p)})
	}
}

func LoadUint32(p *uint32) uint32     { pt("atomic.load", p); return atomic.LoadUint32(p) }
func StoreUint32(p *uint32, v uint32) { pt("atomic.store", p); atomic.StoreUint32(p, v) }
func AddUint32(p *uint32, d uint32) uint32 {
	pt("atomic.add", p)
	return atomic.AddUint32(p, d)
}
func CompareAndSwapUint32(p *uint32, o, n uint32) bool {
	pt("atomic.cas", p)
	return atomic.CompareAndSwapUint32(p, o, n)
}
func LoadInt64(p *int64) int64         { pt("atomic.load", p); return atomic.LoadInt64(p) }
func StoreInt64(p *int64, v int64)     { pt("atomic.store", p); atomic.StoreInt64(p, v) }
func AddInt64(p *int64, d int64) int64 { pt("atomic.add", p); return atomic.AddInt64(p, d) }
func LoadUint64(p *uint64) uint64      { pt("atomic.load", p); return atomic.LoadUint64(p) }
func StoreUint64(p *uint64, v uint64)  { pt("atomic.store", p); atomic.StoreUint64(p, v) }
func AddUint64(p *uint64, d uint64) uint64 {
	pt("atomic.add", p)
	return atomic.AddUint64(p, d)
}
func LoadInt32(p *int32) int32         { pt("atomic.load", p); return atomic.LoadInt32(p) }
func StoreInt32(p *int32, v int32)     { pt("atomic.store", p); atomic.StoreInt32(p, v) }
func AddInt32(p *int32, d int32) int32 { pt("atomic.add", p); return atomic.AddInt32(p, d) }
