// Package vctx mirrors package context; deadlines run on the virtual clock.
package vctx

import (
	"context"
	"time"

	"github.com/refraction-networking/conjure/pkg/zzverif/vsched"
)

type (
	Context         = context.Context
	CancelFunc      = context.CancelFunc
	CancelCauseFunc = context.CancelCauseFunc
)

var (
	Background       = context.Background
	TODO             = context.TODO
	WithCancel       = context.WithCancel
	WithCancelCause  = context.WithCancelCause
	WithValue        = context.WithValue
	Cause            = context.Cause
	Canceled         = context.Canceled
	DeadlineExceeded = context.DeadlineExceeded
	WithoutCancel    = context.WithoutCancel
	AfterFunc        = context.AfterFunc
)

type timerCtx struct {
	context.Context
	deadline time.Time
	timedOut bool
}

func (c *timerCtx) Deadline() (time.Time, bool) { return c.deadline, true }
func (c *timerCtx) Err() error {
	if c.timedOut {
		return context.DeadlineExceeded
	}
	return c.Context.Err()
}

// WithDeadline mirrors context.WithDeadline on the virtual clock.
func WithDeadline(parent context.Context, d time.Time) (context.Context, context.CancelFunc) {
	if !vsched.Active() {
		return context.WithDeadline(parent, d)
	}
	inner, cancel := context.WithCancel(parent)
	c := &timerCtx{Context: inner, deadline: d}
	t := vsched.AddTimer(d.Sub(vsched.VNow()), func() {
		if inner.Err() == nil {
			c.timedOut = true
			cancel()
		}
	})
	return c, func() { t.Stop(); cancel() }
}

// WithTimeout mirrors context.WithTimeout on the virtual clock.
func WithTimeout(parent context.Context, d time.Duration) (context.Context, context.CancelFunc) {
	if !vsched.Active() {
		return context.WithTimeout(parent, d)
	}
	return WithDeadline(parent, vsched.VNow().Add(d))
}
