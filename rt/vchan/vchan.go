// Package vchan models channel operations under vsched while keeping the real
// channel as the carrier (so that timer channels, ctx.Done() and un-rewritten
// code interoperate). Buffered channels use the real buffer; unbuffered
// channels rendezvous through the scheduler. Which ready select case fires is
// an explorer choice.
package vchan

import (
	"fmt"
	"reflect"

	"github.com/refraction-networking/conjure/pkg/zzverif/vsched"
)

type waiter struct {
	ptr    uintptr
	send   bool
	val    reflect.Value // value to send (send) / received value (recv)
	ok     bool          // recv: value came from a send (false: closed)
	done   bool          // completed by the partner
	sel    *selState     // non-nil if part of a select
	caseIx int
	thread int
}

type selState struct {
	done   bool
	caseIx int
}

type registry struct {
	waiters map[uintptr][]*waiter
	closed  map[uintptr]bool
	stash   map[uintptr][]reflect.Value // values taken from foreign senders while probing
}

var regs = map[*vsched.Exec]*registry{}

func reg() *registry {
	x := vsched.Cur()
	r := regs[x]
	if r == nil {
		// one registry per execution; older ones are dropped
		for k := range regs {
			delete(regs, k)
		}
		r = &registry{waiters: map[uintptr][]*waiter{}, closed: map[uintptr]bool{}, stash: map[uintptr][]reflect.Value{}}
		regs[x] = r
	}
	return r
}

func (r *registry) add(w *waiter) { r.waiters[w.ptr] = append(r.waiters[w.ptr], w) }
func (r *registry) remove(w *waiter) {
	l := r.waiters[w.ptr]
	for i, x := range l {
		if x == w {
			r.waiters[w.ptr] = append(l[:i:i], l[i+1:]...)
			return
		}
	}
}

func (r *registry) partner(ptr uintptr, wantSend bool, self *waiter) *waiter {
	for _, w := range r.waiters[ptr] {
		if w == self || w.done || w.send != wantSend {
			continue
		}
		if w.sel != nil && (w.sel.done || (self != nil && self.sel != nil && self.sel == w.sel)) {
			continue
		}
		return w
	}
	return nil
}

// probeClosed learns whether an empty channel was closed by foreign code.
func (r *registry) probeClosed(ch reflect.Value, ptr uintptr) bool {
	if r.closed[ptr] {
		return true
	}
	if ch.Len() > 0 || len(r.stash[ptr]) > 0 {
		return false
	}
	x, ok := ch.TryRecv()
	if !x.IsValid() {
		return false // would block
	}
	if !ok {
		r.closed[ptr] = true
		return true
	}
	r.stash[ptr] = append(r.stash[ptr], x)
	return false
}

func recvReady(r *registry, ch reflect.Value, ptr uintptr, self *waiter) bool {
	if !ch.IsValid() || ch.IsNil() {
		return false
	}
	if len(r.stash[ptr]) > 0 || ch.Len() > 0 {
		return true
	}
	if r.partner(ptr, true, self) != nil {
		return true
	}
	return r.probeClosed(ch, ptr)
}

func sendReady(r *registry, ch reflect.Value, ptr uintptr, self *waiter) bool {
	if !ch.IsValid() || ch.IsNil() {
		return false
	}
	if r.closed[ptr] {
		return true // will panic, as Go does
	}
	if ch.Cap() > 0 {
		return ch.Len() < ch.Cap()
	}
	return r.partner(ptr, false, self) != nil
}

func doRecv(r *registry, ch reflect.Value, ptr uintptr, self *waiter) (reflect.Value, bool) {
	if st := r.stash[ptr]; len(st) > 0 {
		r.stash[ptr] = st[1:]
		return st[0], true
	}
	if ch.Len() > 0 {
		x, ok := ch.TryRecv()
		if x.IsValid() {
			return x, ok
		}
	}
	if p := r.partner(ptr, true, self); p != nil {
		p.done = true
		if p.sel != nil {
			p.sel.done, p.sel.caseIx = true, p.caseIx
		}
		return p.val, true
	}
	// closed
	x, _ := ch.TryRecv()
	if !x.IsValid() {
		x = reflect.Zero(ch.Type().Elem())
	}
	return x, false
}

func doSend(r *registry, ch reflect.Value, ptr uintptr, v reflect.Value, self *waiter) {
	if r.closed[ptr] {
		panic("send on closed channel")
	}
	if ch.Cap() > 0 {
		if !ch.TrySend(v) {
			panic("vchan: buffered send lost its slot (foreign sender?)")
		}
		return
	}
	p := r.partner(ptr, false, self)
	if p == nil {
		panic("vchan: unbuffered send without partner")
	}
	p.done, p.val, p.ok = true, v, true
	if p.sel != nil {
		p.sel.done, p.sel.caseIx = true, p.caseIx
	}
}

func label(kind string, ptr uintptr) string {
	return vsched.ObjLabel("ch", ptr)
}

// conv turns the sent operand into the channel's element type (the operand may be an
// untyped constant's default type or a concrete type assigned to an interface element).
func conv[T any](v any) T {
	if t, ok := v.(T); ok {
		return t
	}
	var zero T
	if v == nil {
		return zero
	}
	return reflect.ValueOf(v).Convert(reflect.TypeOf(&zero).Elem()).Interface().(T)
}

// Send is `ch <- v`.
func Send[T any, V any](ch chan<- T, v0 V) {
	v := conv[T](v0)
	if !vsched.Active() {
		ch <- v
		return
	}
	r := reg()
	cv := reflect.ValueOf(ch)
	if cv.IsNil() {
		vsched.Do(&vsched.Op{Kind: "send", Obj: "nil-chan", Enabled: func() bool { return false }})
		return
	}
	ptr := cv.Pointer()
	w := &waiter{ptr: ptr, send: true, val: reflect.ValueOf(&v).Elem(), thread: vsched.ThreadID()}
	r.add(w)
	vsched.Do(&vsched.Op{Kind: "send", Obj: label("ch", ptr), Enabled: func() bool { return w.done || sendReady(r, cv, ptr, w) }})
	r.remove(w)
	if w.done {
		return
	}
	doSend(r, cv, ptr, w.val, w)
}

// Recv2 is `v, ok := <-ch`.
func Recv2[T any](ch <-chan T) (T, bool) {
	if !vsched.Active() {
		v, ok := <-ch
		return v, ok
	}
	r := reg()
	cv := reflect.ValueOf(ch)
	var zero T
	if cv.IsNil() {
		vsched.Do(&vsched.Op{Kind: "recv", Obj: "nil-chan", Enabled: func() bool { return false }})
		return zero, false
	}
	ptr := cv.Pointer()
	w := &waiter{ptr: ptr, thread: vsched.ThreadID()}
	r.add(w)
	vsched.Do(&vsched.Op{Kind: "recv", Obj: label("ch", ptr), Enabled: func() bool { return w.done || recvReady(r, cv, ptr, w) }})
	r.remove(w)
	var x reflect.Value
	ok := false
	if w.done {
		x, ok = w.val, w.ok
	} else {
		x, ok = doRecv(r, cv, ptr, w)
	}
	if !x.IsValid() {
		return zero, ok
	}
	return x.Interface().(T), ok
}

// Recv is `<-ch`.
func Recv[T any](ch <-chan T) T {
	v, _ := Recv2(ch)
	return v
}

// Close is `close(ch)`.
func Close[T any](ch chan<- T) {
	if vsched.Active() {
		r := reg()
		ptr := reflect.ValueOf(ch).Pointer()
		if r.closed[ptr] {
			panic("close of closed channel")
		}
		r.closed[ptr] = true
	}
	close(ch)
}

// Case is one select case.
type Case[T any] struct {
	V    T
	OK   bool
	send bool
	ch   reflect.Value
	val  reflect.Value
}

type caseI interface {
	isSend() bool
	chanV() reflect.Value
	sendVal() reflect.Value
	setRecv(v reflect.Value, ok bool)
}

func (c *Case[T]) isSend() bool           { return c.send }
func (c *Case[T]) chanV() reflect.Value   { return c.ch }
func (c *Case[T]) sendVal() reflect.Value { return c.val }
func (c *Case[T]) setRecv(v reflect.Value, ok bool) {
	c.OK = ok
	if v.IsValid() {
		c.V = v.Interface().(T)
	}
}

// R builds a receive case.
func R[T any](ch <-chan T) *Case[T] { return &Case[T]{ch: reflect.ValueOf(ch)} }

// S builds a send case.
func S[T any, V any](ch chan<- T, v0 V) *Case[T] {
	v := conv[T](v0)
	return &Case[T]{send: true, ch: reflect.ValueOf(ch), val: reflect.ValueOf(&v).Elem()}
}

// PreferClosedRecv resolves select nondeterminism in favour of a ready receive on a closed, empty channel
// (a cancelled context's Done channel): scenarios use it to ask whether a stop request CAN win against
// pending input, i.e. whether the code leaves that choice to select at all.
var PreferClosedRecv bool

func preferred(r *registry, cases []caseI, ws []*waiter, rd []int) int {
	if !PreferClosedRecv {
		return -1
	}
	for k, i := range rd {
		if !cases[i].isSend() && r.closed[ws[i].ptr] && cases[i].chanV().Len() == 0 && len(r.stash[ws[i].ptr]) == 0 {
			return k
		}
	}
	return -1
}

// Select performs a select over cases; returns the index of the case that fired or -1 for default.
func Select(hasDefault bool, cases ...caseI) int {
	if !vsched.Active() {
		scs := make([]reflect.SelectCase, 0, len(cases)+1)
		for _, c := range cases {
			if c.isSend() {
				scs = append(scs, reflect.SelectCase{Dir: reflect.SelectSend, Chan: c.chanV(), Send: c.sendVal()})
			} else {
				scs = append(scs, reflect.SelectCase{Dir: reflect.SelectRecv, Chan: c.chanV()})
			}
		}
		if hasDefault {
			scs = append(scs, reflect.SelectCase{Dir: reflect.SelectDefault})
		}
		i, v, ok := reflect.Select(scs)
		if hasDefault && i == len(cases) {
			return -1
		}
		if !cases[i].isSend() {
			cases[i].setRecv(v, ok)
		}
		return i
	}
	r := reg()
	st := &selState{}
	ws := make([]*waiter, len(cases))
	for i, c := range cases {
		cv := c.chanV()
		if !cv.IsValid() || cv.IsNil() {
			continue
		}
		w := &waiter{ptr: cv.Pointer(), send: c.isSend(), sel: st, caseIx: i, thread: vsched.ThreadID()}
		if c.isSend() {
			w.val = c.sendVal()
		}
		ws[i] = w
		r.add(w)
	}
	ready := func() []int {
		var out []int
		for i, c := range cases {
			if ws[i] == nil {
				continue
			}
			if c.isSend() {
				if sendReady(r, c.chanV(), ws[i].ptr, ws[i]) {
					out = append(out, i)
				}
			} else if recvReady(r, c.chanV(), ws[i].ptr, ws[i]) {
				out = append(out, i)
			}
		}
		return out
	}
	alt := vsched.Do(&vsched.Op{Kind: "select", Obj: fmt.Sprintf("%d cases", len(cases)),
		Enabled: func() bool { return st.done || hasDefault || len(ready()) > 0 },
		NAlt: func() int {
			if st.done {
				return 1
			}
			n := len(ready())
			if n == 0 {
				return 1
			}
			return n
		}})
	for _, w := range ws {
		if w != nil {
			r.remove(w)
		}
	}
	if st.done {
		i := st.caseIx
		if !cases[i].isSend() {
			cases[i].setRecv(ws[i].val, ws[i].ok)
		}
		return i
	}
	rd := ready()
	if len(rd) == 0 {
		if hasDefault {
			return -1
		}
		panic("vchan: select resumed with nothing ready")
	}
	if alt >= len(rd) {
		alt = len(rd) - 1
	}
	if k := preferred(r, cases, ws, rd); k >= 0 {
		alt = k
	}
	i := rd[alt]
	c := cases[i]
	if c.isSend() {
		doSend(r, c.chanV(), ws[i].ptr, c.sendVal(), ws[i])
	} else {
		v, ok := doRecv(r, c.chanV(), ws[i].ptr, ws[i])
		c.setRecv(v, ok)
	}
	return i
}

// BlockForever is `select {}`.
func BlockForever() {
	if !vsched.Active() {
		select {}
	}
	vsched.Do(&vsched.Op{Kind: "select", Obj: "forever", Enabled: func() bool { return false }})
}
