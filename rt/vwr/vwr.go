// Package vwr wraps github.com/mroth/weightedrand: Pick draws from the
// process-global math/rand source, so it is a scheduling point.
package vwr

import (
	"math/rand"

	wr "github.com/mroth/weightedrand"
	"github.com/refraction-networking/conjure/pkg/zzverif/vsched"
)

type Choice = wr.Choice

var NewChoice = wr.NewChoice

type Chooser struct{ c *wr.Chooser }

func NewChooser(cs ...Choice) (*Chooser, error) {
	c, err := wr.NewChooser(cs...)
	if err != nil {
		return nil, err
	}
	return &Chooser{c}, nil
}

func (c *Chooser) Pick() interface{} {
	if vsched.Active() {
		vsched.Yield("rand.Intn(wr.Pick)")
	}
	return c.c.Pick()
}

func (c *Chooser) PickSource(rs *rand.Rand) interface{} { return c.c.PickSource(rs) }
