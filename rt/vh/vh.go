// Package vh holds the small amount of plumbing shared by all harness
// workers: argument parsing, result emission, budget handling.
package vh

import (
	"encoding/json"
	"flag"
	"fmt"
	"os"
	"strings"
	"syscall"
	"time"

	"github.com/refraction-networking/conjure/pkg/zzverif/vsched"
)

// Violation is one property violation in worker output.
type Violation struct {
	Key    string `json:"key"`
	What   string `json:"what"`
	Replay any    `json:"replay,omitempty"`
}

// Out is the worker's result record (one per scenario / shard).
type Out struct {
	Name        string           `json:"name"`
	Evaluations int64            `json:"evaluations"`
	Nontrivial  int64            `json:"nontrivial"`
	States      int64            `json:"states"`
	Transitions int64            `json:"transitions"`
	Traces      int64            `json:"traces"`
	Outcomes    int              `json:"outcomes"`
	Exhaustive  bool             `json:"exhaustive"`
	Cap         string           `json:"cap,omitempty"`
	Violations  []*Violation     `json:"violations,omitempty"`
	ViolCounts  map[string]int64 `json:"viol_counts,omitempty"`
	Samples     []any            `json:"samples,omitempty"`
	Extra       map[string]any   `json:"extra,omitempty"`
	WallS       float64          `json:"wall_s"`
}

// Args are the common worker flags.
type Args struct {
	Scenario string
	Tier     string
	Budget   time.Duration
	Replay   string
	Seed     int64
	ShardI   int
	ShardN   int
	Start    time.Time
	Rest     []string
}

// Parse parses the common flags.
func Parse() *Args {
	a := &Args{Start: time.Now()}
	var budget float64
	flag.StringVar(&a.Scenario, "scenario", "", "scenario name")
	flag.StringVar(&a.Tier, "tier", "quick", "quick|thorough")
	flag.Float64Var(&budget, "budget", 120, "seconds")
	flag.StringVar(&a.Replay, "replay", "", "replay file")
	flag.Int64Var(&a.Seed, "seed", 0, "seed")
	flag.IntVar(&a.ShardI, "shard", 0, "shard index")
	flag.IntVar(&a.ShardN, "shards", 1, "shard count")
	flag.Parse()
	a.Budget = time.Duration(budget * float64(time.Second))
	a.Rest = flag.Args()
	return a
}

// Deadline returns the wall-clock instant at which exploration should stop.
func (a *Args) Deadline() time.Time { return a.Start.Add(a.Budget) }

// Thorough reports whether the thorough tier was requested.
func (a *Args) Thorough() bool { return a.Tier == "thorough" }

// Emit prints the result record.
func Emit(o *Out) {
	b, err := json.Marshal(o)
	if err != nil {
		fmt.Printf("HARNESS-ERROR marshal: %v\n", err)
		os.Exit(2)
	}
	fmt.Printf("RESULT %s\n", b)
}

// Fatal reports a harness error (never a verdict).
// ReportFd is the descriptor harness reports go to (1 unless a harness that captures the code's output at descriptor
// level has moved the real standard output elsewhere).
var ReportFd = 1

func Fatal(f string, a ...any) {
	// written to descriptor 1 itself: a harness that captures the code's output by
	// re-pointing os.Stdout must not swallow its own error report
	msg := fmt.Sprintf("HARNESS-ERROR "+f+"\n", a...)
	if _, err := syscall.Write(ReportFd, []byte(msg)); err != nil {
		fmt.Print(msg)
	}
	os.Exit(2)
}

// FromSched converts an explorer result.
func FromSched(r *vsched.Result) *Out {
	o := &Out{Name: r.Name, Evaluations: r.Executions, Nontrivial: int64(r.Outcomes), States: int64(r.States), Transitions: r.Transitions,
		Traces: r.Executions, Outcomes: r.Outcomes, Exhaustive: r.Exhaustive, Cap: r.Cap, WallS: r.WallS, ViolCounts: r.ViolationsByKey,
		Extra: map[string]any{"preemption_bound": r.PreemptBound, "env_bound": r.EnvBound, "deadlocks": r.Deadlocks, "panics": r.Panics, "max_points": r.MaxPoints, "outcome_samples": r.OutcomeSamples}}
	for _, v := range r.Violations {
		o.Violations = append(o.Violations, &Violation{Key: v.Key, What: v.What, Replay: map[string]any{"scenario": r.Name, "choices": v.Choices, "trace": v.Trace, "verdict": v.Verdict, "detail": v.Detail}})
	}
	for _, t := range r.SampleTraces {
		o.Samples = append(o.Samples, map[string]any{"scenario": r.Name, "schedule": t})
	}
	return o
}

// LoadReplay reads a replay file's "replay" object.
func LoadReplay(path string) map[string]any {
	b, err := os.ReadFile(path)
	if err != nil {
		Fatal("replay file: %v", err)
	}
	var m map[string]any
	if err := json.Unmarshal(b, &m); err != nil {
		Fatal("replay file: %v", err)
	}
	if r, ok := m["replay"].(map[string]any); ok {
		return r
	}
	return m
}

// Ints converts a JSON array to []int.
func Ints(v any) []int {
	a, _ := v.([]any)
	out := make([]int, len(a))
	for i, e := range a {
		f, _ := e.(float64)
		out[i] = int(f)
	}
	return out
}

// SelfCheck runs the default schedule twice and one recorded non-default
// schedule twice and requires identical traces (determinism of the harness).
func SelfCheck(name string, mk func() *vsched.Scenario) {
	x1, _ := vsched.RunOnce(nil, 0, mk)
	x2, _ := vsched.RunOnce(nil, 0, mk)
	t1, t2 := strings.Join(x1.Trace(), "\n"), strings.Join(x2.Trace(), "\n")
	if t1 != t2 || x1.Verdict != x2.Verdict {
		Fatal("%s: default schedule is not deterministic:\n%s\n----\n%s", name, t1, t2)
	}
	// deviate at the last point that had an alternative
	ch := append([]int{}, x1.Choices...)
	for i := len(ch) - 1; i >= 0; i-- {
		if x1.Points[i].NEnabled > 1 {
			ch = append(ch[:i], 1)
			y1, _ := vsched.RunOnce(ch, 0, mk)
			y2, _ := vsched.RunOnce(y1.Choices, 0, mk)
			if strings.Join(y1.Trace(), "\n") != strings.Join(y2.Trace(), "\n") || y1.Verdict != y2.Verdict {
				Fatal("%s: replay of a recorded schedule diverged", name)
			}
			break
		}
	}
}
