// Package vconn provides scripted, fault-injecting net.Conn objects whose
// blocking behaviour is modelled under vsched: Read blocks (is disabled) until
// the script has data for it, the deadline expires on the virtual clock, or
// another thread closes the connection.
package vconn

import (
	"fmt"
	"net"
	"os"
	"syscall"
	"time"

	"github.com/refraction-networking/conjure/pkg/zzverif/vsched"
)

// Event is one inbound item of a connection's script.
type Event struct {
	At          time.Duration // earliest virtual time (since execution start) at which it is available
	Data        []byte
	Err         error // delivered after Data (or together with it if WithData)
	WithData    bool  // deliver Err in the same Read call as the last bytes of Data
	AfterWrites int   // only available once this many bytes were written to this connection
}

// Fault is a non-default answer of one I/O call.
type Fault struct {
	Name  string
	Err   error
	Short int  // Write: accept only len-Short bytes (with Err nil => short write without error)
	Zero  bool // Write: accept 0 bytes, nil error
	Block bool // Write: the peer does not drain; the call blocks until the connection is closed or its write deadline passes
}

// Call records one I/O call.
type Call struct {
	Op    string
	N     int
	Err   string
	At    time.Duration
	Data  []byte
	Fault string
}

// Conn is a scripted connection.
type Conn struct {
	Name         string
	In           []Event
	Echo         bool // bytes written become readable (covert echo server)
	Local        net.Addr
	Remote       net.Addr
	ReadFaults   []Fault // offered (as environment choices) at every Read when ChooseFaults
	WriteFaults  []Fault
	CloseFaults  []Fault
	DLFaults     []Fault
	ChooseFaults bool
	// FaultAt, if non-nil, decides faults without the explorer: (op, call index of that op) -> fault or nil
	FaultAt func(op string, idx int) *Fault
	// MaxRead caps the bytes returned by one Read (0 = no cap)
	MaxRead int
	// PipeTo makes this the local end of an in-memory link: bytes written here become
	// inbound segments of PipeTo, re-segmented at the absolute stream offsets PipeCuts
	// (a segment never spans a cut; consecutive writes between two cuts coalesce while
	// unread), each cut adding PipeGap of virtual delay. Close delivers EOF to the peer.
	PipeTo     *Conn
	PipeCuts   []int
	PipeGap    []time.Duration
	pipeOff    int
	pipeLag    time.Duration
	cutsSeen   int
	lastWasCut bool

	inIdx, inOff int
	rdl, wdl     time.Time
	Closed       bool
	ClosedAt     time.Duration
	CloseCalls   int
	Written      []byte
	WriteCalls   [][]byte
	Calls        []Call
	opCount      map[string]int
	DeadlineSets []time.Time
	ReadBytes    int
}

func now() time.Duration { return time.Duration(vsched.ClockNanos()) }

func (c *Conn) fault(op string, menu []Fault) *Fault {
	if c.opCount == nil {
		c.opCount = map[string]int{}
	}
	idx := c.opCount[op]
	c.opCount[op]++
	if c.FaultAt != nil {
		return c.FaultAt(op, idx)
	}
	if !c.ChooseFaults || len(menu) == 0 {
		return nil
	}
	k := vsched.Choose(1+len(menu), fmt.Sprintf("%s.%s#%d", c.Name, op, idx))
	if k == 0 {
		return nil
	}
	return &menu[k-1]
}

func (c *Conn) log(op string, n int, err error, data []byte, f *Fault) {
	cl := Call{Op: op, N: n, At: now()}
	if err != nil {
		cl.Err = err.Error()
	}
	if f != nil {
		cl.Fault = f.Name
	}
	if data != nil {
		cl.Data = append([]byte{}, data...)
	}
	c.Calls = append(c.Calls, cl)
}

type timeoutErr struct{}

func (timeoutErr) Error() string   { return "i/o timeout" }
func (timeoutErr) Timeout() bool   { return true }
func (timeoutErr) Temporary() bool { return true }
func (timeoutErr) Is(t error) bool { return t == os.ErrDeadlineExceeded }

// OpErr wraps err the way the runtime does, with both endpoints filled in.
func (c *Conn) OpErr(op string, err error) error {
	return &net.OpError{Op: op, Net: "tcp", Source: c.Local, Addr: c.Remote, Err: err}
}

func (c *Conn) eventReady() bool {
	if c.inIdx >= len(c.In) {
		return false
	}
	e := c.In[c.inIdx]
	return now() >= e.At && len(c.Written) >= e.AfterWrites
}

// Read implements net.Conn.
func (c *Conn) Read(p []byte) (int, error) {
	f := c.fault("Read", c.ReadFaults)
	if f != nil && !(f.Err == nil) && f.Name != "" && !hasPrefix(f.Name, "data+") {
		c.log("Read", 0, f.Err, nil, f)
		return 0, f.Err
	}
	if vsched.Active() {
		vsched.Do(&vsched.Op{Kind: "io.read", Obj: c.Name,
			Enabled: func() bool {
				return c.Closed || c.eventReady() || (!c.rdl.IsZero() && !vsched.VNow().Before(c.rdl))
			},
			WakeAt: func() (int64, bool) {
				best := int64(-1)
				if !c.rdl.IsZero() {
					best = int64(c.rdl.Sub(vsched.Cur().Base))
				}
				if c.inIdx < len(c.In) && len(c.Written) >= c.In[c.inIdx].AfterWrites {
					at := int64(c.In[c.inIdx].At)
					if best < 0 || at < best {
						best = at
					}
				}
				return best, best >= 0
			}})
	}
	if c.Closed {
		err := c.OpErr("read", net.ErrClosed)
		c.log("Read", 0, err, nil, nil)
		return 0, err
	}
	if !c.rdl.IsZero() && !vsched.VNow().Before(c.rdl) {
		err := c.OpErr("read", timeoutErr{})
		c.log("Read", 0, err, nil, nil)
		return 0, err
	}
	if !c.eventReady() {
		// not under the scheduler and nothing scripted: behave like EOF
		c.log("Read", 0, fmt.Errorf("EOF"), nil, nil)
		return 0, errEOF
	}
	e := &c.In[c.inIdx]
	rest := e.Data[c.inOff:]
	n := len(rest)
	if n > len(p) {
		n = len(p)
	}
	if c.MaxRead > 0 && n > c.MaxRead {
		n = c.MaxRead
	}
	copy(p, rest[:n])
	c.inOff += n
	c.ReadBytes += n
	var err error
	if c.inOff >= len(e.Data) {
		if e.Err != nil && (e.WithData || len(e.Data) == 0) {
			err = e.Err
			c.inIdx++
			c.inOff = 0
		} else if e.Err != nil {
			// error comes with the next call: turn the event into a pure error event
			e.Data, c.inOff = nil, 0
		} else {
			c.inIdx++
			c.inOff = 0
		}
	}
	if f != nil && hasPrefix(f.Name, "data+") && n > 0 {
		err = f.Err // data returned together with an injected error
	}
	c.log("Read", n, err, p[:n], f)
	return n, err
}

func hasPrefix(s, p string) bool { return len(s) >= len(p) && s[:len(p)] == p }

var errEOF = fmt.Errorf("EOF")

func init() {
	// use io.EOF without importing io twice in callers' minds
	errEOF = eof()
}

// Write implements net.Conn.
func (c *Conn) Write(p []byte) (int, error) {
	f := c.fault("Write", c.WriteFaults)
	if vsched.Active() {
		vsched.Yield("io.write " + c.Name)
	}
	if f != nil && f.Block && vsched.Active() {
		vsched.Do(&vsched.Op{Kind: "io.write.blocked", Obj: c.Name,
			Enabled: func() bool { return c.Closed || (!c.wdl.IsZero() && !vsched.VNow().Before(c.wdl)) },
			WakeAt: func() (int64, bool) {
				if c.wdl.IsZero() {
					return 0, false
				}
				return int64(c.wdl.Sub(vsched.Cur().Base)), true
			}})
		if !c.Closed && !c.wdl.IsZero() && !vsched.VNow().Before(c.wdl) {
			err := c.OpErr("write", timeoutErr{})
			c.log("Write", 0, err, p, f)
			return 0, err
		}
	}
	if c.Closed {
		err := c.OpErr("write", net.ErrClosed)
		c.log("Write", 0, err, p, nil)
		return 0, err
	}
	if !c.wdl.IsZero() && !vsched.VNow().Before(c.wdl) {
		err := c.OpErr("write", timeoutErr{})
		c.log("Write", 0, err, p, nil)
		return 0, err
	}
	n := len(p)
	var err error
	if f != nil {
		switch {
		case f.Zero:
			n = 0
		case f.Short > 0:
			n = len(p) - f.Short
			if n < 0 {
				n = 0
			}
			err = f.Err
		default:
			n = 0
			err = f.Err
		}
	}
	c.Written = append(c.Written, p[:n]...)
	c.WriteCalls = append(c.WriteCalls, append([]byte{}, p...))
	if c.Echo && n > 0 {
		c.In = append(c.In, Event{At: now(), Data: append([]byte{}, p[:n]...)})
	}
	if c.PipeTo != nil && n > 0 {
		c.pipe(p[:n])
	}
	c.log("Write", n, err, p, f)
	return n, err
}

// Close implements net.Conn.
func (c *Conn) Close() error {
	f := c.fault("Close", c.CloseFaults)
	c.CloseCalls++
	if c.Closed {
		err := c.OpErr("close", net.ErrClosed)
		c.log("Close", 0, err, nil, nil)
		return err
	}
	c.Closed = true
	c.ClosedAt = now()
	if c.PipeTo != nil {
		c.PipeTo.In = append(c.PipeTo.In, Event{At: now() + c.pipeLag, Err: eof()})
	}
	var err error
	if f != nil {
		err = f.Err
	}
	c.log("Close", 0, err, nil, f)
	return err
}

func (c *Conn) LocalAddr() net.Addr {
	if c.Local == nil {
		return &net.TCPAddr{IP: net.IPv4(192, 0, 2, 200), Port: 443}
	}
	return c.Local
}

func (c *Conn) RemoteAddr() net.Addr {
	if c.Remote == nil {
		return &net.TCPAddr{IP: net.IPv4(203, 0, 113, 77), Port: 54321}
	}
	return c.Remote
}

func (c *Conn) setDL(op string, t time.Time, r, w bool) error {
	f := c.fault(op, c.DLFaults)
	if c.Closed {
		err := c.OpErr("set", net.ErrClosed)
		c.log(op, 0, err, nil, nil)
		return err
	}
	if f != nil {
		c.log(op, 0, f.Err, nil, f)
		return f.Err
	}
	if r {
		c.rdl = t
	}
	if w {
		c.wdl = t
	}
	c.DeadlineSets = append(c.DeadlineSets, t)
	c.log(op, 0, nil, nil, nil)
	return nil
}

func (c *Conn) SetDeadline(t time.Time) error     { return c.setDL("SetDeadline", t, true, true) }
func (c *Conn) SetReadDeadline(t time.Time) error { return c.setDL("SetReadDeadline", t, true, false) }
func (c *Conn) SetWriteDeadline(t time.Time) error {
	return c.setDL("SetWriteDeadline", t, false, true)
}

// Errno helpers for fault menus.
var (
	ECONNRESET   = syscall.ECONNRESET
	EPIPE        = syscall.EPIPE
	ECONNREFUSED = syscall.ECONNREFUSED
)

// Timeout returns a runtime-shaped timeout error.
func Timeout() error { return timeoutErr{} }

// pipe forwards written bytes to the peer as inbound segments.
func (c *Conn) pipe(p []byte) {
	peer := c.PipeTo
	for len(p) > 0 {
		// next cut strictly after the current offset
		n := len(p)
		cutHere := false
		for _, cut := range c.PipeCuts {
			if cut > c.pipeOff && cut-c.pipeOff <= n {
				if cut-c.pipeOff < n || true {
					n = cut - c.pipeOff
					cutHere = true
				}
				break
			}
		}
		piece := append([]byte{}, p[:n]...)
		at := now() + c.pipeLag
		// coalesce with the last pending, completely unread segment of the same instant
		li := len(peer.In) - 1
		if li >= 0 && (li > peer.inIdx || (li == peer.inIdx && peer.inOff == 0)) && peer.In[li].Err == nil && peer.In[li].At == at && !c.lastWasCut {
			peer.In[li].Data = append(peer.In[li].Data, piece...)
		} else {
			peer.In = append(peer.In, Event{At: at, Data: piece})
		}
		c.lastWasCut = false
		c.pipeOff += n
		p = p[n:]
		if cutHere {
			c.lastWasCut = true
			if len(c.PipeGap) > 0 {
				c.pipeLag += c.PipeGap[c.cutsSeen%len(c.PipeGap)]
			}
			c.cutsSeen++
		}
	}
}
