package vconn

import "io"

func eof() error { return io.EOF }
