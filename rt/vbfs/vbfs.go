// Package vbfs is an explicit-state breadth-first search over operation
// histories. A state is the history that reaches it; a successor is computed by
// replaying the history on a fresh real object and applying one more
// operation. States are deduplicated by a canonical key supplied by the
// instance (reference-model state + implementation digest).
package vbfs

import (
	"fmt"
	"strings"
	"time"
)

// Instance is a fresh pair (real object, reference model).
type Instance interface {
	// Apply performs operation op on both and returns a violation description
	// (key, text) if the implementation disagrees with the model, else "".
	Apply(op int) (key, what string)
	// Key returns the canonical state key.
	Key() string
}

// System describes the alphabet.
type System struct {
	OpNames []string
	New     func() Instance
	// Enabled optionally filters operations given the history (may be nil).
	Enabled func(hist []uint8, op int) bool
	// OnNewState, if set, is called once for every newly discovered state (e.g. to run a
	// probe menu against it); a non-empty key is a violation in that state.
	OnNewState func(inst Instance) (key, what string)
}

// Violation is a failing history.
type Violation struct {
	Key     string
	What    string
	History []string
	Ops     []int
}

// Result of a search.
type Result struct {
	States         int64
	Transitions    int64
	DepthCompleted int
	MaxDepth       int
	Exhaustive     bool
	Cap            string
	Violations     []*Violation
	ViolCounts     map[string]int64
	Samples        [][]string
	WallS          float64
}

// Config bounds the search.
type Config struct {
	Depth    int
	Deadline time.Time
	// FirstOps restricts the first operation to these indices (sharding); nil = all.
	FirstOps  []int
	MaxStates int64
}

func names(sys *System, h []uint8) []string {
	out := make([]string, len(h))
	for i, o := range h {
		out[i] = sys.OpNames[o]
	}
	return out
}

// Run performs the BFS.
func Run(cfg Config, sys *System) *Result {
	t0 := time.Now()
	res := &Result{Exhaustive: true, ViolCounts: map[string]int64{}}
	seen := map[string]struct{}{}
	firstSeen := map[string]bool{}
	init := sys.New()
	seen[init.Key()] = struct{}{}
	res.States = 1
	if sys.OnNewState != nil {
		if vk, vw := sys.OnNewState(init); vk != "" {
			res.ViolCounts[vk]++
			firstSeen[vk] = true
			res.Violations = append(res.Violations, &Violation{Key: vk, What: vw})
		}
	}
	frontier := [][]uint8{{}}
	for depth := 0; depth < cfg.Depth; depth++ {
		var next [][]uint8
		for hi, h := range frontier {
			if hi%16 == 0 && !cfg.Deadline.IsZero() && time.Now().After(cfg.Deadline) {
				res.Exhaustive = false
				res.Cap = fmt.Sprintf("time budget reached at depth %d (%d/%d frontier states expanded)", depth+1, hi, len(frontier))
				res.WallS = time.Since(t0).Seconds()
				return res
			}
			for op := range sys.OpNames {
				if depth == 0 && cfg.FirstOps != nil {
					ok := false
					for _, f := range cfg.FirstOps {
						if f == op {
							ok = true
						}
					}
					if !ok {
						continue
					}
				}
				if sys.Enabled != nil && !sys.Enabled(h, op) {
					continue
				}
				inst := sys.New()
				bad := false
				for _, o := range h {
					if k, _ := inst.Apply(int(o)); k != "" {
						bad = true // already reported when first reached
						break
					}
				}
				if bad {
					continue
				}
				k, w := inst.Apply(op)
				res.Transitions++
				nh := append(append(make([]uint8, 0, len(h)+1), h...), uint8(op))
				if k != "" {
					res.ViolCounts[k]++
					if !firstSeen[k] {
						firstSeen[k] = true
						ops := make([]int, len(nh))
						for i, o := range nh {
							ops[i] = int(o)
						}
						res.Violations = append(res.Violations, &Violation{Key: k, What: w, History: names(sys, nh), Ops: ops})
					}
					continue // do not extend violating states
				}
				key := inst.Key()
				if _, ok := seen[key]; ok {
					continue
				}
				seen[key] = struct{}{}
				res.States++
				if sys.OnNewState != nil {
					if vk, vw := sys.OnNewState(inst); vk != "" {
						res.ViolCounts[vk]++
						if !firstSeen[vk] {
							firstSeen[vk] = true
							ops := make([]int, len(nh))
							for i, o := range nh {
								ops[i] = int(o)
							}
							res.Violations = append(res.Violations, &Violation{Key: vk, What: vw, History: names(sys, nh), Ops: ops})
						}
					}
				}
				if len(nh) > res.MaxDepth {
					res.MaxDepth = len(nh)
				}
				if len(res.Samples) < 4 && (res.States%997 == 3 || len(nh) == cfg.Depth) {
					res.Samples = append(res.Samples, names(sys, nh))
				}
				next = append(next, nh)
				if cfg.MaxStates > 0 && res.States >= cfg.MaxStates {
					res.Exhaustive = false
					res.Cap = fmt.Sprintf("state cap %d reached at depth %d", cfg.MaxStates, depth+1)
					res.WallS = time.Since(t0).Seconds()
					return res
				}
			}
		}
		res.DepthCompleted = depth + 1
		frontier = next
		if len(frontier) == 0 {
			break
		}
	}
	res.WallS = time.Since(t0).Seconds()
	return res
}

// Replay applies a history and reports the first violation.
func Replay(sys *System, ops []int) (string, string, []string) {
	inst := sys.New()
	var log []string
	for _, o := range ops {
		k, w := inst.Apply(o)
		log = append(log, sys.OpNames[o]+" -> "+strings.ReplaceAll(inst.Key(), "\n", " | "))
		if k != "" {
			return k, w, log
		}
	}
	if sys.OnNewState != nil {
		// the per-state oracle of the state the history ends in
		if k, w := sys.OnNewState(inst); k != "" {
			return k, w, log
		}
	}
	return "", "", log
}
