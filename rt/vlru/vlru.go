// Package vlru wraps github.com/hashicorp/golang-lru: every call into the
// library is a scheduling point (the library serialises internally; eviction
// callbacks run in the calling thread after the library's lock is released, so
// the modelled lock they take is a further scheduling point).
package vlru

import (
	lru "github.com/hashicorp/golang-lru"
	"github.com/refraction-networking/conjure/pkg/zzverif/vsched"
)

type Cache struct{ c *lru.Cache }

func pt(k string) {
	if vsched.Active() {
		vsched.Yield("lru." + k)
	}
}

func New(size int) (*Cache, error) { return NewWithEvict(size, nil) }

func NewWithEvict(size int, onEvicted func(key, value interface{})) (*Cache, error) {
	c, err := lru.NewWithEvict(size, onEvicted)
	if err != nil {
		return nil, err
	}
	return &Cache{c}, nil
}

func (c *Cache) Add(key, value interface{}) bool          { pt("Add"); return c.c.Add(key, value) }
func (c *Cache) Remove(key interface{}) bool              { pt("Remove"); return c.c.Remove(key) }
func (c *Cache) Get(key interface{}) (interface{}, bool)  { pt("Get"); return c.c.Get(key) }
func (c *Cache) Peek(key interface{}) (interface{}, bool) { pt("Peek"); return c.c.Peek(key) }
func (c *Cache) Contains(key interface{}) bool            { pt("Contains"); return c.c.Contains(key) }
func (c *Cache) Purge()                                   { pt("Purge"); c.c.Purge() }
func (c *Cache) Len() int                                 { return c.c.Len() }
func (c *Cache) Keys() []interface{}                      { return c.c.Keys() }
func (c *Cache) RemoveOldest() (interface{}, interface{}, bool) {
	pt("RemoveOldest")
	return c.c.RemoveOldest()
}
func (c *Cache) Resize(size int) int { pt("Resize"); return c.c.Resize(size) }
