// Package vsctp stands in for github.com/pion/sctp in pkg/dtls/sctpconn.go:
// an association over a modelled DTLS connection hands out the scripted
// message stream attached to that connection's peer.
package vsctp

import (
	"errors"
	"net"

	"github.com/pion/logging"
	"github.com/refraction-networking/conjure/pkg/zzverif/vmsg"
	"github.com/refraction-networking/conjure/pkg/zzverif/vsched"
)

type PayloadProtocolIdentifier uint32

const (
	PayloadTypeWebRTCString PayloadProtocolIdentifier = 51
	PayloadTypeWebRTCBinary PayloadProtocolIdentifier = 53
)

const (
	ReliabilityTypeReliable byte = 0
	ReliabilityTypeRexmit   byte = 1
	ReliabilityTypeTimed    byte = 2
)

// MaxMessage is the modelled maximum message size.
var MaxMessage uint32 = 64

type Config struct {
	NetConn       net.Conn
	LoggerFactory logging.LoggerFactory
}

type streamHolder interface{ VerifStream() *vmsg.Stream }

type Association struct{ st *vmsg.Stream }

// Stream wraps the scripted stream with the extra methods the station calls.
type Stream struct{ *vmsg.Stream }

func (s *Stream) SetReliabilityParams(unordered bool, relType byte, relVal uint32) {}

func assoc(c Config) (*Association, error) {
	h, ok := c.NetConn.(streamHolder)
	if !ok {
		return nil, errors.New("vsctp: connection carries no scripted stream")
	}
	if vsched.Active() {
		vsched.Yield("sctp.handshake")
	}
	st := h.VerifStream()
	if st == nil {
		return nil, errors.New("vsctp: association handshake failed")
	}
	return &Association{st: st}, nil
}

func Server(c Config) (*Association, error) { return assoc(c) }
func Client(c Config) (*Association, error) { return assoc(c) }

func (a *Association) AcceptStream() (*Stream, error) {
	if vsched.Active() {
		vsched.Yield("sctp.accept-stream")
	}
	return &Stream{a.st}, nil
}

func (a *Association) OpenStream(id uint16, ppi PayloadProtocolIdentifier) (*Stream, error) {
	return &Stream{a.st}, nil
}

func (a *Association) MaxMessageSize() uint32 { return MaxMessage }
