package vtest

import (
	"testing"

	"github.com/refraction-networking/conjure/pkg/zzverif/vsched"
	"github.com/refraction-networking/conjure/pkg/zzverif/vsync"
)

func TestSymmetry(t *testing.T) {
	mk := func(sym bool) func() *vsched.Scenario {
		return func() *vsched.Scenario {
			var wg vsync.WaitGroup
			var mu vsync.Mutex
			n := 0
			return &vsched.Scenario{
				Setup: func(x *vsched.Exec) {
					x.Symmetry = sym
					x.SymIdle = func(op *vsched.Op) bool { return op.Kind == "start" }
					x.StateKey = func() uint64 { return uint64(n) }
				},
				Body: func() {
					for i := 0; i < 4; i++ {
						wg.Add(1)
						vsched.Go(func() { defer wg.Done(); mu.Lock(); n++; mu.Unlock() })
					}
					wg.Wait()
				},
			}
		}
	}
	a := vsched.Explore(vsched.Config{Name: "nosym", PreemptBound: 0, EnvBound: 0}, mk(false))
	b := vsched.Explore(vsched.Config{Name: "sym", PreemptBound: 0, EnvBound: 0}, mk(true))
	t.Logf("without symmetry %d executions, with %d", a.Executions, b.Executions)
	if b.Executions >= a.Executions {
		t.Fatalf("symmetry reduction had no effect")
	}
}
