package vtest

import (
	"fmt"
	"github.com/refraction-networking/conjure/pkg/zzverif/vchan"
	"testing"

	"github.com/refraction-networking/conjure/pkg/zzverif/vsched"
	"github.com/refraction-networking/conjure/pkg/zzverif/vsync"
)

func TestRecursiveRLockDeadlock(t *testing.T) {
	mk := func() *vsched.Scenario {
		var rw vsync.RWMutex
		var wg vsync.WaitGroup
		return &vsched.Scenario{
			Body: func() {
				wg.Add(2)
				vsched.Go(func() { defer wg.Done(); rw.RLock(); rw.RLock(); rw.RUnlock(); rw.RUnlock() })
				vsched.Go(func() { defer wg.Done(); rw.Lock(); rw.Unlock() })
				wg.Wait()
			},
			Check: func(x *vsched.Exec) *vsched.Violation {
				if x.Verdict != vsched.VOK {
					return &vsched.Violation{Key: x.Verdict, What: x.Detail}
				}
				return nil
			},
		}
	}
	r0 := vsched.Explore(vsched.Config{Name: "t", PreemptBound: 0, EnvBound: 0}, mk)
	if len(r0.Violations) != 0 {
		t.Fatalf("bound 0 should be fine: %v", r0.JSON())
	}
	r := vsched.Explore(vsched.Config{Name: "t", PreemptBound: 2, EnvBound: 0}, mk)
	t.Logf("%s", r.JSON())
	if r.Deadlocks == 0 {
		t.Fatalf("expected deadlock")
	}
	// replay
	v := r.Violations[0]
	for i := 0; i < 3; i++ {
		x, v2 := vsched.RunOnce(v.Choices, 0, mk)
		if v2 == nil || x.Verdict != vsched.VDeadlock {
			t.Fatalf("replay did not reproduce")
		}
	}
}

func TestLostUpdate(t *testing.T) {
	mk := func() *vsched.Scenario {
		var mu vsync.Mutex
		var wg vsync.WaitGroup
		n := 0
		inc := func() {
			defer wg.Done()
			mu.Lock()
			v := n
			mu.Unlock()
			mu.Lock()
			n = v + 1
			mu.Unlock()
		}
		return &vsched.Scenario{
			Body: func() { wg.Add(2); vsched.Go(inc); vsched.Go(inc); wg.Wait() },
			Check: func(x *vsched.Exec) *vsched.Violation {
				if n != 2 {
					return &vsched.Violation{Key: "lost", What: "lost update"}
				}
				return nil
			},
			Outcome: func(x *vsched.Exec) string { return string(rune('0' + n)) },
		}
	}
	r := vsched.Explore(vsched.Config{Name: "t", PreemptBound: -1, EnvBound: 0}, mk)
	t.Logf("%s", r.JSON())
	if len(r.Violations) == 0 || r.Outcomes != 2 {
		t.Fatalf("expected lost update")
	}
}

func TestPruneEquivalence(t *testing.T) {
	mk := func() *vsched.Scenario {
		var mu vsync.Mutex
		var wg vsync.WaitGroup
		n := 0
		inc := func(k int) func() {
			return func() {
				defer wg.Done()
				mu.Lock()
				v := n
				mu.Unlock()
				mu.Lock()
				n = v + k
				mu.Unlock()
			}
		}
		return &vsched.Scenario{
			Setup:   func(x *vsched.Exec) { x.StateKey = func() uint64 { return uint64(n)<<1 | mu.VerifState() } },
			Body:    func() { wg.Add(3); vsched.Go(inc(1)); vsched.Go(inc(2)); vsched.Go(inc(4)); wg.Wait() },
			Outcome: func(x *vsched.Exec) string { return string(rune('0' + n)) },
		}
	}
	for _, pb := range []int{-1, 1, 2} {
		a := vsched.Explore(vsched.Config{Name: "t", PreemptBound: pb, EnvBound: 0}, mk)
		b := vsched.Explore(vsched.Config{Name: "t", PreemptBound: pb, EnvBound: 0, Prune: true}, mk)
		t.Logf("pb=%d full: exec=%d outcomes=%d; pruned: exec=%d outcomes=%d pruned=%d", pb, a.Executions, a.Outcomes, b.Executions, b.Outcomes, b.Pruned)
		if a.Outcomes != b.Outcomes {
			t.Fatalf("pruning lost outcomes")
		}
	}
}

func TestChanRendezvousAndSelect(t *testing.T) {
	mk := func() *vsched.Scenario {
		ch := make(chan int)
		buf := make(chan int, 1)
		quit := make(chan struct{})
		var wg vsync.WaitGroup
		var got []int
		dropped := 0
		return &vsched.Scenario{
			Body: func() {
				wg.Add(2)
				vsched.Go(func() { // consumer
					defer wg.Done()
					for {
						c0, c1, c2 := vchan.R(quit), vchan.R(ch), vchan.R(buf)
						switch vchan.Select(false, c0, c1, c2) {
						case 0:
							return
						case 1:
							got = append(got, c1.V)
						case 2:
							got = append(got, c2.V)
						}
					}
				})
				vsched.Go(func() { // producer
					defer wg.Done()
					vchan.Send(ch, 1)
					c := vchan.S(buf, 2)
					if vchan.Select(true, c) == -1 {
						dropped++
					}
					c = vchan.S(buf, 3)
					if vchan.Select(true, c) == -1 {
						dropped++
					}
					vchan.Close(quit)
				})
				wg.Wait()
			},
			Check: func(x *vsched.Exec) *vsched.Violation {
				if x.Verdict != vsched.VOK {
					return &vsched.Violation{Key: x.Verdict, What: x.Detail}
				}
				if len(got)+dropped > 3 || len(got) < 1 || got[0] != 1 {
					return &vsched.Violation{Key: "bad", What: fmt.Sprint(got, dropped)}
				}
				return nil
			},
			Outcome: func(x *vsched.Exec) string { return fmt.Sprint(got, dropped) },
		}
	}
	r := vsched.Explore(vsched.Config{Name: "chan", PreemptBound: -1, EnvBound: -1}, mk)
	t.Logf("exec=%d outcomes=%d %v viol=%d", r.Executions, r.Outcomes, r.OutcomeSamples, len(r.Violations))
	if len(r.Violations) > 0 {
		t.Fatalf("%+v", r.Violations[0])
	}
	if r.Outcomes < 3 {
		t.Fatalf("expected several outcomes (drops depend on schedule)")
	}
}
