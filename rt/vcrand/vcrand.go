// Package vcrand mirrors crypto/rand with a switchable Reader (deterministic
// stream for reproducible harness runs) and scriptable Int (every random draw
// an environment answer).
package vcrand

import (
	crand "crypto/rand"
	"crypto/sha256"
	"encoding/binary"
	"io"
	"math/big"
)

// Reader is crypto/rand.Reader unless SetDeterministic was called.
var Reader io.Reader = crand.Reader

// IntScript, if non-nil, answers Int draws: it receives the bound and returns
// the value and whether it handled the draw.
var IntScript func(max *big.Int) (*big.Int, bool)

type detReader struct {
	seed [32]byte
	ctr  uint64
	buf  []byte
}

func (d *detReader) Read(p []byte) (int, error) {
	n := 0
	for n < len(p) {
		if len(d.buf) == 0 {
			var c [8]byte
			binary.BigEndian.PutUint64(c[:], d.ctr)
			d.ctr++
			h := sha256.Sum256(append(d.seed[:], c[:]...))
			d.buf = h[:]
		}
		k := copy(p[n:], d.buf)
		d.buf = d.buf[k:]
		n += k
	}
	return n, nil
}

// SetDeterministic makes Reader a SHA-256 counter stream keyed by label.
func SetDeterministic(label string) {
	Reader = &detReader{seed: sha256.Sum256([]byte(label))}
}

// SetReal restores the system source.
func SetReal() { Reader = crand.Reader }

func Read(b []byte) (int, error) { return io.ReadFull(Reader, b) }

func Int(r io.Reader, max *big.Int) (*big.Int, error) {
	if IntScript != nil {
		if v, ok := IntScript(max); ok {
			return v, nil
		}
	}
	return crand.Int(r, max)
}

func Prime(r io.Reader, bits int) (*big.Int, error) { return crand.Prime(r, bits) }
