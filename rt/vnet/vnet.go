// Package vnet mirrors package net with two seams: Dial (scripted covert
// connections) and ResolveIPAddr (scripted resolver for names; literals are
// parsed by the real function, which does no lookup for them).
package vnet

import (
	"net"
)

type (
	Conn         = net.Conn
	Addr         = net.Addr
	TCPConn      = net.TCPConn
	TCPAddr      = net.TCPAddr
	UDPConn      = net.UDPConn
	UDPAddr      = net.UDPAddr
	IPAddr       = net.IPAddr
	IP           = net.IP
	IPNet        = net.IPNet
	IPMask       = net.IPMask
	Listener     = net.Listener
	TCPListener  = net.TCPListener
	Error        = net.Error
	OpError      = net.OpError
	AddrError    = net.AddrError
	DNSError     = net.DNSError
	Dialer       = net.Dialer
	PacketConn   = net.PacketConn
	Interface    = net.Interface
	HardwareAddr = net.HardwareAddr
)

var (
	ErrClosed       = net.ErrClosed
	ParseIP         = net.ParseIP
	ParseCIDR       = net.ParseCIDR
	SplitHostPort   = net.SplitHostPort
	JoinHostPort    = net.JoinHostPort
	Interfaces      = net.Interfaces
	ListenTCP       = net.ListenTCP
	Listen          = net.Listen
	IPv4            = net.IPv4
	IPv4Mask        = net.IPv4Mask
	CIDRMask        = net.CIDRMask
	ResolveTCPAddr  = net.ResolveTCPAddr
	ResolveUDPAddr  = net.ResolveUDPAddr
	Pipe            = net.Pipe
	IPv4zero        = net.IPv4zero
	IPv6zero        = net.IPv6zero
	IPv6unspecified = net.IPv6unspecified
	IPv6loopback    = net.IPv6loopback
)

const (
	IPv4len = net.IPv4len
	IPv6len = net.IPv6len
)

// DialHook, if set, replaces Dial.
var DialHook func(network, address string) (net.Conn, error)

// ResolveHook, if set, answers ResolveIPAddr for hosts that are not IP literals.
var ResolveHook func(network, host string) (*net.IPAddr, error)

func Dial(network, address string) (net.Conn, error) {
	if DialHook != nil {
		return DialHook(network, address)
	}
	return net.Dial(network, address)
}

func ResolveIPAddr(network, address string) (*net.IPAddr, error) {
	if address == "" {
		// the real resolver sends no query for an empty host: it answers with an address-less IPAddr and no error
		return net.ResolveIPAddr(network, address)
	}
	if ResolveHook != nil {
		host := address
		if i := indexByte(host, '%'); i >= 0 {
			host = host[:i]
		}
		if net.ParseIP(host) == nil {
			return ResolveHook(network, address)
		}
	}
	return net.ResolveIPAddr(network, address)
}

func indexByte(s string, c byte) int {
	for i := 0; i < len(s); i++ {
		if s[i] == c {
			return i
		}
	}
	return -1
}

// LookupIP / LookupHost go through the same scripted resolver (each call is one
// lookup as far as the script is concerned).
func LookupIP(host string) ([]net.IP, error) {
	if host == "" {
		return net.LookupIP(host) // no query is sent for an empty name: the real answer (an error) needs no network
	}
	if ResolveHook != nil && net.ParseIP(host) == nil {
		a, err := ResolveHook("ip", host)
		if err != nil {
			return nil, err
		}
		return []net.IP{a.IP}, nil
	}
	return net.LookupIP(host)
}

func LookupHost(host string) ([]string, error) {
	if host == "" {
		return net.LookupHost(host)
	}
	if ResolveHook != nil && net.ParseIP(host) == nil {
		a, err := ResolveHook("ip", host)
		if err != nil {
			return nil, err
		}
		return []string{a.IP.String()}, nil
	}
	return net.LookupHost(host)
}

var (
	DefaultResolver = net.DefaultResolver
	LookupAddr      = net.LookupAddr
	LookupCNAME     = net.LookupCNAME
	DialTimeout     = net.DialTimeout
	ListenPacket    = net.ListenPacket
	ListenUDP       = net.ListenUDP
	DialUDP         = net.DialUDP
	DialTCP         = net.DialTCP
	InterfaceAddrs  = net.InterfaceAddrs
	ParseMAC        = net.ParseMAC
	LookupPort      = net.LookupPort
)

type (
	Resolver            = net.Resolver
	UnknownNetworkError = net.UnknownNetworkError
	InvalidAddrError    = net.InvalidAddrError
	ParseError          = net.ParseError
	UnixAddr            = net.UnixAddr
	UnixConn            = net.UnixConn
	Flags               = net.Flags
	ListenConfig        = net.ListenConfig
	Buffers             = net.Buffers
)
