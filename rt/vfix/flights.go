//go:build verif

package vfix

// Genuine first flights produced by the real client transports.

import (
	"bytes"
	"context"
	"fmt"
	"io"
	"net"
	"time"

	"github.com/refraction-networking/conjure/pkg/core"
	"github.com/refraction-networking/conjure/pkg/transports/wrapping/min"
	"github.com/refraction-networking/conjure/pkg/transports/wrapping/obfs4"
	"github.com/refraction-networking/conjure/pkg/transports/wrapping/prefix"
	pb "github.com/refraction-networking/conjure/proto"
	"google.golang.org/protobuf/proto"
)

// RecConn records writes; reads come from In (EOF when nil/exhausted).
type RecConn struct {
	bytes.Buffer
	In io.Reader
}

func (c *RecConn) Read(p []byte) (int, error) {
	if c.In == nil {
		return 0, io.EOF
	}
	return c.In.Read(p)
}
func (c *RecConn) Close() error        { return nil }
func (c *RecConn) LocalAddr() net.Addr { return &net.TCPAddr{IP: net.IPv4(192, 0, 2, 1), Port: 443} }
func (c *RecConn) RemoteAddr() net.Addr {
	return &net.TCPAddr{IP: net.IPv4(203, 0, 113, 77), Port: 54321}
}
func (c *RecConn) SetDeadline(time.Time) error      { return nil }
func (c *RecConn) SetReadDeadline(time.Time) error  { return nil }
func (c *RecConn) SetWriteDeadline(time.Time) error { return nil }

// ClientFlight returns the genuine first flight for (secret, transport, params).
func ClientFlight(secret []byte, tt pb.TransportType, params proto.Message) ([]byte, error) {
	switch tt {
	case pb.TransportType_Min:
		ct := &min.ClientTransport{}
		_ = ct.SetParams(params)
		_ = ct.Prepare(context.Background(), nil)
		_ = ct.PrepareKeys(StationPub, secret, nil)
		rc := &RecConn{}
		if _, err := ct.WrapConn(rc); err != nil {
			return nil, err
		}
		return append([]byte{}, rc.Bytes()...), nil
	case pb.TransportType_Prefix:
		ct := &prefix.ClientTransport{}
		if err := ct.SetParams(params); err != nil {
			return nil, err
		}
		_ = ct.Prepare(context.Background(), nil)
		_ = ct.PrepareKeys(StationPub, secret, nil)
		rc := &RecConn{}
		if _, err := ct.WrapConn(rc); err != nil {
			return nil, err
		}
		return append([]byte{}, rc.Bytes()...), nil
	case pb.TransportType_Obfs4:
		k, err := core.GenSharedKeys(4, secret, 0)
		if err != nil {
			return nil, err
		}
		ct := &obfs4.ClientTransport{}
		_ = ct.SetParams(&pb.GenericTransportParams{RandomizeDstPort: proto.Bool(false)})
		_ = ct.Prepare(context.Background(), nil)
		if err := ct.PrepareKeys(StationPub, secret, k.TransportReader); err != nil {
			return nil, err
		}
		c1, c2 := net.Pipe()
		go func() { _, _ = ct.WrapConn(c1) }()
		buf := make([]byte, 16384)
		_ = c2.SetReadDeadline(time.Now().Add(5 * time.Second))
		var out []byte
		for {
			n, err := c2.Read(buf)
			out = append(out, buf[:n]...)
			if err != nil || n == 0 {
				break
			}
			_ = c2.SetReadDeadline(time.Now().Add(150 * time.Millisecond))
		}
		c1.Close()
		c2.Close()
		if len(out) < 64 {
			return nil, fmt.Errorf("obfs4 flight too short (%d)", len(out))
		}
		return out, nil
	}
	return nil, fmt.Errorf("no client for %v", tt)
}

// Obfs4FlightsOfLens runs the real obfs4 client until it has produced a first flight of each wanted length (the
// client draws its padding length uniformly from 77..8128, so a given length - in particular the minimum, 141, and
// the maximum, 8192 - comes up about once in 8000 handshakes). The flight is one Write of the client; it is captured
// with one Read. Lengths that did not come up within maxTries are missing from the result.
func Obfs4FlightsOfLens(secret []byte, wants []int, maxTries int) map[int][]byte {
	out := map[int][]byte{}
	want := map[int]bool{}
	for _, w := range wants {
		want[w] = true
	}
	buf := make([]byte, 16384)
	for i := 0; i < maxTries && len(out) < len(want); i++ {
		ct := &obfs4.ClientTransport{}
		_ = ct.SetParams(&pb.GenericTransportParams{RandomizeDstPort: proto.Bool(false)})
		_ = ct.Prepare(context.Background(), nil)
		kk, err := core.GenSharedKeys(4, secret, 0)
		if err != nil {
			return out
		}
		if err := ct.PrepareKeys(StationPub, secret, kk.TransportReader); err != nil {
			return out
		}
		c1, c2 := net.Pipe()
		done := make(chan struct{})
		go func() { _, _ = ct.WrapConn(c1); close(done) }()
		_ = c2.SetReadDeadline(time.Now().Add(5 * time.Second))
		n, _ := c2.Read(buf)
		c2.Close()
		c1.Close()
		<-done
		if want[n] && out[n] == nil {
			out[n] = append([]byte{}, buf[:n]...)
		}
	}
	return out
}

// Obfs4FlightOfLen is Obfs4FlightsOfLens for one length.
func Obfs4FlightOfLen(secret []byte, want, maxTries int) []byte {
	return Obfs4FlightsOfLens(secret, []int{want}, maxTries)[want]
}
