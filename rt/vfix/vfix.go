//go:build verif

// Package vfix builds real station objects for harnesses: a phantom selector
// from an in-memory subnet file, a RegistrationManager with the real wrapping
// transports, and registration messages.
package vfix

import (
	"crypto/sha256"
	"fmt"
	golog "github.com/refraction-networking/conjure/pkg/station/log"
	"io"
	"os"
	"path/filepath"

	"github.com/refraction-networking/conjure/pkg/phantoms"
	"github.com/refraction-networking/conjure/pkg/station/lib"
	"github.com/refraction-networking/conjure/pkg/station/liveness"
	"github.com/refraction-networking/conjure/pkg/transports/wrapping/min"
	"github.com/refraction-networking/conjure/pkg/transports/wrapping/obfs4"
	"github.com/refraction-networking/conjure/pkg/transports/wrapping/prefix"
	pb "github.com/refraction-networking/conjure/proto"
	"golang.org/x/crypto/curve25519"
	"google.golang.org/protobuf/proto"
	"google.golang.org/protobuf/types/known/anypb"
)

// SubnetsTOML is the default subnet configuration used by harnesses:
// generation 1 without, generation 2 with port randomisation.
const SubnetsTOML = `[Networks]
    [Networks.1]
        Generation = 1
        [[Networks.1.WeightedSubnets]]
            Weight = 9
            Subnets = ["192.122.190.0/24", "2001:48a8:687f:1::/64"]
        [[Networks.1.WeightedSubnets]]
            Weight = 1
            Subnets = ["141.219.0.0/16", "35.8.0.0/16"]
    [Networks.2]
        Generation = 2
        [[Networks.2.WeightedSubnets]]
            Weight = 9
            RandomizeDstPort = true
            Subnets = ["192.122.190.0/24", "2001:48a8:687f:1::/64"]
        [[Networks.2.WeightedSubnets]]
            Weight = 1
            RandomizeDstPort = false
            Subnets = ["141.219.0.0/16", "35.8.0.0/16"]
`

// WorkDir returns the scratch directory for this check (under /verif/.work).
func WorkDir() string {
	d := os.Getenv("VERIF_WORK")
	if d == "" {
		d = os.TempDir()
	}
	return d
}

// WriteTemp writes content to a fresh file in the work dir and returns its path.
func WriteTemp(pattern, content string) string {
	f, err := os.CreateTemp(WorkDir(), pattern)
	if err != nil {
		panic(err)
	}
	defer f.Close()
	if _, err := f.WriteString(content); err != nil {
		panic(err)
	}
	return f.Name()
}

// Selector parses a subnet TOML string with the real loader.
func Selector(toml string) *phantoms.PhantomIPSelector {
	p := WriteTemp("subnets-*.toml", toml)
	defer os.Remove(p)
	s, err := phantoms.SubnetsFromTomlFile(p)
	if err != nil {
		panic(fmt.Sprintf("vfix.Selector: %v", err))
	}
	return s
}

// StationPriv / StationPub: a fixed station key pair.
var StationPriv, StationPub [32]byte

func init() {
	h := sha256.Sum256([]byte("verif station key"))
	copy(StationPriv[:], h[:])
	pub, err := curve25519.X25519(StationPriv[:], curve25519.Basepoint)
	if err != nil {
		panic(err)
	}
	copy(StationPub[:], pub)
}

// Secret returns a deterministic 32-byte shared secret named by i.
func Secret(i int) []byte {
	switch i {
	case -1:
		return make([]byte, 32)
	case -2:
		b := make([]byte, 32)
		for j := range b {
			b[j] = 0xff
		}
		return b
	}
	h := sha256.Sum256([]byte(fmt.Sprintf("verif-secret-%d", i)))
	return h[:]
}

// Tester is a scripted liveness tester.
type Tester struct {
	Live    func(addr string, port uint16) bool
	Verdict func(addr string, port uint16) (bool, error) // when set, decides the whole (bool, error) pair
	Calls   []string
}

func (t *Tester) PhantomIsLive(addr string, port uint16) (bool, error) {
	t.Calls = append(t.Calls, fmt.Sprintf("%s:%d", addr, port))
	if t.Verdict != nil {
		return t.Verdict(addr, port)
	}
	if t.Live != nil && t.Live(addr, port) {
		return true, liveness.ErrLiveHost // the values the real tester returns
	}
	return false, liveness.NotLive
}

func (t *Tester) PrintAndReset(*golog.Logger) {}
func (t *Tester) PrintStats(*golog.Logger)    {}
func (t *Tester) Reset()                      {}

var _ liveness.Tester = (*Tester)(nil)

// PrefixKeyRotation makes Manager give the prefix transport two private keys, the clients' one second.
var PrefixKeyRotation bool

// Transports selects which real transports to enable.
type Transports struct{ Min, Prefix, Obfs4 bool }

// AllWrapping enables min, prefix and obfs4.
var AllWrapping = Transports{true, true, true}

// Manager builds a manager with real transports and a scripted liveness tester.
func Manager(conf *lib.RegConfig, sel *phantoms.PhantomIPSelector, lt liveness.Tester, tr Transports, logw io.Writer) *lib.RegistrationManager {
	if conf == nil {
		conf = &lib.RegConfig{EnableIPv4: true, EnableIPv6: true}
	}
	rm := lib.VerifNewManager(conf, sel, lt, logw)
	if tr.Min {
		_ = rm.AddTransport(pb.TransportType_Min, min.Transport{})
	}
	if tr.Prefix {
		keys := [][32]byte{StationPriv}
		if PrefixKeyRotation {
			// a station in the middle of a key rotation: another key first, the one clients use second
			var other [32]byte
			o := sha256.Sum256([]byte("vfix other station key"))
			copy(other[:], o[:])
			keys = [][32]byte{other, StationPriv}
		}
		pt, err := prefix.Default(keys)
		if err != nil {
			panic(err)
		}
		_ = rm.AddTransport(pb.TransportType_Prefix, pt)
	}
	if tr.Obfs4 {
		_ = rm.AddTransport(pb.TransportType_Obfs4, obfs4.Transport{})
	}
	return rm
}

// Msg describes one registration message.
type Msg struct {
	Secret    []byte
	Transport pb.TransportType
	Params    proto.Message
	V4, V6    bool
	Gen       uint32
	LibVer    uint32
	Covert    string
	Source    pb.RegistrationSource
	Addr      []byte
	Prescan   bool
}

// Wrapper builds the C2SWrapper.
func (m Msg) Wrapper() *pb.C2SWrapper {
	t := m.Transport
	c2s := &pb.ClientToStation{
		ClientLibVersion:    proto.Uint32(m.LibVer),
		Transport:           &t,
		CovertAddress:       proto.String(m.Covert),
		DecoyListGeneration: proto.Uint32(m.Gen),
		V4Support:           proto.Bool(m.V4),
		V6Support:           proto.Bool(m.V6),
	}
	if m.Prescan {
		c2s.Flags = &pb.RegistrationFlags{Prescanned: proto.Bool(true)}
	}
	if m.Params != nil {
		p, err := anypb.New(m.Params)
		if err != nil {
			panic(err)
		}
		c2s.TransportParams = p
	}
	src := m.Source
	return &pb.C2SWrapper{SharedSecret: m.Secret, RegistrationPayload: c2s, RegistrationSource: &src, RegistrationAddress: m.Addr}
}

// Bytes marshals the wrapper.
func (m Msg) Bytes() []byte {
	b, err := proto.Marshal(m.Wrapper())
	if err != nil {
		panic(err)
	}
	return b
}

// Path joins the work dir.
func Path(name string) string { return filepath.Join(WorkDir(), name) }
