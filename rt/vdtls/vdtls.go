// Package vdtls stands in for github.com/pion/dtls/v2 in pkg/dtls/listener.go
// when the listener is explored under vsched. It models the server side of a
// certificate-authenticated handshake against a scripted client (Peer): the
// callbacks the listener installs (GetCertificate, VerifyConnection) are
// invoked in the order pion invokes them, with scheduling points between the
// flights, and the client's own check of the server certificate is performed
// by the peer. Conformance of this model with the real library is checked by
// the "cred" family, which runs the same secret matrix through real pion.
package vdtls

import (
	"context"
	"crypto/tls"
	"errors"
	"fmt"
	"net"
	"time"

	"github.com/refraction-networking/conjure/pkg/zzverif/vmsg"
	"github.com/refraction-networking/conjure/pkg/zzverif/vsched"
)

const RandomBytesLength = 28

type (
	ExtendedMasterSecretType int
	ClientAuthType           int
	CipherSuiteID            uint16
)

const (
	RequestExtendedMasterSecret ExtendedMasterSecretType = iota
	RequireExtendedMasterSecret
	DisableExtendedMasterSecret
)

const (
	NoClientCert ClientAuthType = iota
	RequestClientCert
	RequireAnyClientCert
	VerifyClientCertIfGiven
	RequireAndVerifyClientCert
)

// ClientHelloInfo mirrors pion's.
type ClientHelloInfo struct {
	ServerName   string
	CipherSuites []CipherSuiteID
	RandomBytes  [RandomBytesLength]byte
}

// State mirrors the part of pion's State the listener reads.
type State struct {
	PeerCertificates [][]byte
	remoteRandom     [RandomBytesLength]byte
}

func (s *State) RemoteRandomBytes() [RandomBytesLength]byte { return s.remoteRandom }

// Config mirrors the fields the listener sets.
type Config struct {
	ExtendedMasterSecret    ExtendedMasterSecretType
	ClientAuth              ClientAuthType
	GetCertificate          func(*ClientHelloInfo) (*tls.Certificate, error)
	VerifyConnection        func(*State) error
	InsecureSkipVerifyHello bool
}

// TemporaryError mirrors pion's.
type TemporaryError struct{ Err error }

func (e *TemporaryError) Error() string { return "dtls temporary: " + e.Err.Error() }
func (e *TemporaryError) Unwrap() error { return e.Err }

// Peer is the scripted client end of one inbound connection; it is what the
// fake parent listener's Accept returns.
type Peer struct {
	Name       string
	Random     [RandomBytesLength]byte
	ClientCert []byte
	// VerifyServer is the client's check of the certificate the server presents.
	VerifyServer func(der []byte) error
	// Behaviour: "ok" completes; "stall-hello" never sends a hello; "stall-cert" never answers flight 4.
	Behaviour string
	Stream    *vmsg.Stream // what the SCTP layer finds on the established connection
	Addr      net.Addr

	// observations
	GotServerCert  []byte
	ServerCertOK   bool
	HandshakeDone  bool
	HandshakeAt    time.Duration
	HandshakeErr   error
	Closed         bool
	DeadlineSets   int
	establishedCon *Conn
}

func (p *Peer) Read(b []byte) (int, error)  { return 0, errors.New("vdtls: raw read on modelled peer") }
func (p *Peer) Write(b []byte) (int, error) { return len(b), nil }
func (p *Peer) Close() error                { p.Closed = true; return nil }
func (p *Peer) LocalAddr() net.Addr         { return &net.UDPAddr{IP: net.IPv4(192, 0, 2, 1), Port: 443} }
func (p *Peer) RemoteAddr() net.Addr {
	if p.Addr != nil {
		return p.Addr
	}
	return &net.UDPAddr{IP: net.IPv4(203, 0, 113, 9), Port: 40000}
}
func (p *Peer) SetDeadline(time.Time) error      { p.DeadlineSets++; return nil }
func (p *Peer) SetReadDeadline(time.Time) error  { return nil }
func (p *Peer) SetWriteDeadline(time.Time) error { return nil }

// Conn is an established modelled connection.
type Conn struct {
	peer   *Peer
	state  State
	Closed bool
}

func (c *Conn) ConnectionState() State { return c.state }
func (c *Conn) Read(b []byte) (int, error) {
	return 0, errors.New("vdtls: raw read on modelled connection")
}
func (c *Conn) Write(b []byte) (int, error) { return len(b), nil }
func (c *Conn) Close() error {
	c.Closed = true
	if c.peer != nil {
		c.peer.Closed = true
	}
	return nil
}
func (c *Conn) LocalAddr() net.Addr {
	if c.peer == nil {
		return &net.UDPAddr{}
	}
	return c.peer.LocalAddr()
}
func (c *Conn) RemoteAddr() net.Addr {
	if c.peer == nil {
		return &net.UDPAddr{}
	}
	return c.peer.RemoteAddr()
}
func (c *Conn) SetDeadline(time.Time) error {
	if c.peer != nil {
		c.peer.DeadlineSets++
	}
	return nil
}
func (c *Conn) SetReadDeadline(time.Time) error  { return nil }
func (c *Conn) SetWriteDeadline(time.Time) error { return nil }

// VerifPeer exposes the scripted peer to the SCTP stand-in and the harness.
func (c *Conn) VerifPeer() *Peer { return c.peer }

// step is a scheduling point of the handshake that also honours ctx.
func step(ctx context.Context, label string, blocked bool) error {
	if !vsched.Active() {
		return ctx.Err()
	}
	vsched.Do(&vsched.Op{Kind: "dtls.hs", Obj: label, Enabled: func() bool { return !blocked || ctx.Err() != nil }})
	return ctx.Err()
}

// ServerWithContext models pion's server handshake on c (which must be a *Peer).
func ServerWithContext(ctx context.Context, c net.Conn, config *Config) (*Conn, error) {
	p, ok := c.(*Peer)
	if !ok {
		return nil, fmt.Errorf("vdtls: %T is not a modelled peer", c)
	}
	fail := func(err error) (*Conn, error) {
		p.HandshakeErr = err
		return nil, err
	}
	// pion asks for a certificate once with an empty hello to learn the cipher suites
	if config.GetCertificate != nil {
		if cert, err := config.GetCertificate(&ClientHelloInfo{}); err != nil || cert == nil {
			return fail(fmt.Errorf("vdtls: no certificate for cipher suite discovery: %v", err))
		}
	}
	if err := step(ctx, p.Name+".hello", p.Behaviour == "stall-hello"); err != nil {
		return fail(&TemporaryError{Err: err})
	}
	// flight 4: the server certificate is selected by the client's hello
	cert, err := config.GetCertificate(&ClientHelloInfo{CipherSuites: []CipherSuiteID{0xc02b}, RandomBytes: p.Random})
	if err != nil {
		return fail(err)
	}
	if cert == nil || len(cert.Certificate) == 0 {
		return fail(errors.New("vdtls: no server certificate"))
	}
	p.GotServerCert = cert.Certificate[0]
	if err := step(ctx, p.Name+".flight4", p.Behaviour == "stall-cert"); err != nil {
		return fail(&TemporaryError{Err: err})
	}
	// the client checks the server certificate before sending its own
	if p.VerifyServer != nil {
		if err := p.VerifyServer(cert.Certificate[0]); err != nil {
			return fail(fmt.Errorf("vdtls: alert from client: bad certificate"))
		}
	}
	p.ServerCertOK = true
	if err := step(ctx, p.Name+".flight5", false); err != nil {
		return fail(&TemporaryError{Err: err})
	}
	st := State{PeerCertificates: [][]byte{p.ClientCert}, remoteRandom: p.Random}
	if config.VerifyConnection != nil {
		cl := st
		if err := config.VerifyConnection(&cl); err != nil {
			return fail(err)
		}
	}
	p.HandshakeDone = true
	p.HandshakeAt = time.Duration(vsched.ClockNanos())
	conn := &Conn{peer: p, state: st}
	p.establishedCon = conn
	return conn, nil
}

// VerifStream is what the SCTP stand-in looks for.
func (c *Conn) VerifStream() *vmsg.Stream {
	if c.peer == nil {
		return nil
	}
	return c.peer.Stream
}
