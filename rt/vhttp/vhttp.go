// Package vhttp mirrors the small part of net/http that the station's ingest
// path uses, with a seam on Post.
package vhttp

import (
	"io"
	"net/http"
)

type (
	Response = http.Response
	Request  = http.Request
	Client   = http.Client
)

var PostHook func(url, contentType string, body io.Reader) (*http.Response, error)

func Post(url, contentType string, body io.Reader) (*http.Response, error) {
	if PostHook != nil {
		return PostHook(url, contentType, body)
	}
	return http.Post(url, contentType, body)
}
