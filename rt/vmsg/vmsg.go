// Package vmsg provides a scripted message stream with the method set the
// station's DTLS layer expects from an SCTP stream (its private msgStream
// interface): message-oriented Read/Write, read deadlines on the virtual clock,
// a buffered-amount model with a low-water callback, and Close. Blocking is
// modelled under vsched.
package vmsg

import (
	"errors"
	"fmt"
	"io"
	"net"
	"os"
	"time"

	"github.com/refraction-networking/conjure/pkg/zzverif/vsched"
)

// In is one inbound item: a message (Data), optionally delivered together with
// an error, or a pure error. Errors are sticky: once reached they are returned
// by every later Read.
type In struct {
	At   time.Duration
	Data []byte
	Err  error
	Tag  string // label for traces ("hb", "m0", ...)
}

// Call records one call.
type Call struct {
	Op  string
	N   int
	Err string
	At  time.Duration
	Buf int
}

// Stream is the scripted stream.
type Stream struct {
	Name string
	In   []In
	Max  int // largest message Write accepts (0 = unlimited)

	inIdx      int
	rdl        time.Time
	Closed     bool
	ClosedAt   time.Duration
	CloseCalls int
	sticky     error

	Out         [][]byte // messages written (only lengths and first bytes kept when KeepOut false)
	OutLens     []int
	OutAt       []time.Duration
	OutHead     [][]byte // first 8 bytes of every message written
	KeepOut     bool
	Buffered    uint64
	MaxBuffered uint64
	threshold   uint64
	onLow       func()
	LowEvents   int

	ShortReads     int // Reads whose buffer was smaller than the pending message (the message is lost, as in pion/sctp)
	Delivered      [][]byte
	Calls          []Call
	LogCalls       bool
	ReadAfterClose int
	// PeerWaiters lets a harness thread block until something was written
	Writes int
}

func now() time.Duration { return time.Duration(vsched.ClockNanos()) }

type timeoutErr struct{}

func (timeoutErr) Error() string   { return "i/o timeout" }
func (timeoutErr) Timeout() bool   { return true }
func (timeoutErr) Temporary() bool { return true }
func (timeoutErr) Is(t error) bool { return t == os.ErrDeadlineExceeded }

// ErrTimeout is what a Read returns when its deadline passes.
var ErrTimeout error = timeoutErr{}

func (s *Stream) ready() bool {
	return s.inIdx < len(s.In) && now() >= s.In[s.inIdx].At
}

func (s *Stream) log(op string, n int, err error, buf int) {
	if !s.LogCalls {
		return
	}
	c := Call{Op: op, N: n, At: now(), Buf: buf}
	if err != nil {
		c.Err = err.Error()
	}
	s.Calls = append(s.Calls, c)
}

// Read returns the next whole message.
func (s *Stream) Read(p []byte) (int, error) {
	if vsched.Active() {
		vsched.Do(&vsched.Op{Kind: "msg.read", Obj: s.Name,
			Enabled: func() bool {
				return s.Closed || s.sticky != nil || s.ready() || (!s.rdl.IsZero() && !vsched.VNow().Before(s.rdl))
			},
			WakeAt: func() (int64, bool) {
				best := int64(-1)
				if !s.rdl.IsZero() {
					best = int64(s.rdl.Sub(vsched.Cur().Base))
				}
				if s.inIdx < len(s.In) {
					at := int64(s.In[s.inIdx].At)
					if best < 0 || at < best {
						best = at
					}
				}
				return best, best >= 0
			}})
	}
	if s.Closed {
		s.ReadAfterClose++
		s.log("Read", 0, io.EOF, len(p))
		return 0, io.EOF
	}
	if s.ready() {
		e := s.In[s.inIdx]
		s.inIdx++
		if e.Err != nil {
			s.sticky = e.Err
		}
		if len(e.Data) > len(p) {
			s.ShortReads++
			s.log("Read", 0, io.ErrShortBuffer, len(p))
			return 0, io.ErrShortBuffer
		}
		n := copy(p, e.Data)
		if n > 0 {
			s.Delivered = append(s.Delivered, append([]byte{}, e.Data...))
		}
		s.log("Read", n, e.Err, len(p))
		return n, e.Err
	}
	if s.sticky != nil {
		s.log("Read", 0, s.sticky, len(p))
		return 0, s.sticky
	}
	if !s.rdl.IsZero() && !vsched.VNow().Before(s.rdl) {
		s.log("Read", 0, ErrTimeout, len(p))
		return 0, ErrTimeout
	}
	// not under the scheduler and nothing scripted
	return 0, io.EOF
}

// ErrTooLarge mirrors pion/sctp's outbound size limit.
var ErrTooLarge = errors.New("outbound packet larger than maximum message size")

// Write queues one message.
func (s *Stream) Write(p []byte) (int, error) {
	if vsched.Active() {
		vsched.Yield("msg.write " + s.Name)
	}
	if s.Closed {
		s.log("Write", 0, io.ErrClosedPipe, len(p))
		return 0, io.ErrClosedPipe
	}
	if s.Max > 0 && len(p) > s.Max {
		s.log("Write", 0, ErrTooLarge, len(p))
		return 0, ErrTooLarge
	}
	s.Writes++
	s.OutLens = append(s.OutLens, len(p))
	s.OutAt = append(s.OutAt, now())
	hd := p
	if len(hd) > 8 {
		hd = hd[:8]
	}
	s.OutHead = append(s.OutHead, append([]byte{}, hd...))
	if s.KeepOut {
		s.Out = append(s.Out, append([]byte{}, p...))
	}
	s.Buffered += uint64(len(p))
	if s.Buffered > s.MaxBuffered {
		s.MaxBuffered = s.Buffered
	}
	s.log("Write", len(p), nil, len(p))
	return len(p), nil
}

// Drain models the network taking n buffered bytes (n > buffered: all); the
// low-water callback runs in the calling thread when the amount crosses the
// threshold downwards, as pion/sctp does from its own goroutine.
func (s *Stream) Drain(n uint64) {
	before := s.Buffered
	if n > s.Buffered {
		n = s.Buffered
	}
	s.Buffered -= n
	if before > s.threshold && s.Buffered <= s.threshold && s.onLow != nil {
		s.LowEvents++
		s.onLow()
	}
}

// WaitBuffered blocks the calling (network) thread until something is buffered
// or stop() says the scenario is over; it reports whether there is data.
func (s *Stream) WaitBuffered(stop func() bool) bool {
	vsched.Do(&vsched.Op{Kind: "net.wait", Obj: s.Name, Enabled: func() bool { return s.Buffered > 0 || s.Closed || stop() }})
	return s.Buffered > 0
}

func (s *Stream) BufferedAmount() uint64 {
	if vsched.Active() {
		vsched.Yield("msg.buffered " + s.Name)
	}
	return s.Buffered
}

func (s *Stream) SetBufferedAmountLowThreshold(th uint64) { s.threshold = th }
func (s *Stream) OnBufferedAmountLow(f func())            { s.onLow = f }

func (s *Stream) SetReadDeadline(t time.Time) error {
	if s.Closed {
		// pion/sctp accepts deadlines on closed streams
		return nil
	}
	s.rdl = t
	return nil
}

// Close closes the stream; blocked Reads wake with io.EOF.
func (s *Stream) Close() error {
	if vsched.Active() {
		vsched.Yield("msg.close " + s.Name)
	}
	s.CloseCalls++
	if !s.Closed {
		s.Closed = true
		s.ClosedAt = now()
	}
	s.log("Close", 0, nil, 0)
	return nil
}

// Pending reports how many scripted items were not consumed.
func (s *Stream) Pending() int { return len(s.In) - s.inIdx }

// Consumed reports how many scripted items were consumed.
func (s *Stream) Consumed() int { return s.inIdx }

func (s *Stream) String() string {
	return fmt.Sprintf("%s{in=%d/%d closed=%v buffered=%d}", s.Name, s.inIdx, len(s.In), s.Closed, s.Buffered)
}

// Reset is a peer-reset style error for scripts.
var Reset error = &net.OpError{Op: "read", Net: "sctp", Err: errors.New("association reset")}
