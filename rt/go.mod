module github.com/refraction-networking/conjure/pkg/zzverif

go 1.22
