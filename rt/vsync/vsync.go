// Package vsync mirrors package sync; Mutex, RWMutex, WaitGroup and Once are
// modelled under vsched when an execution is active and fall back to the real
// primitives otherwise.
package vsync

import (
	"sync"

	"github.com/refraction-networking/conjure/pkg/zzverif/vsched"
)

type (
	Locker = sync.Locker
	Map    = sync.Map
	Pool   = sync.Pool
	Cond   = sync.Cond
)

var NewCond = sync.NewCond

func OnceFunc(f func()) func() { return sync.OnceFunc(f) }

// Mutex is a modelled sync.Mutex.
type Mutex struct {
	real   sync.Mutex
	locked bool
	owner  int
}

func (m *Mutex) Lock() {
	if !vsched.Active() {
		m.real.Lock()
		return
	}
	vsched.Do(&vsched.Op{Kind: "lock", Obj: vsched.ObjLabel("mu", m), Enabled: func() bool { return !m.locked }})
	m.locked = true
	m.owner = vsched.ThreadID()
}

func (m *Mutex) TryLock() bool {
	if !vsched.Active() {
		return m.real.TryLock()
	}
	vsched.Yield("trylock")
	if m.locked {
		return false
	}
	m.locked = true
	m.owner = vsched.ThreadID()
	return true
}

func (m *Mutex) Unlock() {
	if !vsched.Active() {
		m.real.Unlock()
		return
	}
	if !m.locked {
		panic("sync: unlock of unlocked mutex")
	}
	m.locked = false
	released()
}

// ReleasePoints makes every release (Unlock / RUnlock) a scheduling point as well. Off by default: a release commutes
// with the releasing thread's next local steps, unless those steps touch shared data that the critical section handed
// out by reference - a scenario that looks for exactly that turns it on.
var ReleasePoints bool

func released() {
	if ReleasePoints {
		vsched.Yield("released")
	}
}

// RWMutex is a modelled sync.RWMutex with Go's writer preference: a writer
// first announces itself (from then on new readers are held back) and then
// acquires once all readers have left.
type RWMutex struct {
	real     sync.RWMutex
	readers  int
	writer   bool
	waitingW int // writers that announced and not yet acquired
}

func (m *RWMutex) RLock() {
	if !vsched.Active() {
		m.real.RLock()
		return
	}
	vsched.Do(&vsched.Op{Kind: "rlock", Obj: vsched.ObjLabel("rw", m), Enabled: func() bool { return !m.writer && m.waitingW == 0 }})
	m.readers++
}

func (m *RWMutex) TryRLock() bool {
	if !vsched.Active() {
		return m.real.TryRLock()
	}
	vsched.Yield("tryrlock")
	if m.writer || m.waitingW > 0 {
		return false
	}
	m.readers++
	return true
}

func (m *RWMutex) RUnlock() {
	if !vsched.Active() {
		m.real.RUnlock()
		return
	}
	if m.readers <= 0 {
		panic("sync: RUnlock of unlocked RWMutex")
	}
	m.readers--
	released()
}

func (m *RWMutex) Lock() {
	if !vsched.Active() {
		m.real.Lock()
		return
	}
	// Step 1: announce. In Go the writer first takes the internal writer mutex
	// (excluding other writers) and then flips readerCount; from that moment new
	// RLock calls block. Announce is enabled iff no other writer announced/holds.
	vsched.Do(&vsched.Op{Kind: "wlock.announce", Obj: vsched.ObjLabel("rw", m), Enabled: func() bool { return !m.writer && m.waitingW == 0 }})
	m.waitingW++
	// Step 2: acquire when readers have drained. If there are no readers at the
	// announce step Go does not block at all, so skip the second point then.
	if m.readers > 0 {
		vsched.Do(&vsched.Op{Kind: "wlock.acquire", Obj: vsched.ObjLabel("rw", m), Enabled: func() bool { return m.readers == 0 }})
	}
	m.waitingW--
	m.writer = true
}

func (m *RWMutex) TryLock() bool {
	if !vsched.Active() {
		return m.real.TryLock()
	}
	vsched.Yield("trywlock")
	if m.writer || m.waitingW > 0 || m.readers > 0 {
		return false
	}
	m.writer = true
	return true
}

func (m *RWMutex) Unlock() {
	if !vsched.Active() {
		m.real.Unlock()
		return
	}
	if !m.writer {
		panic("sync: Unlock of unlocked RWMutex")
	}
	m.writer = false
	released()
}

func (m *RWMutex) RLocker() Locker { return (*rlocker)(m) }

type rlocker RWMutex

func (r *rlocker) Lock()   { (*RWMutex)(r).RLock() }
func (r *rlocker) Unlock() { (*RWMutex)(r).RUnlock() }

// WaitGroup is a modelled sync.WaitGroup.
type WaitGroup struct {
	real sync.WaitGroup
	n    int
}

func (w *WaitGroup) Add(d int) {
	if !vsched.Active() {
		w.real.Add(d)
		return
	}
	w.n += d
	if w.n < 0 {
		panic("sync: negative WaitGroup counter")
	}
}

func (w *WaitGroup) Done() { w.Add(-1) }

func (w *WaitGroup) Wait() {
	if !vsched.Active() {
		w.real.Wait()
		return
	}
	vsched.Do(&vsched.Op{Kind: "wg.wait", Obj: vsched.ObjLabel("wg", w), Enabled: func() bool { return w.n == 0 }})
}

// Once is a modelled sync.Once.
type Once struct {
	real sync.Once
	m    Mutex
	done bool
}

func (o *Once) Do(f func()) {
	if !vsched.Active() {
		o.real.Do(func() { o.done = true; f() })
		return
	}
	if o.done {
		return
	}
	o.m.Lock()
	defer o.m.Unlock()
	if !o.done {
		defer func() { o.done = true }()
		f()
	}
}

// VerifState returns a digest of the modelled lock state (for state keys).
func (m *RWMutex) VerifState() uint64 {
	v := uint64(m.readers)<<8 | uint64(m.waitingW)<<1
	if m.writer {
		v |= 1
	}
	return v
}

// VerifState returns a digest of the modelled lock state.
func (m *Mutex) VerifState() uint64 {
	if m.locked {
		return 1
	}
	return 0
}
