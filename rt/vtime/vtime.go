// Package vtime mirrors package time on a virtual clock: the vsched execution
// clock inside an execution, a harness-driven manual clock in sequential
// histories, and real time otherwise.
package vtime

import (
	"time"

	"github.com/refraction-networking/conjure/pkg/zzverif/vsched"
)

type (
	Duration   = time.Duration
	Time       = time.Time
	Month      = time.Month
	Weekday    = time.Weekday
	Location   = time.Location
	ParseError = time.ParseError
)

const (
	Nanosecond  = time.Nanosecond
	Microsecond = time.Microsecond
	Millisecond = time.Millisecond
	Second      = time.Second
	Minute      = time.Minute
	Hour        = time.Hour

	Layout      = time.Layout
	ANSIC       = time.ANSIC
	UnixDate    = time.UnixDate
	RFC822      = time.RFC822
	RFC1123     = time.RFC1123
	RFC3339     = time.RFC3339
	RFC3339Nano = time.RFC3339Nano
	Kitchen     = time.Kitchen
	Stamp       = time.Stamp
	StampMilli  = time.StampMilli
	StampMicro  = time.StampMicro
	DateTime    = time.DateTime
	DateOnly    = time.DateOnly
	TimeOnly    = time.TimeOnly

	January = time.January
)

var (
	UTC           = time.UTC
	Local         = time.Local
	ParseDuration = time.ParseDuration
	Parse         = time.Parse
	Date          = time.Date
	Unix          = time.Unix
	UnixMilli     = time.UnixMilli
	UnixMicro     = time.UnixMicro
	LoadLocation  = time.LoadLocation
	FixedZone     = time.FixedZone
)

func Now() Time                    { return vsched.VNow() }
func Since(t Time) Duration        { return vsched.VNow().Sub(t) }
func Until(t Time) Duration        { return t.Sub(vsched.VNow()) }
func Sleep(d Duration)             { vsched.Sleep(d) }
func After(d Duration) <-chan Time { return NewTimer(d).C }
func Tick(d Duration) <-chan Time  { return NewTicker(d).C }

// Timer mirrors time.Timer.
type Timer struct {
	C    <-chan Time
	c    chan Time
	real *time.Timer
	vt   *vsched.Timer
	fn   func()
}

func NewTimer(d Duration) *Timer {
	if !vsched.Active() {
		rt := time.NewTimer(d)
		return &Timer{C: rt.C, real: rt}
	}
	c := make(chan Time, 1)
	t := &Timer{C: c, c: c}
	t.vt = vsched.AddTimer(d, func() {
		select {
		case c <- vsched.VNow():
		default:
		}
	})
	return t
}

func AfterFunc(d Duration, f func()) *Timer {
	if !vsched.Active() {
		return &Timer{real: time.AfterFunc(d, f)}
	}
	t := &Timer{fn: f}
	t.vt = vsched.AddTimer(d, func() { vsched.GoDetached("afterfunc", f) })
	return t
}

func (t *Timer) Stop() bool {
	if t.real != nil {
		return t.real.Stop()
	}
	return t.vt.Stop()
}

func (t *Timer) Reset(d Duration) bool {
	if t.real != nil {
		return t.real.Reset(d)
	}
	active := t.vt.Stop()
	if t.fn != nil {
		f := t.fn
		t.vt = vsched.AddTimer(d, func() { vsched.GoDetached("afterfunc", f) })
	} else {
		c := t.c
		t.vt = vsched.AddTimer(d, func() {
			select {
			case c <- vsched.VNow():
			default:
			}
		})
	}
	return active
}

// Ticker mirrors time.Ticker.
type Ticker struct {
	C       <-chan Time
	c       chan Time
	real    *time.Ticker
	vt      *vsched.Timer
	d       Duration
	stopped bool
}

func NewTicker(d Duration) *Ticker {
	if !vsched.Active() {
		rt := time.NewTicker(d)
		return &Ticker{C: rt.C, real: rt}
	}
	c := make(chan Time, 1)
	t := &Ticker{C: c, c: c, d: d}
	t.arm()
	return t
}

func (t *Ticker) arm() {
	t.vt = vsched.AddTimer(t.d, func() {
		if t.stopped {
			return
		}
		select {
		case t.c <- vsched.VNow():
		default:
		}
		t.arm()
	})
}

func (t *Ticker) Stop() {
	if t.real != nil {
		t.real.Stop()
		return
	}
	t.stopped = true
	t.vt.Stop()
}

func (t *Ticker) Reset(d Duration) {
	if t.real != nil {
		t.real.Reset(d)
		return
	}
	t.vt.Stop()
	t.d = d
	t.stopped = false
	t.arm()
}
