package vsched

import (
	"encoding/json"
	"fmt"
	"hash/fnv"
	"os"
	"sync/atomic"
	"time"
)

// Config bounds one exploration.
type Config struct {
	Name         string
	PreemptBound int // max preemptions per execution (-1 = unbounded)
	EnvBound     int // max environment deviations per execution (-1 = unbounded)
	MaxPoints    int // livelock guard per execution
	MaxExec      int64
	Deadline     time.Time // zero = none
	StopAtFirst  bool
	// Shard: explore only level-1 subtrees whose index % ShardN == ShardI
	ShardI, ShardN int
	// Prune enables state-key pruning (requires Scenario.StateKey sound).
	Prune bool
}

// Scenario is created fresh for every execution.
type Scenario struct {
	// Setup runs inside the execution context before thread 0 starts (optional).
	Setup func(x *Exec)
	// Body is thread 0.
	Body func()
	// Check is the oracle, called after the execution ends; returns "" if fine,
	// otherwise a violation key and description.
	Check func(x *Exec) *Violation
	// Outcome returns a digest string of the observable outcome (for counting
	// distinct outcomes); optional.
	Outcome func(x *Exec) string
}

// Violation describes one property violation found in one execution.
type Violation struct {
	Key     string   `json:"key"`  // stable class key used for known-findings matching
	What    string   `json:"what"` // human description
	Choices []int    `json:"choices"`
	Trace   []string `json:"trace,omitempty"`
	Verdict string   `json:"verdict,omitempty"`
	Detail  string   `json:"detail,omitempty"`
	Scen    string   `json:"scenario,omitempty"`
}

// Result summarises an exploration.
type Result struct {
	Name            string           `json:"name"`
	Executions      int64            `json:"executions"`
	Transitions     int64            `json:"transitions"`
	States          int              `json:"states"`
	Outcomes        int              `json:"distinct_outcomes"`
	OutcomeSamples  []string         `json:"outcome_samples,omitempty"`
	MaxPoints       int              `json:"max_points"`
	Deadlocks       int64            `json:"deadlocks"`
	Panics          int64            `json:"panics"`
	PreemptBound    int              `json:"preemption_bound"`
	EnvBound        int              `json:"env_bound"`
	Exhaustive      bool             `json:"exhaustive"`
	Cap             string           `json:"cap,omitempty"`
	Violations      []*Violation     `json:"violations,omitempty"`
	ViolationsByKey map[string]int64 `json:"violations_by_key,omitempty"`
	SampleTraces    [][]string       `json:"sample_traces,omitempty"`
	Pruned          int64            `json:"pruned,omitempty"`
	WallS           float64          `json:"wall_s"`
	firstOfKey      map[string]*Violation
	states          map[uint64]struct{}
	outcomes        map[string]struct{}
	visited         map[uint64]int
}

type explorer struct {
	cfg     Config
	mk      func() *Scenario
	res     *Result
	stop    bool
	budgets map[uint64][][2]int
}

// Explore runs the DFS. mk is called before every execution and must return a
// scenario over fresh objects.
func Explore(cfg Config, mk func() *Scenario) *Result {
	startWatchdog()
	atomic.StoreInt32(&exploring, 1)
	defer atomic.StoreInt32(&exploring, 0)
	if cfg.MaxPoints == 0 {
		cfg.MaxPoints = 20000
	}
	if cfg.ShardN == 0 {
		cfg.ShardN = 1
	}
	e := &explorer{cfg: cfg, mk: mk, res: &Result{Name: cfg.Name, PreemptBound: cfg.PreemptBound, EnvBound: cfg.EnvBound, Exhaustive: true,
		ViolationsByKey: map[string]int64{}, firstOfKey: map[string]*Violation{}, states: map[uint64]struct{}{}, outcomes: map[string]struct{}{}, visited: map[uint64]int{}}}
	e.budgets = map[uint64][][2]int{}
	t0 := time.Now()
	e.explore(nil, 0)
	e.res.States = len(e.res.states)
	if e.res.States == 0 {
		// no harness state key: count distinct schedule prefixes as states is
		// meaningless; report distinct (thread,pc) vectors instead (collected below)
		e.res.States = len(e.res.visited)
	}
	e.res.Outcomes = len(e.res.outcomes)
	for k := range e.res.outcomes {
		if len(e.res.OutcomeSamples) < 8 {
			e.res.OutcomeSamples = append(e.res.OutcomeSamples, k)
		}
	}
	e.res.WallS = time.Since(t0).Seconds()
	return e.res
}

// RunOnce executes exactly the given choice list (for replay / self-check).
func RunOnce(choices []int, maxPts int, mk func() *Scenario) (*Exec, *Violation) {
	startWatchdog()
	atomic.StoreInt32(&exploring, 1)
	defer atomic.StoreInt32(&exploring, 0)
	if maxPts == 0 {
		maxPts = 20000
	}
	sc := mk()
	x := run(choices, maxPts, sc.Body, sc.Setup, nil)
	var v *Violation
	if sc.Check != nil {
		v = sc.Check(x)
	}
	if v != nil {
		v.Choices = append([]int{}, x.Choices...)
		v.Trace = x.Trace()
		v.Verdict = x.Verdict
		v.Detail = x.Detail
	}
	return x, v
}

func (e *explorer) explore(prefix []int, depth int) {
	if e.stop {
		return
	}
	if e.cfg.MaxExec > 0 && e.res.Executions >= e.cfg.MaxExec {
		e.capped(fmt.Sprintf("max executions %d", e.cfg.MaxExec))
		return
	}
	if !e.cfg.Deadline.IsZero() && e.res.Executions%64 == 0 && time.Now().After(e.cfg.Deadline) {
		e.capped("time budget")
		return
	}
	sc := e.mk()
	var pf func(uint64, int, int) bool
	if e.cfg.Prune {
		pf = e.pruneCheck
	}
	x := run(prefix, e.cfg.MaxPoints, sc.Body, sc.Setup, pf)
	r := e.res
	r.Executions++
	r.Transitions += int64(len(x.Points)) - int64(len(prefix))
	if len(x.Points) > r.MaxPoints {
		r.MaxPoints = len(x.Points)
	}
	for k := range x.keys {
		r.states[k] = struct{}{}
	}
	// schedule-shape digest (thread/pc vectors) as fallback state count
	if x.StateKey == nil {
		h := fnv.New64a()
		for _, p := range x.Points {
			fmt.Fprintf(h, "%d.%s.%s.%d|", p.Thread, p.Kind, p.Obj, p.Alt)
			r.visited[h.Sum64()] = 0
		}
	}
	switch x.Verdict {
	case VDeadlock:
		r.Deadlocks++
	case VPanic:
		r.Panics++
	case VDiverged:
		fmt.Printf("HARNESS-ERROR %s: %s\n", e.cfg.Name, x.Detail)
		os.Exit(2)
	}
	if x.Pruned {
		r.Pruned++
	}
	if sc.Outcome != nil && !x.Pruned {
		o := sc.Outcome(x)
		r.outcomes[o] = struct{}{}
	}
	if len(r.SampleTraces) < 2 && (r.Executions == 1 || r.Executions == 50) {
		r.SampleTraces = append(r.SampleTraces, x.Trace())
	}
	if sc.Check != nil && !x.Pruned {
		if v := sc.Check(x); v != nil {
			r.ViolationsByKey[v.Key]++
			if _, seen := r.firstOfKey[v.Key]; !seen {
				v.Choices = append([]int{}, x.Choices...)
				v.Trace = x.Trace()
				v.Verdict = x.Verdict
				v.Detail = x.Detail
				v.Scen = e.cfg.Name
				r.firstOfKey[v.Key] = v
				r.Violations = append(r.Violations, v)
			}
			if e.cfg.StopAtFirst {
				e.stop = true
				r.Exhaustive = false
				r.Cap = "stopped at first violation"
				return
			}
		}
	}
	// alternatives
	pre, env := 0, 0
	for i := 0; i < len(x.Points); i++ {
		p := &x.Points[i]
		if i >= len(prefix) {
			for alt := 0; alt < p.NEnabled; alt++ {
				if alt == x.Choices[i] {
					continue
				}
				c := p.costs[alt]
				np, ne := pre, env
				if c&1 != 0 {
					np++
				}
				if c&2 != 0 {
					ne++
				}
				if e.cfg.PreemptBound >= 0 && np > e.cfg.PreemptBound {
					continue
				}
				if e.cfg.EnvBound >= 0 && ne > e.cfg.EnvBound {
					continue
				}
				if depth == 0 && e.cfg.ShardN > 1 {
					// shard on (position, alt) of the first deviation
					if (i*31+alt)%e.cfg.ShardN != e.cfg.ShardI {
						continue
					}
				}
				np2 := make([]int, i+1)
				copy(np2, x.Choices[:i])
				np2[i] = alt
				e.explore(np2, depth+1)
				if e.stop {
					return
				}
			}
		}
		c := p.costs[x.Choices[i]]
		if c&1 != 0 {
			pre++
		}
		if c&2 != 0 {
			env++
		}
	}
}

// pruneCheck reports whether the global state key was already reached with at
// least as much remaining budget in both dimensions; otherwise it records it.
func (e *explorer) pruneCheck(key uint64, preUsed, envUsed int) bool {
	const inf = 1 << 30
	rp, re := inf, inf
	if e.cfg.PreemptBound >= 0 {
		rp = e.cfg.PreemptBound - preUsed
	}
	if e.cfg.EnvBound >= 0 {
		re = e.cfg.EnvBound - envUsed
	}
	bs := e.budgets[key]
	for _, b := range bs {
		if b[0] >= rp && b[1] >= re {
			return true
		}
	}
	e.budgets[key] = append(bs, [2]int{rp, re})
	return false
}

func (e *explorer) capped(why string) {
	e.stop = true
	e.res.Exhaustive = false
	e.res.Cap = why
}

// JSON renders the result.
func (r *Result) JSON() string {
	b, _ := json.Marshal(r)
	return string(b)
}
