package vsched

import "sort"

// SortedKeys returns the keys of a string-keyed map in ascending order (vinstr -maprange uses it to make the visiting
// order of a for-range over a map part of the owned, replayable behaviour).
func SortedKeys[V any](m map[string]V) []string {
	ks := make([]string, 0, len(m))
	for k := range m {
		ks = append(ks, k)
	}
	sort.Strings(ks)
	return ks
}
