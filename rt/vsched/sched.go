// Package vsched is a cooperative, controlled scheduler for Go code plus a
// stateless depth-first explorer over its choice points.
//
// Threads are real goroutines; exactly one runs at a time. Before every
// modelled operation (lock acquire, channel step, sleep, scripted I/O,
// environment answer) the running thread publishes the operation and parks;
// the controller computes the enabled set and resumes one (thread, alternative)
// pair. All state of modelled primitives is only touched by the running thread
// or by the controller while every thread is parked, so there are no data
// races inside the scheduler itself.
package vsched

import (
	"fmt"
	"os"
	"runtime"
	"sort"
	"strings"
	"sync/atomic"
	"time"
)

// Op describes a pending modelled operation of a parked thread.
type Op struct {
	Kind string // "lock", "rlock", "wlock.announce", "wlock.acquire", "go", "start", "send", "recv", "select", "wg.wait", "sleep", "io", "choose", "yield" ...
	Obj  string // stable label of the object (for traces / state keys)
	// Enabled is evaluated only by the controller while all threads are parked.
	Enabled func() bool
	// NAlt returns the number of alternatives when enabled (>=1). nil means 1.
	NAlt func() int
	// Env marks alternatives >0 as environment deviations (cost 1 each). When
	// false, alternatives >0 are free (e.g. which ready select case fires).
	Env bool
	// WakeAt, if non-nil, returns a virtual time at which the op becomes enabled
	// by the passage of time alone.
	WakeAt func() (int64, bool)
	// AltLabel names alternative i (for traces); may be nil.
	AltLabel func(i int) string
}

type thread struct {
	id      int
	name    string
	resume  chan struct{}
	pending *Op
	alt     int
	done    bool
	started bool
	daemon  bool
	pc      int // number of points passed
	stack   string
	class   string // spawn-site class for symmetry reduction ("" = unique)
}

// Point is one recorded scheduling decision.
type Point struct {
	Thread   int    `json:"t"`
	Kind     string `json:"k"`
	Obj      string `json:"o,omitempty"`
	Alt      int    `json:"a,omitempty"`
	AltLabel string `json:"al,omitempty"`
	NEnabled int    `json:"n"`
	Choice   int    `json:"c"`
	// costs[i] for each alternative i: bit0 = preemption, bit1 = env deviation
	costs []uint8
	Clock int64 `json:"clk,omitempty"`
}

// Verdicts of one execution.
const (
	VOK       = "ok"
	VDeadlock = "deadlock"
	VPanic    = "panic"
	VLivelock = "livelock"
	VDiverged = "diverged"
	VPruned   = "pruned"
)

// Exec is one controlled execution.
type Exec struct {
	threads  []*thread
	running  *thread
	ctl      chan struct{}
	prefix   []int
	Points   []Point
	Choices  []int
	Verdict  string
	Detail   string // panic message / deadlock description
	aborting bool
	maxPts   int
	clock    int64 // virtual nanoseconds since Base
	Base     time.Time
	timers   []*Timer
	// StateKey, if set by the harness, returns a digest of shared state; used
	// for distinct-state counting and optional pruning.
	StateKey func() uint64
	keys     map[uint64]struct{}
	trans    int64
	objIDs   map[any]int
	// user slot for harness data
	User any
	// TimerEarly: if true, at each point where a timer is pending and threads are
	// enabled nothing special happens (discrete-event). Reserved.
	stepCounter *int64
	hist        []uint64 // per-thread rolling hash of the shared-state keys seen at each of its steps
	preUsed     int
	envUsed     int
	// pruneFn, if set, is asked at every point beyond the replayed prefix whether
	// the global state was already fully explored with at least this budget.
	pruneFn func(key uint64, preUsed, envUsed int) bool
	Pruned  bool
	// Symmetry enables symmetry reduction: among enabled threads spawned by the same go
	// statement that have passed the same number of points, are parked on the same operation
	// and have acted on the same sequence of shared states (hist), only the lowest id is
	// offered. Requires StateKey to cover all shared state the threads read.
	Symmetry bool
	// SymIdle, if set, says that a thread of a symmetric class parked on this operation carries
	// no thread-local state (e.g. a worker at the top of its loop): such threads are
	// interchangeable whatever their history.
	SymIdle func(op *Op) bool
	// DelayBounded switches the deviation measure from preemptions to delays (Emmi, Qadeer,
	// Rakamaric 2011): the default scheduler continues the running thread and otherwise
	// resumes the enabled thread with the lowest id; choosing any other thread costs one unit
	// of PreemptBound, also at points where the running thread blocked or finished.
	DelayBounded bool
}

var cur *Exec

type abortSignal struct{}

// Active reports whether a controlled execution is in progress.
func Active() bool { return cur != nil }

// Cur returns the current execution (nil outside).
func Cur() *Exec { return cur }

var steps int64
var watchdogOnce int32

func startWatchdog() {
	if !atomic.CompareAndSwapInt32(&watchdogOnce, 0, 1) {
		return
	}
	go func() {
		last := int64(-1)
		same := 0
		for {
			time.Sleep(5 * time.Second)
			s := atomic.LoadInt64(&steps)
			if atomic.LoadInt32(&exploring) == 1 && s == last {
				same++
				if same >= 6 {
					buf := make([]byte, 1<<20)
					n := runtime.Stack(buf, true)
					fmt.Fprintf(os.Stderr, "HARNESS-ERROR scheduler made no progress for 30s (a thread blocked outside the scheduler?)\n%s\n", buf[:n])
					fmt.Println("HARNESS-ERROR watchdog: no progress")
					os.Exit(2)
				}
			} else {
				same = 0
			}
			last = s
		}
	}()
}

var exploring int32

// ObjID returns a small stable integer for a modelled object in order of first use.
func (x *Exec) ObjID(o any) int {
	if id, ok := x.objIDs[o]; ok {
		return id
	}
	id := len(x.objIDs) + 1
	x.objIDs[o] = id
	return id
}

// ObjLabel returns kind#id for the object in the current execution.
func ObjLabel(kind string, o any) string {
	x := cur
	if x == nil {
		return kind
	}
	return fmt.Sprintf("%s#%d", kind, x.ObjID(o))
}

func (x *Exec) spawn(name string, f func(), daemon bool) *thread {
	t := &thread{id: len(x.threads), name: name, resume: make(chan struct{}), daemon: daemon}
	x.threads = append(x.threads, t)
	t.pending = &Op{Kind: "start", Obj: name, Enabled: func() bool { return true }}
	go func() {
		<-t.resume
		defer func() {
			if r := recover(); r != nil {
				if _, ok := r.(abortSignal); !ok {
					if x.Verdict == "" || x.Verdict == VOK {
						x.Verdict = VPanic
						buf := make([]byte, 16384)
						n := runtime.Stack(buf, false)
						x.Detail = fmt.Sprintf("panic in thread %d (%s): %v\n%s", t.id, t.name, r, trimStack(string(buf[:n])))
					}
				}
			}
			t.done = true
			t.pending = nil
			x.ctl <- struct{}{}
		}()
		if x.aborting {
			return
		}
		t.started = true
		f()
	}()
	return t
}

func trimStack(s string) string {
	lines := strings.Split(s, "\n")
	if len(lines) > 60 {
		lines = lines[:60]
	}
	return strings.Join(lines, "\n")
}

// InlineGo makes Go run its function synchronously when no execution is active
// (sequential enumeration harnesses that must observe the goroutine's effects).
var InlineGo bool

// Go starts f as a new controlled thread (or a plain goroutine outside an
// execution). The spawn is a scheduling point for the parent.
func Go(f func()) {
	class := ""
	if cur != nil && cur.Symmetry {
		// threads spawned by the same go statement are candidates for symmetry reduction
		var pcs [1]uintptr
		if runtime.Callers(2, pcs[:]) == 1 {
			class = fmt.Sprintf("go@%x", pcs[0])
		}
	}
	goNamed("", f, class)
}

// GoNamed is Go with a thread name for traces.
func GoNamed(name string, f func()) { goNamed(name, f, "") }

func goNamed(name string, f func(), goClass string) {
	x := cur
	if x == nil {
		if InlineGo {
			f()
			return
		}
		go f()
		return
	}
	if name == "" {
		name = fmt.Sprintf("g%d", len(x.threads))
	}
	t := x.spawn(name, f, false)
	t.class = goClass
	if goClass != "" {
		t.pending.Obj = goClass // interchangeable until started
	}
	Do(&Op{Kind: "go", Obj: name})
}

// GoDetached starts a controlled thread from controller context (timer
// callbacks): no scheduling point for a parent because there is none.
func GoDetached(name string, f func()) {
	x := cur
	if x == nil {
		go f()
		return
	}
	x.spawn(fmt.Sprintf("%s%d", name, len(x.threads)), f, false)
}

// GoDaemon starts a thread that is not required to finish.
func GoDaemon(name string, f func()) {
	x := cur
	if x == nil {
		go f()
		return
	}
	x.spawn(name, f, true)
	Do(&Op{Kind: "go", Obj: name})
}

// Do publishes op, parks, and returns the alternative chosen once resumed.
// Outside an execution it returns 0 immediately (caller must handle that case
// before calling when blocking semantics matter).
func Do(op *Op) int {
	x := cur
	if x == nil {
		return 0
	}
	t := x.running
	if x.aborting {
		panic(abortSignal{})
	}
	t.pending = op
	x.ctl <- struct{}{}
	<-t.resume
	if x.aborting {
		panic(abortSignal{})
	}
	t.pending = nil
	t.pc++
	return t.alt
}

// Yield is a plain scheduling point (always enabled).
func Yield(label string) { Do(&Op{Kind: "yield", Obj: label}) }

// Choose is an environment choice with n answers; 0 is the benign default and
// any other answer costs one environment deviation.
func Choose(n int, label string) int {
	if cur == nil || n <= 1 {
		return 0
	}
	return Do(&Op{Kind: "choose", Obj: label, NAlt: func() int { return n }, Env: true})
}

// ChooseFree is a choice whose alternatives carry no cost (all equally likely).
func ChooseFree(n int, label string) int {
	if cur == nil || n <= 1 {
		return 0
	}
	return Do(&Op{Kind: "choose", Obj: label, NAlt: func() int { return n }, Env: false})
}

// ThreadID returns the id of the running thread (-1 outside).
func ThreadID() int {
	if cur == nil || cur.running == nil {
		return -1
	}
	return cur.running.id
}

type cand struct {
	t   *thread
	alt int
}

// RunResult is what an execution leaves behind.
type RunResult struct {
	X *Exec
}

// run executes body under the scheduler following prefix, then default choices.
func run(prefix []int, maxPts int, body func(), setup func(x *Exec), prune func(uint64, int, int) bool) *Exec {
	x := &Exec{pruneFn: prune, ctl: make(chan struct{}), prefix: prefix, maxPts: maxPts, objIDs: map[any]int{}, Base: time.Now().Truncate(time.Second)}
	if cur != nil {
		panic("vsched: nested execution")
	}
	cur = x
	defer func() { cur = nil }()
	if setup != nil {
		setup(x)
	}
	t0 := x.spawn("main", body, false)
	// start main
	x.running = t0
	t0.pending = nil
	t0.resume <- struct{}{}
	x.loop()
	return x
}

func (x *Exec) loop() {
	var E []cand
	for {
		<-x.ctl // running thread parked or finished
		atomic.AddInt64(&steps, 1)
		if x.Verdict == VPanic {
			x.abort()
			return
		}
	again:
		E = E[:0]
		r := x.running
		runEnabled := false
		if r != nil && !r.done && r.pending != nil && opEnabled(r.pending) {
			runEnabled = true
			n := nalt(r.pending)
			for a := 0; a < n; a++ {
				E = append(E, cand{r, a})
			}
		}
		var sigs map[string]bool
		for _, t := range x.threads {
			if t == r || t.done || t.pending == nil {
				continue
			}
			if x.Symmetry && x.StateKey != nil && t.class != "" {
				var h uint64
				if t.id < len(x.hist) {
					h = x.hist[t.id]
				}
				sig := fmt.Sprintf("%s/%d/%s/%s/%x", t.class, t.pc, t.pending.Kind, t.pending.Obj, h)
				if x.SymIdle != nil && x.SymIdle(t.pending) {
					sig = fmt.Sprintf("%s/idle/%s/%s", t.class, t.pending.Kind, t.pending.Obj)
				}
				if sigs == nil {
					sigs = map[string]bool{}
				}
				if sigs[sig] {
					continue // an interchangeable thread with a lower id is already offered
				}
				if opEnabled(t.pending) {
					sigs[sig] = true
				}
			}
			if opEnabled(t.pending) {
				n := nalt(t.pending)
				for a := 0; a < n; a++ {
					E = append(E, cand{t, a})
				}
			}
		}
		if len(E) == 0 {
			// advance virtual time if something is waiting for it
			if x.advanceToNextWake() {
				goto again
			}
			alldone := true
			for _, t := range x.threads {
				if !t.done && !t.daemon {
					alldone = false
				}
			}
			if alldone {
				if x.Verdict == "" {
					x.Verdict = VOK
				}
				x.abort() // release daemons
				return
			}
			x.Verdict = VDeadlock
			x.Detail = x.describeBlocked()
			x.abort()
			return
		}
		if len(x.Points) >= x.maxPts {
			x.Verdict = VLivelock
			x.Detail = fmt.Sprintf("more than %d points in one execution", x.maxPts)
			x.abort()
			return
		}
		i := 0
		pos := len(x.Points)
		var sk uint64
		if x.StateKey != nil {
			sk = x.StateKey()
		}
		if x.pruneFn != nil && pos >= len(x.prefix) && pos > 0 {
			if x.pruneFn(x.fullKey(sk), x.preUsed, x.envUsed) {
				x.Pruned = true
				x.Verdict = VPruned
				x.abort()
				return
			}
		}
		if pos < len(x.prefix) {
			i = x.prefix[pos]
			if i < 0 || i >= len(E) {
				x.Verdict = VDiverged
				x.Detail = fmt.Sprintf("replay diverged at point %d: choice %d of %d enabled", pos, i, len(E))
				x.abort()
				return
			}
		}
		c := E[i]
		p := Point{Thread: c.t.id, Kind: c.t.pending.Kind, Obj: c.t.pending.Obj, Alt: c.alt, NEnabled: len(E), Choice: i, Clock: x.clock}
		if c.t.pending.AltLabel != nil {
			p.AltLabel = c.t.pending.AltLabel(c.alt)
		}
		p.costs = make([]uint8, len(E))
		for j, e := range E {
			var k uint8
			if runEnabled && e.t != r {
				k |= 1
			}
			if x.DelayBounded && e.t != E[0].t {
				k |= 1 // delay bounding: any departure from the default thread order counts
			}
			if e.alt > 0 && e.t.pending.Env {
				k |= 2
			}
			p.costs[j] = k
		}
		x.Points = append(x.Points, p)
		x.Choices = append(x.Choices, i)
		x.trans++
		if p.costs[i]&1 != 0 {
			x.preUsed++
		}
		if p.costs[i]&2 != 0 {
			x.envUsed++
		}
		if x.StateKey != nil {
			if x.keys == nil {
				x.keys = map[uint64]struct{}{}
			}
			x.keys[x.globalKey(sk)] = struct{}{}
			for len(x.hist) < len(x.threads) {
				x.hist = append(x.hist, 0)
			}
			h := x.hist[c.t.id]
			h = (h ^ sk) * 1099511628211
			h = (h ^ uint64(c.alt+1)) * 1099511628211
			x.hist[c.t.id] = h
		}
		c.t.alt = c.alt
		x.running = c.t
		c.t.resume <- struct{}{}
	}
}

// fullKey identifies the global state for pruning: shared state, clock, the
// running thread (it determines what counts as a preemption next), and for each
// thread its progress and the rolling hash of every shared state it has acted
// on (which determines its thread-local state, threads being deterministic).
func (x *Exec) fullKey(sk uint64) uint64 {
	h := uint64(1469598103934665603)
	mix := func(v uint64) {
		h ^= v
		h *= 1099511628211
	}
	mix(sk)
	mix(uint64(x.clock))
	mix(uint64(len(x.timers)))
	if x.running != nil {
		mix(uint64(x.running.id) + 7)
	}
	for _, t := range x.threads {
		mix(uint64(t.id)<<32 | uint64(t.pc))
		if t.done {
			mix(0xdead)
		}
		if t.id < len(x.hist) {
			mix(x.hist[t.id])
		}
	}
	return h
}

func (x *Exec) globalKey(sk uint64) uint64 {
	h := uint64(1469598103934665603)
	mix := func(v uint64) {
		h ^= v
		h *= 1099511628211
	}
	mix(sk)
	for _, t := range x.threads {
		mix(uint64(t.id)<<32 | uint64(t.pc))
		if t.done {
			mix(0xdead)
		}
	}
	return h
}

func opEnabled(op *Op) bool {
	if op.Enabled == nil {
		return true
	}
	return op.Enabled()
}

func nalt(op *Op) int {
	if op.NAlt == nil {
		return 1
	}
	n := op.NAlt()
	if n < 1 {
		return 1
	}
	return n
}

func (x *Exec) describeBlocked() string {
	var sb strings.Builder
	for _, t := range x.threads {
		if t.done {
			continue
		}
		k, o := "?", ""
		if t.pending != nil {
			k, o = t.pending.Kind, t.pending.Obj
		}
		fmt.Fprintf(&sb, "thread %d (%s) blocked at %s %s; ", t.id, t.name, k, o)
	}
	return sb.String()
}

// abort releases every parked thread with an abort panic and waits for them.
func (x *Exec) abort() {
	x.aborting = true
	for _, t := range x.threads {
		for !t.done {
			x.running = t
			t.resume <- struct{}{}
			<-x.ctl
		}
	}
}

// Trace renders the executed schedule for humans.
func (x *Exec) Trace() []string {
	out := make([]string, 0, len(x.Points))
	for i, p := range x.Points {
		name := ""
		if p.Thread < len(x.threads) {
			name = x.threads[p.Thread].name
		}
		s := fmt.Sprintf("%3d: T%d(%s) %s %s", i, p.Thread, name, p.Kind, p.Obj)
		if p.AltLabel != "" {
			s += " -> " + p.AltLabel
		} else if p.Alt != 0 {
			s += fmt.Sprintf(" alt=%d", p.Alt)
		}
		if p.NEnabled > 1 {
			s += fmt.Sprintf("  [choice %d/%d]", p.Choice, p.NEnabled)
		}
		out = append(out, s)
	}
	return out
}

// States returns the number of distinct global state keys seen in this execution.
func (x *Exec) stateKeys() map[uint64]struct{} { return x.keys }

// ---------------------------------------------------------------------------
// Virtual time

// Timer is a virtual timer.
type Timer struct {
	at      int64
	fire    func()
	stopped bool
	fired   bool
	seq     int
}

// Now returns the virtual time (real time outside an execution).
func Now() time.Time { return VNow() }

// ClockNanos returns virtual nanoseconds since the base.
func ClockNanos() int64 {
	if cur == nil {
		return 0
	}
	return cur.clock
}

// AddTimer registers fn to run (in controller context, all threads parked, or
// in the advancing thread) when the clock reaches now+d.
func AddTimer(d time.Duration, fn func()) *Timer {
	x := cur
	if x == nil {
		panic("vsched.AddTimer outside execution")
	}
	if d < 0 {
		d = 0
	}
	t := &Timer{at: x.clock + int64(d), fire: fn, seq: len(x.timers)}
	x.timers = append(x.timers, t)
	return t
}

// Stop cancels the timer; reports whether it had not fired yet.
func (t *Timer) Stop() bool {
	if t.fired || t.stopped {
		return false
	}
	t.stopped = true
	return true
}

// Fired reports whether the timer has fired.
func (t *Timer) Fired() bool { return t.fired }

// At returns the deadline in virtual nanos.
func (t *Timer) At() int64 { return t.at }

func (x *Exec) fireDue() {
	for {
		var due []*Timer
		for _, t := range x.timers {
			if !t.fired && !t.stopped && t.at <= x.clock {
				due = append(due, t)
			}
		}
		if len(due) == 0 {
			break
		}
		sort.SliceStable(due, func(i, j int) bool {
			if due[i].at != due[j].at {
				return due[i].at < due[j].at
			}
			return due[i].seq < due[j].seq
		})
		for _, t := range due {
			if !t.fired && !t.stopped {
				t.fired = true
				t.fire()
			}
		}
	}
	// compact
	n := 0
	for _, t := range x.timers {
		if !t.fired && !t.stopped {
			x.timers[n] = t
			n++
		}
	}
	x.timers = x.timers[:n]
}

// advanceToNextWake moves the clock to the earliest pending wake-up (timer or
// sleeping op). Returns false if nothing is waiting for time.
func (x *Exec) advanceToNextWake() bool {
	best := int64(-1)
	for _, t := range x.timers {
		if t.fired || t.stopped {
			continue
		}
		if best < 0 || t.at < best {
			best = t.at
		}
	}
	for _, t := range x.threads {
		if t.done || t.pending == nil || t.pending.WakeAt == nil {
			continue
		}
		if at, ok := t.pending.WakeAt(); ok {
			if best < 0 || at < best {
				best = at
			}
		}
	}
	if best < 0 {
		return false
	}
	if best > x.clock {
		x.clock = best
	}
	x.fireDue()
	return true
}

// Advance moves the virtual clock forward by d, firing due timers. Called by a
// harness thread (histories) — not a scheduling point.
func Advance(d time.Duration) {
	x := cur
	if x == nil {
		panic("vsched.Advance outside execution")
	}
	x.clock += int64(d)
	x.fireDue()
}

// Sleep blocks the thread until the virtual clock has advanced by d.
func Sleep(d time.Duration) {
	x := cur
	if x == nil {
		time.Sleep(d)
		return
	}
	if d <= 0 {
		Yield("sleep0")
		return
	}
	at := x.clock + int64(d)
	Do(&Op{Kind: "sleep", Obj: d.String(),
		Enabled: func() bool { return x.clock >= at },
		WakeAt:  func() (int64, bool) { return at, true }})
}

// ---------------------------------------------------------------------------
// Manual clock for sequential histories (no execution active).

var manualOn bool
var manualOffset int64
var manualBase = time.Date(2030, 1, 1, 0, 0, 0, 0, time.UTC)

// SetManualClock switches Now() to a harness-driven clock outside executions
// and resets it to the base instant.
func SetManualClock(on bool) {
	manualOn = on
	manualOffset = 0
}

// ManualAdvance moves the manual clock.
func ManualAdvance(d time.Duration) { manualOffset += int64(d) }

// VNow is Now with manual-clock support.
func VNow() time.Time {
	if cur != nil {
		return cur.Base.Add(time.Duration(cur.clock))
	}
	if manualOn {
		return manualBase.Add(time.Duration(manualOffset))
	}
	return time.Now()
}
