// Package venum is the bookkeeping for complete cross-product enumerations:
// counting cases, distinct non-trivial cases, samples, violations (first per
// key with its replayable case id) and panic capture.
package venum

import (
	"encoding/json"
	"fmt"
	"runtime"
	"strings"
	"time"

	"github.com/refraction-networking/conjure/pkg/zzverif/vh"
)

type E struct {
	Out      *vh.Out
	nt       map[uint64]struct{} // 64-bit hashes of the distinct non-trivial case keys (capped, see Nontrivial)
	first    map[string]bool
	start    time.Time
	deadline time.Time
	MaxSamp  int
	Stopped  bool
	only     string // replay: canonical JSON of the recorded case; every other violation is ignored
}

func canon(v any) string {
	b, err := json.Marshal(v)
	if err != nil {
		return ""
	}
	var x any
	if json.Unmarshal(b, &x) != nil {
		return ""
	}
	b, _ = json.Marshal(x)
	return string(b)
}

// New starts an enumeration. With -replay the enumeration runs unsharded and only a violation whose
// replay record equals the recorded one is reported (the recorded case is identified by its record,
// whatever shape the harness gave it).
func New(name string, a *vh.Args) *E {
	if a.Replay != "" {
		a.ShardI, a.ShardN = 0, 1
		e := &E{Out: &vh.Out{Name: name, Exhaustive: true, ViolCounts: map[string]int64{}, Extra: map[string]any{}}, nt: map[uint64]struct{}{}, first: map[string]bool{}, start: time.Now(), deadline: a.Deadline(), MaxSamp: 6}
		e.only = canon(vh.LoadReplay(a.Replay))
		return e
	}
	return &E{Out: &vh.Out{Name: name, Exhaustive: true, ViolCounts: map[string]int64{}, Extra: map[string]any{}}, nt: map[uint64]struct{}{}, first: map[string]bool{}, start: time.Now(), deadline: a.Deadline(), MaxSamp: 6}
}

// Case counts one evaluated case; returns false when the time budget is used up
// (the run is then reported as not exhaustive).
func (e *E) Case() bool {
	e.Out.Evaluations++
	if e.Out.Evaluations%1024 == 0 && time.Now().After(e.deadline) {
		if !e.Stopped {
			e.Stopped = true
			e.Out.Exhaustive = false
			e.Out.Cap = fmt.Sprintf("time budget reached after %d cases", e.Out.Evaluations)
		}
		return false
	}
	return !e.Stopped
}

// Nontrivial records a distinct non-trivial case key.
// (hashes, and at most ntCap of them: a thorough run over 10^8 cases would otherwise hold gigabytes of keys;
// beyond the cap the count is a lower bound and the evidence says so)
func (e *E) Nontrivial(key string) {
	if len(e.nt) >= ntCap {
		e.Out.Extra["distinct_nontrivial_is_lower_bound"] = true
		return
	}
	h := uint64(14695981039346656037)
	for i := 0; i < len(key); i++ {
		h = (h ^ uint64(key[i])) * 1099511628211
	}
	e.nt[h] = struct{}{}
}

const ntCap = 3 << 20

// Sample keeps a few written-out cases.
func (e *E) Sample(v any) {
	if len(e.Out.Samples) < e.MaxSamp {
		e.Out.Samples = append(e.Out.Samples, v)
	}
}

// Violation records a violation; only the first per key keeps its replay.
func (e *E) Violation(key, what string, replay any) {
	if e.only != "" && canon(replay) != e.only {
		return
	}
	e.Out.ViolCounts[key]++
	if !e.first[key] {
		e.first[key] = true
		e.Out.Violations = append(e.Out.Violations, &vh.Violation{Key: key, What: what, Replay: replay})
	}
}

// Guard runs f and converts a panic into (true, message, top frame in repo).
func Guard(f func()) (panicked bool, msg string, site string) {
	defer func() {
		if r := recover(); r != nil {
			panicked = true
			msg = fmt.Sprint(r)
			site = PanicSite()
		}
	}()
	f()
	return
}

// PanicSite returns the innermost conjure (non-harness) frame of the current
// panic as "file.go:func".
func PanicSite() string {
	pcs := make([]uintptr, 64)
	n := runtime.Callers(3, pcs)
	fr := runtime.CallersFrames(pcs[:n])
	for {
		f, more := fr.Next()
		if strings.Contains(f.Function, "refraction-networking/conjure") && !strings.Contains(f.Function, "zzverif") && !strings.Contains(f.Function, "Verif") && !strings.Contains(f.File, "zz_verif") {
			fn := f.Function[strings.LastIndex(f.Function, "/")+1:]
			return fn
		}
		if !more {
			break
		}
	}
	return "unknown"
}

// Finish finalises counters and emits.
func (e *E) Finish() {
	e.Out.Nontrivial = int64(len(e.nt))
	e.Out.WallS = time.Since(e.start).Seconds()
	vh.Emit(e.Out)
}
