#!/bin/sh
# runthorough.sh [ids...]: thorough tier of the given checks (default all), one after the other; log in .work/thorough.log
cd /verif
IDS=${@:-C13 C14 C17 C19 C20 C06 C15 C10 C01 C07 C11 C12 C02 C08 C18 C03 C04 C05 C09 C16}
for id in $IDS; do
  echo "=== $id $(date +%H:%M:%S)" >> .work/thorough.log
  ./vcheck $id --tier thorough 2>&1 | grep -E "VIOLATION|KNOWN|HARNESS|key=|thorough:" | cut -c1-400 >> .work/thorough.log
  # restore the quick evidence as the committed per-change record
done
echo "=== done $(date +%H:%M:%S)" >> .work/thorough.log
