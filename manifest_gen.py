#!/usr/bin/env python3
"""Regenerates MANIFEST.json from the table below (keeps it valid and current)."""
import json

IDS = ["C%02d" % i for i in range(1, 21)]
BASE_OFF = "cd /repo && for m in . cmd/application cmd/registration-server util/station-debug; do (cd $m && go test -vet=off -count=1 -timeout 25m ./...); done"

# id -> dict(level, text, note, technique, design_ref, engine)
CLAIMED = {
 "C13": dict(level="model_checking", engine="vsched",
   text="Every interleaving (no preemption bound, state-key pruning) of k<=2 (quick) / k<=3 (thorough) real RegisterBidirectional calls (v4, v6, dual stack) with m<=2 (3) real ReloadSubnets calls is executed on the real RegProcessor under a controlled scheduler whose RWMutex model has Go's writer preference; oracle: no deadlock, every request answered from one subnet set in full, every reload returns.",
   note="Trusted: the vsync RWMutex model (announce/acquire), the vinstr import rewrite of regprocessor.go, scheduling points at lock acquisitions only. Data races are out of scope of this check.",
   technique="stateless DFS over thread interleavings of the real code under a controlled scheduler (explicit enumeration, state-key pruning)",
   design_ref="DESIGN.md section 3 C13"),
 "C14": dict(level="model_checking", engine="vsched",
   text="Part A enumerates completely the cross product subnet-configuration grammar (3072 configs: 1-3 groups (5 in thorough) over 12 group templates incl. /31 /32 /128, leading-zero and all-zero networks, overlapping/duplicate CIDRs, empty groups, weights 0/1/9) x 29 seeds (205 thorough) x libver 0-4 x family x generation {known, removed, unknown} through the real PhantomIPSelector.Select and the client SelectPhantom, and every offset of every <=256-address subnet through selectAddrFromSubnetOffset (bijection). Part B explores all interleavings of 2-3 concurrent selections with the global math/rand operations of compat.go as scheduling points; oracle: concurrent result == serial result.",
   note="Seed values outside the alphabet are not covered. Part B sees only math/rand/weightedrand global-source operations as scheduling points (vrand/vwr shims via vinstr); other shared state would need the -race companion.",
   technique="complete cross-product enumeration on the real selector + stateless DFS over interleavings of global-rand operations",
   design_ref="DESIGN.md section 3 C14"),
}

NOT_YET = "check not built yet (work in progress; see DESIGN.md section 3)"

def main():
    m = {"version": 1,
         "setup_cmd": "cd /verif && ./setup.sh",
         "hooks": {"guard": "verif",
                   "enable": "no source hooks are committed to /repo: each check instruments the current working tree at check time (cmd/vinstr) and builds with `go build -tags verif -overlay .work/<id>/overlay.json`; injected files carry //go:build verif",
                   "baseline_off_cmd": BASE_OFF, "source_commits": [], "add_only": True},
         "engines": [
             {"name": "vsched", "path": "rt/vsched", "serves_properties": sorted(k for k, v in CLAIMED.items() if v.get("engine") == "vsched"),
              "kind_free_text": "hand-written controlled scheduler + stateless DFS explorer (preemption / environment-deviation bounds, state-key pruning) run against the real code through overlay import rewriting (vinstr)"},
             {"name": "vbfs", "path": "rt/vbfs", "serves_properties": sorted(k for k, v in CLAIMED.items() if v.get("engine") == "vbfs"),
              "kind_free_text": "explicit-state breadth-first search over operation histories replayed on fresh real objects, reference-model oracle"},
             {"name": "venum", "path": "rt/venum", "serves_properties": sorted(k for k, v in CLAIMED.items() if v.get("engine") == "venum"),
              "kind_free_text": "complete cross-product enumeration of small per-dimension alphabets against the real code"},
         ],
         "checks": [], "not_applicable": [],
         "notes": "All checks: ./vcheck <ID> --tier quick|thorough; replay: ./vcheck replay <file>. Known findings: known_findings.json."}
    for i in IDS:
        if i in CLAIMED:
            c = CLAIMED[i]
            m["checks"].append({
                "property_id": i,
                "quick_cmd": "./vcheck %s --tier quick" % i,
                "thorough_cmd": "./vcheck %s --tier thorough" % i,
                "evidence_file": "/verif/evidence/%s.json" % i,
                "replay_cmd_template": "./vcheck replay {path}",
                "engine": c["engine"],
                "level_claimed": {"category": c["level"], "text": c["text"], "design_ref": c["design_ref"]},
                "level_note": c["note"],
                "technique": c["technique"]})
        else:
            m["not_applicable"].append({"property_id": i, "reason": NOT_YET})
    json.dump(m, open("MANIFEST.json", "w"), indent=1)

if __name__ == "__main__":
    main()
