#!/usr/bin/env python3
"""Regenerates MANIFEST.json from the table below (keeps it valid and current)."""
import json

IDS = ["C%02d" % i for i in range(1, 21)]
BASE_OFF = "cd /repo && for m in . cmd/application cmd/registration-server util/station-debug; do (cd $m && go test -vet=off -count=1 -timeout 25m ./...); done"

CLAIMED = json.load(open(__import__("os").path.join(__import__("os").path.dirname(__import__("os").path.abspath(__file__)), "claims.json")))

NOT_YET = "check not built yet (work in progress; see DESIGN.md section 3)"

def main():
    m = {"version": 1,
         "setup_cmd": "cd /verif && ./setup.sh",
         "hooks": {"guard": "verif",
                   "enable": "no source hooks are committed to /repo: each check instruments the current working tree at check time (cmd/vinstr) and builds with `go build -tags verif -overlay .work/<id>/overlay.json`; injected files carry //go:build verif",
                   "baseline_off_cmd": BASE_OFF, "source_commits": [], "add_only": True},
         "engines": [
             {"name": "vsched", "path": "rt/vsched", "serves_properties": sorted(k for k, v in CLAIMED.items() if v.get("engine") == "vsched"),
              "kind_free_text": "hand-written controlled scheduler + stateless DFS explorer (preemption-, delay- and environment-deviation bounds, state-key pruning, symmetry reduction, virtual clock) run against the real code through overlay import rewriting (vinstr); C18 and C02/C03/C04/C17 use it as well for their concurrent scenarios / the virtual clock"},
             {"name": "vbfs", "path": "rt/vbfs", "serves_properties": sorted(k for k, v in CLAIMED.items() if v.get("engine") == "vbfs"),
              "kind_free_text": "explicit-state breadth-first search over operation histories replayed on fresh real objects, reference-model oracle"},
             {"name": "venum", "path": "rt/venum", "serves_properties": sorted(k for k, v in CLAIMED.items() if v.get("engine") == "venum"),
              "kind_free_text": "complete cross-product enumeration of small per-dimension alphabets against the real code"},
             {"name": "strace-faults", "path": "checks/c20.py", "serves_properties": sorted(k for k, v in CLAIMED.items() if v.get("engine") == "strace"),
              "kind_free_text": "enumeration of every file-related syscall of a store history of the real client asset store run under strace, with SIGKILL, errno and file-size-limit injection at each one, followed by recovery in a fresh process"},
         ],
         "checks": [], "not_applicable": [],
         "notes": "All checks: ./vcheck <ID> --tier quick|thorough; replay: ./vcheck replay <file> (implemented for every check). Known findings: known_findings.json (status known = suppressed by exact or prefix key, status fixed = history only). Race-detector companions of C05 C09 C13 C14 C16 C18 are adjunct runs (coverage.adjunct_runs), not deciding steps. Seeded property-breaking changes: seeded/<id>-n, regression ./seedall.sh. Last thorough-tier evidence: evidence/thorough/<id>.json."}
    for i in IDS:
        if i in CLAIMED:
            c = CLAIMED[i]
            m["checks"].append({
                "property_id": i,
                "quick_cmd": "./vcheck %s --tier quick" % i,
                "thorough_cmd": "./vcheck %s --tier thorough" % i,
                "evidence_file": "/verif/evidence/%s.json" % i,
                "replay_cmd_template": "./vcheck replay {path}",
                "engine": c["engine"],
                "level_claimed": {"category": c["level"], "text": c["text"], "design_ref": c["design_ref"]},
                "level_note": c["note"],
                "technique": c["technique"]})
        else:
            m["not_applicable"].append({"property_id": i, "reason": NOT_YET})
    json.dump(m, open("MANIFEST.json", "w"), indent=1)

if __name__ == "__main__":
    main()
