#!/bin/sh
# runs every claimed check's quick tier and prints one line each
cd /verif
for c in $(python3 -c "import json;print(' '.join(x['property_id'] for x in json.load(open('MANIFEST.json'))['checks']))"); do
  ./vcheck $c --tier ${1:-quick} 2>&1 | grep -E "VIOLATION|HARNESS|quick:|thorough:" | cut -c1-220
done
