#!/bin/sh
# basetest.sh: run the repository's own test suite (every module of /repo, guard off) and compare with the pinned
# stable-pass list in /root/.vp/BASELINE.json. Prints the stable tests that did not pass.
export GOPROXY=off GOSUMDB=off GOTOOLCHAIN=local
OUT=/verif/.work/basetest.json; : > $OUT
for m in . cmd/application $(cd /repo && find . -name go.mod -not -path "./go.mod" -not -path "./cmd/application/*" | xargs -n1 dirname 2>/dev/null); do
  (cd /repo/$m && go test -json -vet=off -count=1 -timeout 25m ./... >> $OUT 2>/dev/null)
done
python3 - <<'PY'
import json
st = set(json.load(open('/root/.vp/BASELINE.json'))['stable_pass'])
res = {}
for l in open('/verif/.work/basetest.json'):
    try: e = json.loads(l)
    except Exception: continue
    if e.get('Test') and e.get('Action') in ('pass', 'fail', 'skip'):
        res[e['Package'] + '::' + e['Test']] = e['Action']
bad = sorted(t for t in st if res.get(t) != 'pass')
print("stable tests: %d, passed now: %d" % (len(st), len(st) - len(bad)))
for t in bad: print("NOT PASSING:", t, res.get(t))
PY
