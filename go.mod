module verif

go 1.22
