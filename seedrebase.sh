#!/bin/sh
# seedrebase.sh <SID>: move the scratch worktree /tmp/seed/<SID>/repo to the current /repo HEAD and re-apply its patch
SID=$1; D=/tmp/seed/$SID
git -C $D/repo checkout -q -- . && git -C $D/repo checkout -q --detach $(git -C /repo rev-parse HEAD) && git -C $D/repo apply $D/patch.diff && echo "$SID rebased onto $(git -C /repo log --format=%h -1)" || echo "$SID: PATCH DOES NOT APPLY to HEAD"
