#!/usr/bin/env python3
"""Regenerates the machine-derived tables of DESIGN.md (between <!-- BEGIN:x --> / <!-- END:x --> markers)
from known_findings.json, seeded/*/meta.json, claims.json and evidence/*.json."""
import json, glob, re, os
V = '/verif'
kf = json.load(open(V + '/known_findings.json'))['findings']


def esc(s):
    return s.replace('|', '\\|').replace('\n', ' ')


def fixed():
    out = ['| property | commit | violation key reported by the check | what failed on the real code |', '|---|---|---|---|']
    for e in kf:
        if e['status'] == 'fixed':
            out.append('| %s | `%s` | `%s` | %s |' % (e['property'], e.get('commit', ''), esc(e['key']), esc(e['what'])))
    return '\n'.join(out)


def known():
    out = ['| property | key (suppressed, exact or prefix) | what fails |', '|---|---|---|']
    for e in kf:
        if e['status'] == 'known':
            out.append('| %s | `%s` | %s |' % (e['property'], esc(e['key']), esc(e['what'])))
    return '\n'.join(out)


def seeded():
    out = ['| seeded change | what it does | outcome |', '|---|---|---|']
    for f in sorted(glob.glob(V + '/seeded/*/meta.json')):
        m = json.load(open(f))
        s = m['summary']
        if len(s) > 330:
            s = s[:330].rsplit(' ', 1)[0] + ' ...'
        out.append('| %s | %s | %s |' % (f.split('/')[-2], esc(s), esc(m['caught_by'])))
    return '\n'.join(out)


def built():
    claims = json.load(open(V + '/claims.json'))
    out = ['| id | level | deciding technique | quick tier on the unchanged tree (last committed evidence) |', '|---|---|---|---|']
    for i in sorted(claims):
        c = claims[i]
        ev = V + '/evidence/%s.json' % i
        q = ''
        if os.path.exists(ev):
            d = json.load(open(ev))
            cov = d['coverage']
            q = '%s: %s evaluations, %s states, %s transitions, exhaustive=%s, %.0f s' % (d['tier'], cov['evaluations'], cov.get('states', '-'), cov.get('transitions', '-'), cov['exhaustive'], d['wall_s'])
        out.append('| %s | %s | %s | %s |' % (i, c['level'], esc(c['technique']), q))
    return '\n'.join(out)


gens = {'fixed': fixed, 'known': known, 'seeded': seeded, 'built': built}
p = V + '/DESIGN.md'
s = open(p).read()
for k, f in gens.items():
    pat = re.compile(r'(<!-- BEGIN:%s -->\n).*?(<!-- END:%s -->)' % (k, k), re.S)
    if not pat.search(s):
        print('marker missing:', k)
        continue
    s = pat.sub(lambda m: m.group(1) + f() + '\n' + m.group(2), s)
open(p, 'w').write(s)
print('tables regenerated')
