"""C05 - the proxy relays byte streams faithfully and always tears both sides down."""
import sys
import vlib

PID = "C05"
REWRITES = [("pkg/station/lib/proxies.go", ["-swap", "time=vtime", "-swap", "sync=vsync", "-swap", "net=vnet", "-go", "-chan"])]
INJECTS = [("harness/libacc/lib_verif.go", "pkg/station/lib/zz_verif_acc.go"),
           ("harness/c05/main/main.go", "internal/zzverif_c05/main.go")]
ASSUME = ["threads: the caller, both halfPipes and the asynchronous closers (go statements rewritten to controlled threads); scheduling points: every Read (blocking modelled), Write, modelled WaitGroup.Wait, thread spawn; I/O faults are environment deviations chosen per call (cost 1 each)",
          "scripted connections: Read returns at most one scripted chunk; a Read blocked on a connection that another thread closes returns net.ErrClosed, as the runtime poller does; virtual clock for the 30 s / 2 min relay deadlines",
          "data races are outside the scheduler's view: covered by the free-running companion under the Go race detector (adjunct_runs)"]
UPS = ["", "7", "7,1", "1,7,32768", "32769", "7!"]
DOWNS = ["", "5", "5,3", "5!"]


def build():
    return vlib.build("c05", REWRITES, INJECTS, "./internal/zzverif_c05")


def run(tier, seed, t0):
    w = build()
    budget = 1200 if tier == "thorough" else 150
    scen = []
    for u in UPS:
        for d in DOWNS:
            if u.endswith("!") and d.endswith("!"):
                continue  # nobody ever ends: only faults end it
            scen.append("%s|%s|d1p1" % (u, d))
    # pairs of faults and deeper preemption on the smaller scripts
    for u, d in [("7", "5"), ("7,1", "5"), ("7", ""), ("", "5"), ("7!", "5"), ("7", "5!")]:
        scen.append("%s|%s|d2p1" % (u, d))
        scen.append("%s|%s|d1p2" % (u, d))
    if tier == "thorough":
        for u in UPS:
            for d in DOWNS:
                if u.endswith("!") and d.endswith("!"):
                    continue
                scen.append("%s|%s|d2p2" % (u, d))
        scen.append("7|5|d3p1")
        scen.append("7|5|d1p3")
    res = vlib.run_workers(w, [["-scenario", s, "-tier", tier, "-budget", str(budget)] for s in scen], timeout=budget + 180)
    # adjunct: two real tunnels at once, free-running under the Go race detector (unsynchronised accesses are invisible
    # to a cooperative scheduler)
    res += vlib.race_pass("c05race", INJECTS, "./internal/zzverif_c05", ["race"], budget=240 if tier == "thorough" else 24, rewrites=REWRITES)
    vlib.finish(PID, tier, "model_checking", res, t0, ASSUME,
                "stateless DFS over all executions of the real Proxy on scripted client/covert connections with at most d environment deviations (I/O fault kinds: Read {EOF, data+EOF, ECONNRESET, data+ECONNRESET, timeout, data+timeout}, Write {short by 1, 0 bytes, EPIPE, timeout, ECONNRESET}, Close {EIO, timeout}, SetDeadline {EINVAL}, Dial {ECONNREFUSED, ENETUNREACH}; every call position) and at most p preemptions, per chunking script (scenario = up chunks|down chunks|bounds; '!' = that side never sends EOF); oracle per execution: per direction writes == data reads in order up to the first failed write (including data returned together with an error), both connections closed at return, every thread finishes, reported byte counts == delivered, session gauge restored",
                seed=seed)


def replay(path):
    w = build()
    out = vlib.run_worker(w, ["-replay", path], 300)
    if "error" in out:
        raise vlib.HarnessError(out["error"])
    print(out.get("stderr", ""))
    if out["results"][0].get("violations"):
        print("VIOLATION property=%s replay=%s" % (PID, path))
        sys.exit(1)
    print("replay: no violation")
    sys.exit(0)
