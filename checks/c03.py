"""C03 - unauthenticated connections get no bytes and no early close."""
import sys
import vlib
from checks import appcommon

PID = "C03"
ASSUME = ["virtual clock: conns.go's time and math/rand imports are redirected (vtime, vrand); the client is a scripted connection whose Read blocks until the next segment, the deadline or a close; return of handleNewTCPConn == close (its caller closes on return)",
          "kernel TCP behaviour (ACK pacing, RST on close with unread data) and a peer that sends FIN are outside the check",
          "inputs carrying material derived from a secret registered on the probed phantom (bit-flipped genuine flights) may reach the documented non-draining sleep path; the check records which inputs do and requires that no other input does"]


def flights_dir(fresh):
    """genuine client flights are freshly randomised by the real client code: all shards of one run share one set"""
    import os
    import shutil
    d = os.path.join(vlib.WORK, "c03", "flights")
    if fresh:
        shutil.rmtree(d, ignore_errors=True)
    os.makedirs(d, exist_ok=True)
    return d


def run(tier, seed, t0):
    w = appcommon.build()
    budget = 900 if tier == "thorough" else 150
    n = 16
    args = [["-tier", tier, "-budget", str(budget), "-seed", str(seed), "-shard", str(i), "-shards", str(n)] for i in range(n)]
    res = vlib.run_workers(w, args, timeout=budget + 180, env={"VERIF_WORKER": "c03", "VERIF_FLIGHTS": flights_dir(True)})
    vlib.finish(PID, tier, "exploration", res, t0, ASSUME,
                "complete cross product probe streams (empty; noise of every threshold length up to 16 KiB; every static prefix + noise to MinLen-1/MinLen/MinLen+1; TLS/HTTP/SSH look-alikes; genuine flights registered on another phantom; genuine flights with one bit flipped per structural region or truncated) x segmentations (whole; every 1-cut and 2-cut over the threshold set and +-1; byte-at-a-time) x inter-segment delays {0, 1 s, 4.9 s} x registry {none, unvalidated only, one valid per transport, three mixed} x deadline draw {0, 4999} through the real handleNewTCPConn; non-trivial = distinct (registry, stream, segmentation)",
                seed=seed)


def replay(path):
    w = appcommon.build()
    out = vlib.run_worker(w, ["-replay", path], 300, env={"VERIF_WORKER": "c03"})
    if "error" in out:
        raise vlib.HarnessError(out["error"])
    vs = out["results"][0].get("violations") or []
    for v in vs:
        print("  key=%s: %s" % (v["key"], v["what"][:400]))
    if vs:
        print("VIOLATION property=%s replay=%s" % (PID, path))
        sys.exit(1)
    print("replay: no violation")
    sys.exit(0)
