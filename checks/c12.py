"""C12 - what the registrar tells the client is what it tells the stations."""
import sys
import vlib

PID = "C12"
REWRITES = [("pkg/regserver/regprocessor/regprocessor.go", ["-swap", "crypto/rand=vcrand", "-swap", "math/rand=vrand"]),
            ("pkg/regserver/overrides/prefix_transport.go", ["-swap", "crypto/rand=vcrand"]),
            ("pkg/transports/wrapping/prefix/client.go", ["-swap", "crypto/rand=vcrand"])]
INJECTS = [("harness/libacc/lib_verif.go", "pkg/station/lib/zz_verif_acc.go"),
           ("harness/c12/regprocessor_verif.go", "pkg/regserver/regprocessor/zz_verif_c12.go"),
           ("harness/c12/main/main.go", "internal/zzverif_c12/main.go")]
ASSUME = ["every random draw (crypto/rand.Int in regprocessor.go, overrides/prefix_transport.go and prefix/client.go; math/rand.Float64) is an environment choice over classes {0, max-1, each configured threshold -1/+0, each cumulative-weight boundary -/+ eps}; all class combinations per request are enumerated",
          "override sets use prefixes known to the station's default set; the station does not verify the registrar signature (TODO in zmq_proxy.go) - the check verifies that the registrar signs exactly the response it returned",
          "min, obfs4 and prefix requests (DTLS bidirectional registration is not enumerated)"]


def build():
    return vlib.build("c12", REWRITES, INJECTS, "./internal/zzverif_c12")


def run(tier, seed, t0):
    w = build()
    budget = 900 if tier == "thorough" else 150
    n = 16
    args = [["-tier", tier, "-budget", str(budget), "-shard", str(i), "-shards", str(n)] for i in range(n)]
    res = vlib.run_workers(w, args, timeout=budget + 120)
    vlib.finish(PID, tier, "exploration", res, t0, ASSUME,
                "complete cross product requests (transport/params x (v4,v6) x DisableRegistrarOverrides x forged response fields x generation with/without port randomisation) x registrar configurations (authenticated, override sets none/Rand/Fixed/file, enforceSubnetOverrides with 0/1/3 weighted subnets per transport incl. weight 0, exclusions, percentages 0/50/100/150) x all classes of every random draw; each through the real RegisterBidirectional, forwarded bytes into a real station parseRegMessage; non-trivial = request answered",
                seed=seed)


def replay(path):
    vlib.replay_enum(PID, build(), path, env=None)
