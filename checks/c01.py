"""C01 - client and station derive the same phantom, port and transport secrets."""
import json
import os
import sys
import vlib

PID = "C01"
REWRITES = [("pkg/core/keys.go", ["-swap", "crypto/rand=vcrand"])]
INJECTS = [("harness/libacc/lib_verif.go", "pkg/station/lib/zz_verif_acc.go"),
           ("harness/c01/obfs4_verif.go", "pkg/transports/wrapping/obfs4/zz_verif_c01.go"),
           ("harness/c01/dtls_verif.go", "pkg/dtls/zz_verif_c01.go"),
           ("harness/c01/main/main.go", "internal/zzverif_c01/main.go")]
GOLDEN = os.path.join(vlib.VERIF, "golden", "c01.json")
ASSUME = ["golden digests (golden/c01.json) were generated from the pinned base commit 503fe21 (before any fix: commit) and stand for 'the published algorithm'; if that tree already deviated from deployed clients nothing here can know",
          "client library versions < 4 are represented by the in-repo compat code (phantom selection) and by the documented 104-byte HKDF skip rule; clients < 3 always dial 443; the dialer-level rule '443 unless the subnet allows randomisation' is applied by the harness as the client library does",
          "secret alphabet: all-zero, all-ones, counting bytes, fixed derived secrets, plus VERIF_SEED-derived secrets produced by the real GenerateClientSharedKeys over a deterministic entropy stream (those are compared station/client/reference only, not with golden)",
          "prefix id Rand (-1) is not enumerated (it resolves to a concrete id before registration)"]


def build():
    return vlib.build("c01", REWRITES, INJECTS, "./internal/zzverif_c01")


def run(tier, seed, t0):
    w = build()
    budget = 1200 if tier == "thorough" else 150
    n = 16
    args = [["-scenario", "derive", "-tier", tier, "-budget", str(budget), "-seed", str(seed), "-shard", str(i), "-shards", str(n)] for i in range(n)]
    res = vlib.run_workers(w, args, timeout=budget + 120, env={"VERIF_GOLDEN": GOLDEN, "VERIF_REPO": vlib.REPO})
    vlib.finish(PID, tier, "exploration", res, t0, ASSUME,
                "complete cross product secrets x libver 0-4 x family x subnet-configuration grammar (1-5 weighted groups over /16../32 and /64../128 CIDRs, equal and unequal weights, with and without port randomisation, plus every generation of the two checked-in subnet files) x transport/params (min, obfs4, prefix ids 0-10 x randomise x flush policy, DTLS; absent params); three views per case: real station ingest (NewRegistrationC2SWrapper), real client code (SelectPhantom / compat v0,v1, ClientTransport PrepareKeys/GetDstPort/WrapConn), and pinned golden digest + independent re-implementation; non-trivial = both sides derived a phantom",
                seed=seed)


def gen():
    """Regenerate golden/c01.json from the tree at $VERIF_REPO (use a scratch worktree of the base commit)."""
    w = build()
    n = 16
    merged = {}
    import subprocess
    for i in range(n):
        e = vlib.goenv()
        e.update({"VERIF_C01_GEN": "1", "VERIF_REPO": vlib.REPO, "VERIF_WORK": os.path.join(vlib.WORK, "c01")})
        p = subprocess.run([w, "-scenario", "derive", "-tier", "thorough", "-budget", "3000", "-shard", str(i), "-shards", str(n)], env=e, stdout=subprocess.PIPE, text=True)
        for line in p.stdout.splitlines():
            if line.startswith("GOLDEN "):
                merged.update(json.loads(line[7:]))
    os.makedirs(os.path.dirname(GOLDEN), exist_ok=True)
    json.dump(merged, open(GOLDEN, "w"), indent=0, sort_keys=True)
    print("golden blocks:", len(merged))


def replay(path):
    vlib.replay_enum(PID, build(), path, env={"VERIF_GOLDEN": GOLDEN, "VERIF_REPO": vlib.REPO})


if __name__ == "__main__":
    gen()
