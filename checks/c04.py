"""C04 - valid client flights are recognised under any TCP segmentation, data intact."""
import sys
import vlib
from checks import appcommon

PID = "C04"
ASSUME = ["the client is the real client transport code running as a controlled thread over an in-memory link that re-segments its byte stream at the enumerated cut positions; the covert is an echoing scripted connection behind the relay's Dial seam; executions use the default schedule only (schedules of the relay are C05)",
          "obfs4 first flights carry random padding (upstream randomness is not owned): cut positions for obfs4 are a fixed grid (structural boundaries, every 64th byte), and 2-cuts are thinned; min/prefix get every 1-cut and (thorough) every 2-cut of flight + up to 64 early-data bytes",
          "flush policies of the prefix client only choose where the client flushes; the link re-segments the stream, so they are not a separate dimension"]


def run(tier, seed, t0):
    w = appcommon.build()
    budget = 1500 if tier == "thorough" else 200
    n = 16
    args = [["-tier", tier, "-budget", str(budget), "-seed", str(seed), "-shard", str(i), "-shards", str(n)] for i in range(n)]
    res = vlib.run_workers(w, args, timeout=budget + 180, env={"VERIF_WORKER": "c04"})
    vlib.finish(PID, tier, "exploration", res, t0, ASSUME,
                "transport {min, prefix ids 0-9, obfs4} x co-resident registrations {none, one of the same transport, three mixed} x early-data size {0, 1, 4095/4096/4097 - |flight|, 65536} x every 1-cut and 2-cut segmentation (quick: every 5th 2-cut) of flight + early data, with and without delays, each through the real handleNewTCPConn and real Proxy to an echoing covert; oracle: covert stream == bytes the client sent after the handshake material, echo == same, this client's registration matched and marked used, classification deadline cleared, everything terminates; non-trivial = flight recognised",
                seed=seed)


def replay(path):
    w = appcommon.build()
    import json
    tier = json.load(open(path)).get("tier", "quick")  # the enumeration (strides, pacing pattern) depends on the tier
    out = vlib.run_worker(w, ["-replay", path, "-tier", tier], 900, env={"VERIF_WORKER": "c04"})
    if "error" in out:
        raise vlib.HarnessError(out["error"])
    r = out["results"][0]
    vs = r.get("violations") or []
    for v in vs:
        print("  key=%s: %s" % (v["key"], v["what"][:400]))
    if r.get("evaluations", 0) < 1:
        raise vlib.HarnessError("replay: the recorded case was not found in the enumeration (%d cases ran)" % r.get("evaluations", 0))
    if vs:
        print("VIOLATION property=%s replay=%s" % (PID, path))
        sys.exit(1)
    print("replay: no violation")
    sys.exit(0)
