"""C09 - concurrent ingest, lookup, activation and expiry behave like some serial order."""
import sys
import vlib

PID = "C09"
SW = ["-swap", "sync=vsync", "-swap", "time=vtime", "-swap", "net=vnet", "-swap", "context=vctx", "-swap", "net/http=vhttp", "-go", "-chan", "-rangechan", "regChan"]
REWRITES = [("pkg/station/lib/registration.go", SW + ["-maprange", "r.decoysTimeouts"]), ("pkg/station/lib/registration_ingest.go", SW), ("pkg/station/lib/registration_config.go", SW)]
INJECTS = [("harness/libacc/lib_verif.go", "pkg/station/lib/zz_verif_acc.go"),
           ("harness/c09/lib_verif_c09.go", "pkg/station/lib/zz_verif_c09.go"),
           ("harness/c09/main/main.go", "internal/zzverif_c09/main.go"),
           ("harness/c09/main/log.go", "internal/zzverif_c09/log.go")]
ASSUME = ["scheduling points: every lock acquisition (RWMutex with writer preference), channel operation and select, thread spawn, the liveness probe and the resolver (that is where real workers spend their time); releases are not points (except in the S8 scenarios, where every Unlock / RUnlock is one as well); stats counters use atomics and are not points",
          "serial differential oracle: the set of outcomes (announcement multiset with the covert at announcement time, final registry incl. validity / duplicate count / covert / used flag, every lookup's answer) of all serial orders of the same thread bodies is the specification; every concurrent outcome must be a member",
          "unsynchronised accesses are invisible to the cooperative scheduler: the clause 'never accessed without synchronisation' is covered by a free-running companion run of the same operations on the unmodified code under the Go race detector (adjunct_runs in the coverage; a sample of schedules, every report is a violation)"]
S15 = ["S1:same-registration-twice+connection", "S2:same-secret-different-covert", "S2b:unresolved-name-vs-literal", "S3:worker+sweeper+connection@9m59s", "S3:worker+sweeper+connection@10m1s", "S3c:two-workers+lifetime-passes+sweeper", "S8:lookup-all+second-transport@release-points", "S8:lookup-all+sweeper@release-points", "S8:worker+connection@release-points", "S3b:sweeper+connection@three-expired,activate=1", "S3b:sweeper+connection@three-expired,activate=2", "S3b:sweeper+connection@three-expired,activate=3", "S4:worker+reload+lookup", "S5:three-workers+sweeper"]
def scripts(m, after):
    """all orderings of m arrivals, one probe-release and one stop, followed by `after` arrivals after the stop"""
    import itertools
    base = "f" * m + "rs"
    return sorted(set("".join(p) for p in itertools.permutations(base))), after


def s6(workers, m, after):
    ss, after = scripts(m, after)
    return ["S6:workers=%d;script=%s" % (workers, x + "f" * after) for x in ss]


S6Q = s6(1, 0, 0) + s6(1, 1, 1) + s6(1, 2, 1) + s6(2, 1, 0) + s6(2, 2, 1) + s6(3, 2, 0)
S6T = s6(10, 1, 1) + s6(2, 3, 1) + s6(3, 3, 1) + s6(10, 2, 1) + s6(1, 3, 2)

def build():
    return vlib.build("c09", REWRITES, INJECTS, "./internal/zzverif_c09")


S7 = ["S7:workers=1;pending=1", "S7:workers=1;pending=3", "S7:workers=2;pending=2", "S7:workers=3;pending=4"]
RACE_INJECTS = [("harness/libacc/lib_verif.go", "pkg/station/lib/zz_verif_acc.go"), ("harness/c09/race/main.go", "internal/zzverif_c09race/main.go")]


def race_companion(tier):
    """The clause 'shared state is never accessed without synchronisation': the same operations free-running on the
    unmodified code under the Go race detector (a sample of schedules; adjunct to the exhaustive search above).
    race:noreload = ingests + sweeper + connection handlers + stats + pipeline; race:reload adds OnReload."""
    def key(sc, k, text):
        return ("data-race:during-reload:" if sc == "race:reload" else "data-race:") + k
    return vlib.race_pass("c09race", RACE_INJECTS, "./internal/zzverif_c09race", ["race:noreload", "race:reload"],
                          budget=240 if tier == "thorough" else 40, keyfn=key)


def run(tier, seed, t0):
    w = build()
    budget = 1500 if tier == "thorough" else 170
    scen = S15 + S6Q + S7 + (S6T if tier == "thorough" else [])
    res = vlib.run_workers(w, [["-scenario", s, "-tier", tier, "-budget", str(budget)] for s in scen], timeout=budget + 180)
    res += race_companion(tier)
    vlib.finish(PID, tier, "model_checking", res, t0, ASSUME,
                "stateless DFS (state-key pruning; no preemption bound for S1-S4, bound 2/3 for S5, 1 (quick) / 2-3 (thorough) for the pipeline) over interleavings of: S1 two workers ingesting the same registration + a connection handler (lookup, activate) twice; S2/S2b two workers with the same secret and transport but different covert (forbidden literal / name resolving to a forbidden address vs permitted) + connection; S3 duplicate worker + sweeper + connection around the 10 min expiry; S3b three expired registrations on the sweep list while a connection activates one of them; S8 a handler that inspects everything a lookup hands out while a second registration on the same phantom is tracked / an old one is swept, with every lock release a scheduling point as well; S3c two workers ingesting the same registration while the unused lifetime passes and the sweeper runs (new exactly once per timeout record); S4 worker + OnReload that flips the covert policy + lookup; S5 three workers + sweeper; S6 the real HandleRegUpdates with 1/2/3 (thorough: also 10, i.e. a buffered hand-off) workers, a feeder, probes blocked until released, and a stop request at any moment with and without further input; S7 the stop request issued with k registrations already queued when the distributor reaches its receive point, select resolved in favour of the stop request: the pipeline must wind down without working through the queue",
                seed=seed)


def replay(path):
    import json
    rp = json.load(open(path)).get("replay") or {}
    if rp.get("kind") == "race":
        recs = race_companion("quick")
        hit = [v for r in recs for v in r["violations"] if v["replay"]["scenario"] == rp.get("scenario")]
        if hit:
            print(hit[0]["replay"]["report"][:3000])
            print("VIOLATION property=%s replay=%s" % (PID, path))
            sys.exit(1)
        print("replay: no race reported")
        sys.exit(0)
    w = build()
    out = vlib.run_worker(w, ["-replay", path], 300)
    if "error" in out:
        raise vlib.HarnessError(out["error"])
    print(out.get("stderr", ""))
    if out["results"][0].get("violations"):
        print("VIOLATION property=%s replay=%s" % (PID, path))
        sys.exit(1)
    print("replay: no violation")
    sys.exit(0)
