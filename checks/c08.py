"""C08 - registrations expire on schedule."""
import json
import sys
import vlib

PID = "C08"
REWRITES = [("pkg/station/lib/registration.go", ["-swap", "time=vtime"]),
            ("pkg/station/lib/registration_ingest.go", ["-swap", "time=vtime"])]
INJECTS = [("harness/libacc/lib_verif.go", "pkg/station/lib/zz_verif_acc.go"),
           ("harness/c08/main/main.go", "internal/zzverif_c08/main.go")]
ASSUME = ["virtual clock: registration.go's time.Now/Since are redirected to a harness-driven clock; thresholds are approached to 1 s and crossed by 1 s, exact-equality instants are not generated",
          "expiry is defined at sweeps (advance then sweep); between deadline and next sweep the station still accepts, which the statement allows",
          "alphabet: secrets a,b x transports min,prefix(id 0) x families v4,v6 (4 of these 8 in quick, 6 in thorough); detector announcements captured by replacing the two closures"]


def build():
    return vlib.build("c08", REWRITES, INJECTS, "./internal/zzverif_c08")


def run(tier, seed, t0):
    w = build()
    budget = 1200 if tier == "thorough" else 120
    n = 17
    args = [["-scenario", "main", "-tier", tier, "-budget", str(budget), "-shard", str(i), "-shards", str(n)] for i in range(n)]
    args += [["-scenario", "small", "-tier", tier, "-budget", str(budget), "-shard", str(i), "-shards", "4"] for i in range(4)]
    res = vlib.run_workers(w, args, timeout=budget + 120)
    vlib.finish(PID, tier, "model_checking", res, t0, ASSUME,
                "breadth-first search over operation histories {track, validate, connect(lookup+MarkActive), advance 9m59s/2s/5h49m58s, sweep} on a fresh real RegistrationManager per history; after every operation the visible (matchable) set and per-phantom counts are compared with a reference map, after every sweep both internal maps must have the model's size; states deduplicated by (model state, implementation dump); sharded by first operation (states counted per shard)",
                seed=seed)


def replay(path):
    w = build()
    sc = json.load(open(path)).get("replay", {}).get("scenario", "main")
    out = vlib.run_worker(w, ["-replay", path, "-scenario", sc], 300)
    if "error" in out:
        raise vlib.HarnessError(out["error"])
    if out["results"][0].get("violations"):
        print("VIOLATION property=%s replay=%s" % (PID, path))
        print("  " + out["results"][0]["violations"][0]["what"])
        sys.exit(1)
    print("replay: no violation")
    sys.exit(0)
