"""C14 - phantom selection is a pure function that stays inside the configured subnets."""
import sys
import vlib

PID = "C14"
REWRITES = [("pkg/phantoms/compat.go", ["-swap", "math/rand=vrand", "-swap", "github.com/mroth/weightedrand=vwr"])]
INJECTS = [("harness/c14/phantoms_verif.go", "pkg/phantoms/zz_verif_c14.go"),
           ("harness/c14/main/main.go", "internal/zzverif_c14/main.go")]
ASSUME = ["seeds: empty, 1-byte, all-zero, all-ones and sha256(counter)[:16]; other seed values are outside the alphabet",
          "part B: operations on the process-global math/rand source (Seed/Read/Intn, weightedrand.Pick) are the scheduling points; all interleavings of 2-3 selectors, no preemption bound",
          "data races are outside a cooperative scheduler's view: covered by the free-running companion under the Go race detector (adjunct_runs)"]


def build():
    return vlib.build("c14", REWRITES, INJECTS, "./internal/zzverif_c14")


def run(tier, seed, t0):
    w = build()
    budget = 900 if tier == "thorough" else 120
    shards = 12
    args = [["-scenario", "A:select", "-tier", tier, "-budget", str(budget), "-shard", str(i), "-shards", str(shards)] for i in range(shards)]
    args.append(["-scenario", "A:offsets", "-tier", tier, "-budget", str(budget)])
    bs = ["B:0,0", "B:1,1", "B:0,1", "B:1,4", "B:0,4", "B:4,4", "B:1,1,4", "B:0,1,1"]
    if tier == "thorough":
        bs += ["B:0,0,0", "B:1,1,1", "B:0,1,4", "B:1,1,1,4"]
    for b in bs:
        args.append(["-scenario", b, "-tier", tier, "-budget", str(budget)])
    res = vlib.run_workers(w, args, timeout=budget + 120)
    # adjunct: concurrent selections free-running under the Go race detector (and compared with the serial answers)
    res += vlib.race_pass("c14race", INJECTS, "./internal/zzverif_c14", ["race"], budget=240 if tier == "thorough" else 24, rewrites=REWRITES)
    vlib.finish(PID, tier, "model_checking", res, t0, ASSUME,
                "part A: complete cross product subnet-config grammar x seeds x libver 0-4 x family x generation {known, removed, unknown} through the real Select and client SelectPhantom, plus every offset of every <=256-address subnet; non-trivial = a phantom was derived (distinct config/libver/family/address); part B: stateless DFS over all interleavings of concurrent selections, oracle = each result equals its serial result",
                seed=seed)


def replay(path):
    w = build()
    out = vlib.run_worker(w, ["-replay", path, "-budget", "300"], 400)
    if "error" in out:
        raise vlib.HarnessError(out["error"])
    import json
    key = json.load(open(path))["key"]
    for r in out["results"]:
        for v in r.get("violations") or []:
            if v["key"] == key:
                print("VIOLATION property=%s replay=%s" % (PID, path))
                print("  " + v["what"])
                sys.exit(1)
    print("replay: no violation")
    sys.exit(0)
