"""C10 - every detector announcement is acceptable to it and matches the registration."""
import os
import sys
import vlib

PID = "C10"
REWRITES = [("pkg/station/lib/registration.go", ["-swap", "time=vtime"]),
            ("pkg/station/lib/registration_ingest.go", ["-swap", "time=vtime"])]
INJECTS = [("harness/libacc/lib_verif.go", "pkg/station/lib/zz_verif_acc.go"),
           ("harness/c10/main/main.go", "internal/zzverif_c10/main.go")]
ASSUME = ["the detector's acceptance rules are the repository's own src/sessions.rs (non-test part, verbatim) compiled by rustc --edition 2015 against hand-written dependency stubs (rust/stubs_head.rs, rust/stubs_tail.rs): pnet protocol constants, protobuf::Message, redis, precise_time_ns, FLOW_CLIENT_LOG and a StationToDetector struct with the generated accessors' proto2 semantics (absent field = default)",
          "published bytes are captured by an in-process RESP stand-in behind the package's redis client (custom Dialer), decoded with the Go bindings of the same .proto and handed field by field to the Rust handler",
          "registrations are validated/activated through AddRegistration/MarkActive (the ingest path's announcement sites); lifetimes are compared behaviourally on a virtual clock"]


def build_detector():
    work = os.path.join(vlib.WORK, "c10")
    os.makedirs(work, exist_ok=True)
    src = open(os.path.join(vlib.REPO, "src", "sessions.rs")).read()
    cut = src.find("#[cfg(test)]")
    if cut < 0:
        cut = len(src)
    gen = os.path.join(work, "detector.rs")
    with open(gen, "w") as f:
        f.write(open(os.path.join(vlib.VERIF, "rust", "stubs_head.rs")).read() + src[:cut] + open(os.path.join(vlib.VERIF, "rust", "stubs_tail.rs")).read())
    out = os.path.join(work, "detector")
    try:
        vlib.sh(["rustc", "--edition", "2015", "-O", "-A", "warnings", "-o", out, gen], cwd=work, env=dict(os.environ))
    except vlib.HarnessError as e:
        raise vlib.HarnessError("src/sessions.rs no longer compiles against the C10 stubs (harness error, not a verdict): " + str(e)[-1500:])
    return out


def build():
    return vlib.build("c10", REWRITES, INJECTS, "./internal/zzverif_c10")


def run(tier, seed, t0):
    det = build_detector()
    w = build()
    res = vlib.run_workers(w, [["-tier", tier, "-budget", "300"]], timeout=600, env={"VERIF_DETECTOR": det})
    vlib.finish(PID, tier, "exploration", res, t0, ASSUME,
                "complete cross product transport {min, obfs4, prefix x3, dtls} x family x registrant address {absent, IPv4, v4-mapped, IPv6, 5 bytes, 0 bytes} x generation (fixed / randomised port) x registrar override {none, port, phantom+port} x 2 secrets, each admitted registration validated and activated on a real manager; every published message is handed to the real sessions.rs handler; plus the shutdown clear message on a detector holding sessions; non-trivial = admitted registration that produced announcements",
                seed=seed)


def replay(path):
    vlib.replay_enum(PID, build(), path, env={"VERIF_DETECTOR": build_detector()})
