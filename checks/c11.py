"""C11 - no externally supplied bytes can crash a station or registrar process."""
import sys
import vlib

PID = "C11"
REWRITES = [("pkg/station/lib/registration_config.go", ["-swap", "net=vnet"]),
            ("pkg/station/lib/registration_ingest.go", ["-swap", "net/http=vhttp", "-go"]),
            # the DNS responder handles every datagram in a goroutine of its own: run inline so that a panic there is seen
            ("pkg/registrars/dns-registrar/responder/responder.go", ["-go"]),
            # the connecting transport starts its dial and accept halves in goroutines: inline, same reason
            ("pkg/transports/connecting/dtls/dtls.go", ["-go"])]
INJECTS = [("harness/libacc/lib_verif.go", "pkg/station/lib/zz_verif_acc.go"),
           ("harness/c11/regprocessor_verif.go", "pkg/regserver/regprocessor/zz_verif_c11.go"),
           ("harness/c11/apiregserver_verif.go", "pkg/regserver/apiregserver/zz_verif_c11.go"),
           ("harness/c11/dnsregserver_verif.go", "pkg/regserver/dnsregserver/zz_verif_c11.go"),
           ("harness/c15/responder_verif.go", "pkg/registrars/dns-registrar/responder/zz_verif_c15.go"),
           ("harness/c11/dtlsconn_verif.go", "pkg/transports/connecting/dtls/zz_verif_c11.go"),
           ("harness/c11/main/main.go", "internal/zzverif_c11/main.go")]
ASSUME = ["small-scope statement: every input built from the per-field alphabets (a value on each side of every length and nil check read in the code) up to the stated structural bound; coverage-guided fuzzing belongs to another family and is not done",
          "each case runs under recover(); a hang shows up as a worker timeout (harness error naming the shard); the connection handler's byte-stream entry point is additionally covered by C03's stream set",
          "HTTP handlers are driven through httptest (an implicit 200 is written when a handler returns without WriteHeader, so 'no status line' can only come from a panic or hang)"]


def build():
    return vlib.build("c11", REWRITES, INJECTS, "./internal/zzverif_c11")


def run(tier, seed, t0):
    w = build()
    budget = 1200 if tier == "thorough" else 200
    args = []
    for scen, n in (("zmq", 10), ("http", 8), ("dns", 8), ("misc", 2)):
        for i in range(n):
            args.append(["-scenario", scen, "-tier", tier, "-budget", str(budget), "-shard", str(i), "-shards", str(n)])
    res = vlib.run_workers(w, args, timeout=budget + 180)
    vlib.finish(PID, tier, "exploration", res, t0, ASSUME,
                "bounded-exhaustive structural enumeration per entry point: ZMQ C2SWrapper (wrapper shapes: secret/address lengths, source, extra fields) x ClientToStation payloads (transport, generation, support flags, covert, libver, 16 TransportParams Any shapes) x RegistrationResponse shapes, plus all byte strings <= 3 over an 8-symbol alphabet and every truncation / byte corruption of valid messages, through real parseRegMessage + ingestRegistration; HTTP register and registerBidirectional x method x Content-Length x body x X-Forwarded-For x RemoteAddr x server ClientConf generation; DNS wire parser (headers x token bodies x pointer chains), TXT / length-framing / name decoders on all strings <= 4 over an 8-symbol alphabet, responder query handling and Noise payloads, DNS registration request processing; ParseParams / SetSessionParams x libver x Any shapes; the DTLS connecting transport's Connect x 100 shapes of the client-supplied source-address parameters x phantom family x libver (cancelled context, refusing DNAT: everything before the network, run inline); WrapConnection of every transport x 600 byte strings; non-trivial = input accepted by the component",
                seed=seed)


def replay(path):
    vlib.replay_enum(PID, build(), path, env=None)
