"""C19 - accepted configurations run housekeeping safely; a bad reload changes nothing."""
import sys
import vlib

PID = "C19"
REWRITES = [("pkg/station/lib/registration_config.go", ["-swap", "net=vnet"])]
INJECTS = [("harness/libacc/lib_verif.go", "pkg/station/lib/zz_verif_acc.go"),
           ("harness/c19/main/main.go", "internal/zzverif_c19/main.go")]
ASSUME = ["configuration grammar enumerated per key group (liveness keys 4x4x4x4, the four lists 6x6x6x6, misc 3x2x4x3x2x2) with the other groups fixed, plus the two shipped files verbatim; not the full cross product of all groups",
          "accepted = ParseConfig ok and liveness.New ok (NewRegistrationManager calls Fatal otherwise); stats modules are called directly (liveness tester, proxy stats, registration stats), the ZMQ and connection-manager modules are not part of this harness",
          "reload follows main()'s SIGHUP path (ParseConfig, then OnReload); expected decisions come from a fresh start with the same files (differential oracle)"]


def build():
    return vlib.build("c19", REWRITES, INJECTS, "./internal/zzverif_c19")


def run(tier, seed, t0):
    w = build()
    budget = 900 if tier == "thorough" else 150
    n = 16
    args = [["-tier", tier, "-budget", str(budget), "-shard", str(i), "-shards", str(n)] for i in range(n)]
    res = vlib.run_workers(w, args, timeout=budget + 120, env={"VERIF_REPO": vlib.REPO})
    vlib.finish(PID, tier, "fault_enumeration", res, t0, ASSUME,
                "configuration files generated from a key grammar (set / unset / zero / malformed per key) incl. the shipped app_config.toml; every accepted one: build the manager with the real constructor, run each stats module and the expiry sweep before and after traffic, check every raw list entry is enforced, and run every reload sequence (length 1 for all, 2 (3 thorough) for every 41st and the shipped file) over {valid, malformed-entry, syntax-error, unreadable} configuration x {valid, malformed, unreadable} subnet files; non-trivial = accepted configuration",
                seed=seed)


def replay(path):
    vlib.replay_enum(PID, build(), path, env={"VERIF_REPO": vlib.REPO})
