"""C16 - DTLS sessions: same secret on both ends, right acceptor, faithful byte stream."""
import sys
import vlib

PID = "C16"
REWRITES = [("pkg/dtls/heartbeat.go", ["-swap", "sync=vsync", "-swap", "sync/atomic=vatomic", "-swap", "time=vtime", "-go", "-chan"]),
            ("pkg/dtls/sctpconn.go", ["-swap", "sync=vsync", "-swap", "time=vtime", "-chan"])]
MAIN = ["main.go", "read.go", "stubs.go"]
INJECTS = [("harness/c16/dtls_verif.go", "pkg/dtls/zz_verif_acc.go")] + [("harness/c16/main/" + f, "internal/zzverif_c16/" + f) for f in MAIN]
ASSUME = []
NW = 16


def build():
    return vlib.build("c16", REWRITES, INJECTS, "./internal/zzverif_c16")


def run(tier, seed, t0):
    w = build()
    budget = 1500 if tier == "thorough" else 120
    fams = ["read:srv:13h:2:2:p1"]
    args = []
    for f in fams:
        for i in range(NW):
            args.append(["-scenario", f, "-tier", tier, "-budget", str(budget), "-shard", str(i), "-shards", str(NW)])
    res = vlib.run_workers(w, args, timeout=budget + 180)
    vlib.finish(PID, tier, "model_checking", res, t0, ASSUME, "TODO", seed=seed)


def replay(path):
    w = build()
    out = vlib.run_worker(w, ["-replay", path], 300)
    if "error" in out:
        raise vlib.HarnessError(out["error"])
    print(out.get("stderr", ""))
    if out["results"][0].get("violations"):
        print("VIOLATION property=%s replay=%s" % (PID, path))
        sys.exit(1)
    print("replay: no violation")
    sys.exit(0)
