"""C16 - DTLS sessions: same secret on both ends, right acceptor, faithful byte stream."""
import sys
import vlib

PID = "C16"
REWRITES = [("pkg/dtls/heartbeat.go", ["-swap", "sync=vsync", "-swap", "sync/atomic=vatomic", "-swap", "time=vtime", "-go", "-chan"]),
            ("pkg/dtls/sctpconn.go", ["-swap", "sync=vsync", "-swap", "time=vtime", "-swap", "github.com/pion/sctp=vsctp", "-chan"]),
            ("pkg/dtls/listener.go", ["-swap", "sync=vsync", "-swap", "time=vtime", "-swap", "context=vctx", "-swap", "github.com/pion/dtls/v2=vdtls", "-go", "-chan"])]
MAIN = ["main.go", "read.go", "hbflow.go", "route.go", "cred.go"]
INJECTS = [("harness/c16/dtls_verif.go", "pkg/dtls/zz_verif_acc.go")] + [("harness/c16/main/" + f, "internal/zzverif_c16/" + f) for f in MAIN]
ASSUME = ["byte stream (read, hbloss, flow): the real SCTPConn / heartbeat server / heartbeat client run on a scripted message stream with the method set of pion's sctp.Stream (whole-message reads, io.ErrShortBuffer when the buffer is smaller than the message, read deadlines, buffered-amount low-water callback); the modelled association's maximum message size is 4 bytes so that read sizes 1..6 cover below, at and beyond it; threads = reader/writer, recvLoop, hbLoop / sendLoop, modelled network; scheduling points = mutex, atomic, channel, timer, stream I/O; which ready select case fires is a free choice; clock is virtual",
          "a data message whose bytes equal the heartbeat payload is a heartbeat by construction of the protocol and is not part of the alphabet",
          "heartbeat timeout is read as the watchdog's documented behaviour: the connection closes at the first interval boundary with no heartbeat in the preceding interval, i.e. no later than two intervals after the last heartbeat",
          "buffered-amount bound: limit (256 KiB) plus one maximum write (128 KiB), because one low-water token can be left over from an earlier drain",
          "listener routing (route): pion's server handshake is replaced by a model (vdtls) that calls the listener's GetCertificate / VerifyConnection callbacks in pion's order with scheduling points between flights; its accept/reject behaviour is compared with the real library by the cred families (same secret pairs, forged clients); 'full' mode also replaces pion/sctp by a stand-in that hands the scripted stream to the real acceptSCTP code",
          "route uses delay-bounded scheduling (d = departures from the default thread order) instead of preemption bounding: with 6-9 short threads the number of free context switches at blocking points explodes",
          "cred families run the real pion DTLS+SCTP stack free-running over net.Pipe; they enumerate secrets, not schedules; time limits there make a run inconclusive, never a violation"]
NW = 16

# family -> number of shards
QUICK = [("read:srv:134h:2:2:p1", 16), ("read:srv:13h:3:1:p1", 8), ("read:cli:134:2:2:p2", 4), ("read:bare:134:3:2:p0", 2),
         ("hbloss:3:p1", 2),
         ("flow:bare:Mh:5:p1", 4), ("flow:bare:Mhq10X:3:p2", 16), ("flow:cli:Mh0X:3:p1", 4), ("flowmulti:bare:3:p2", 1), ("flowmulti:cli:2:p1", 1),
         ("route:core:2:2:d1", 8), ("route:core:=1/1:d3", 1), ("route:core:=1,2c/1,2:d2", 1), ("route:core:=1,1/1,1:d2", 1),
         ("route:core:=1c,1/1,f1:d2", 1), ("route:core:=1t,2/s1,2:d2", 1), ("route:core:=1,2/2,3:d2", 1),
         ("route:full:=1/1:d2", 1), ("route:full:=1,2/1,2:d1", 1), ("route:full:=1,2c/2,1:d1", 1)]
QUICK_REAL = ["cred:derive", "cred:listener", "cred:direct", "cred:many:9"]
THOROUGH = [("read:srv:134h2:3:2:p2", 16), ("read:cli:1342:3:2:p2", 16), ("read:bare:1342:4:3:p0", 16),
            ("hbloss:5:p2", 16),
            ("flow:bare:Mhq10X:5:p2", 16), ("flow:cli:Mhq0X:4:p2", 16), ("flow:bare:Mh:6:p3", 16), ("flowmulti:bare:4:p3", 1), ("flowmulti:cli:3:p2", 1),
            ("route:core:2:2:d2", 16), ("route:core:3:3:d1", 16), ("route:core:=1,2c/1,2:d3", 1), ("route:core:=1c,1/1,1:d3", 1),
            ("route:core:=1,2,1c/1,2,f1:d2", 1), ("route:full:2:2:d1", 16), ("route:full:=1,2/1,2:d2", 1), ("route:full:=1c,2/1,2:d2", 1)]
THOROUGH_REAL = ["cred:derive", "cred:listener", "cred:direct", "cred:many:4", "cred:many:9", "cred:many:16", "cred:many:32"]


def build():
    return vlib.build("c16", REWRITES, INJECTS, "./internal/zzverif_c16")


def build_real():
    """same harness, nothing rewritten: the real pion DTLS/SCTP stack (cred families only)"""
    return vlib.build("c16real", [], INJECTS, "./internal/zzverif_c16")


def run(tier, seed, t0):
    w = build()
    wr = build_real()
    budget = 500 if tier == "thorough" else 150
    fams = QUICK + (THOROUGH if tier == "thorough" else [])
    args = []
    for f, n in fams:
        for i in range(n):
            args.append(["-scenario", f, "-tier", tier, "-budget", str(budget), "-shard", str(i), "-shards", str(n)])
    res = vlib.run_workers(w, args, timeout=budget + 300)
    real = QUICK_REAL if tier == "quick" else THOROUGH_REAL
    res += vlib.run_workers(wr, [["-scenario", f, "-tier", tier] for f in real], timeout=900, jobs=4)
    # adjunct: the same real-stack families under the Go race detector; only reports that involve pkg/dtls code count
    # (pion's own goroutines are third-party code outside the property)
    def key(sc, k, text):
        return ("data-race:" + k) if "conjure/pkg/dtls." in text else None
    res += vlib.race_pass("c16real", INJECTS, "./internal/zzverif_c16", ["cred:direct", "cred:many:4"] + (["cred:listener", "cred:many:16"] if tier == "thorough" else []), budget=120, keyfn=key)
    vlib.finish(PID, tier, "model_checking", res, t0, ASSUME,
                "per family (see scenarios): read = every message sequence up to the stated depth over the size alphabet (heartbeats interleaved anywhere) x every terminal (EOF, reset, data+error, silence) x every cyclic read-size pattern over {1,2,3,4,6} x all interleavings within the preemption bound, oracle: bytes read == concatenation of the peer's data, error only after all of it, no heartbeat surfaces; hbloss = heartbeat trains (count, period, phase) x data arrival sets, oracle on the virtual clock: closed no later than 2 intervals after the last heartbeat, nothing lost before the earliest legitimate close; flow = every write-size sequence x every drain schedule of the modelled network (x close at any moment), oracle: buffered amount <= limit + one write, every write returns, accepted messages == successful writes; flowmulti = k goroutines writing a maximum message on one connection at the same moment (one already buffered), same bound; route = every multiset of acceptors {secret, cancelled at an arbitrary moment, short timeout} x clients {genuine, unregistered, forged, stalling} x all schedules within the delay bound on the real listener code, oracle: no cross delivery, nothing delivered twice, forged/unregistered never complete, registration maps empty after every accept returned, a completed handshake reaches its sole uncancelled acceptor; cred = secret alphabet squared through the real pion stack",
                seed=seed)


def replay(path):
    import json
    d = json.load(open(path))
    scen = (d.get("replay") or d).get("scenario", "")
    if scen.startswith("cred"):
        out = vlib.run_worker(build_real(), ["-scenario", scen], 900)
        if "error" in out:
            raise vlib.HarnessError(out["error"])
        if out["results"][0].get("violations"):
            print("VIOLATION property=%s replay=%s" % (PID, path))
            sys.exit(1)
        print("replay: no violation")
        sys.exit(0)
    w = build()
    out = vlib.run_worker(w, ["-replay", path], 300)
    if "error" in out:
        raise vlib.HarnessError(out["error"])
    print(out.get("stderr", ""))
    if out["results"][0].get("violations"):
        print("VIOLATION property=%s replay=%s" % (PID, path))
        sys.exit(1)
    print("replay: no violation")
    sys.exit(0)
