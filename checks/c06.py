"""C06 - the station never dials a covert address that policy forbids."""
import sys
import vlib

PID = "C06"
REWRITES = [("pkg/station/lib/registration_config.go", ["-swap", "net=vnet"]),
            ("pkg/station/lib/proxies.go", ["-swap", "net=vnet"]),
            ("pkg/station/lib/registration.go", ["-swap", "time=vtime"]),
            ("pkg/station/lib/registration_ingest.go", ["-swap", "time=vtime"])]
INJECTS = [("harness/libacc/lib_verif.go", "pkg/station/lib/zz_verif_acc.go"),
           ("harness/c06/main/main.go", "internal/zzverif_c06/main.go")]
ASSUME = ["resolver and dial are seams (vnet import rewrite of registration_config.go and proxies.go): names are answered by a per-case script, IP literals by the real net.ResolveIPAddr (which does no lookup for literals)",
          "policy is evaluated independently with net/netip from the raw configuration strings (white space trimmed); an entry that is unparsable even then cannot be evaluated and is left to C19",
          "domain patterns are matched literally (case-sensitively) as the statement says"]


def build():
    return vlib.build("c06", REWRITES, INJECTS, "./internal/zzverif_c06")


def run(tier, seed, t0):
    w = build()
    budget = 600 if tier == "thorough" else 120
    n = 12
    args = [["-tier", tier, "-budget", str(budget), "-shard", str(i), "-shards", str(n)] for i in range(n)]
    res = vlib.run_workers(w, args, timeout=budget + 120, env={"VERIF_REPO": vlib.REPO})
    vlib.finish(PID, tier, "exploration", res, t0, ASSUME,
                "complete cross product covert-string grammar (IPv4/IPv6 literals in every textual form x port forms, hostnames, garbage) x 10 policy configurations (incl. the shipped app_config.toml lists verbatim) x scripted resolver answers (permitted, blocked, error, rebinding, zone, v4-mapped); three observation points per case: ParseOrResolveBlocklisted, reg.Covert after real ingest, the string the real Proxy dials; non-trivial = the case ended in a dial",
                seed=seed)


def replay(path):
    vlib.replay_enum(PID, build(), path, env={"VERIF_REPO": vlib.REPO})
