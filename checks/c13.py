"""C13 - the registrar keeps answering while its configuration is reloaded."""
import sys
import vlib

PID = "C13"
# the unchanged file has no goroutine, channel or timer; they are rewritten all the same so that a change which
# introduces one (a lock acquisition with a timeout, say) stays inside the controlled scheduler and the virtual clock
REWRITES = [("pkg/regserver/regprocessor/regprocessor.go", ["-swap", "sync=vsync", "-swap", "time=vtime", "-swap", "context=vctx", "-go", "-chan"])]
INJECTS = [("harness/c13/regprocessor_verif.go", "pkg/regserver/regprocessor/zz_verif_c13.go"),
           ("harness/c13/main/main.go", "internal/zzverif_c13/main.go")]
QUICK = ["4/1", "6/1", "d/1", "d/2", "4,6/1", "d,4/1", "d,d/1", "d,6/2", "d,d/2", "e:6/1", "e:d/1", "e:d/2", "e:d,4/1", "e:6,d/2", "s/1", "s,4/1", "4,s/2", "load:2x3", "u/1", "p/1", "u,d/1", "p,d/2", "d/1b", "d/2b", "4,6/2g", "d,d/2b"]
THOROUGH = QUICK + ["load:3x3", "load:2x5", "s,d/2", "s,s/1", "s,4,6/1", "e:s,4/1", "s,4/1b", "d,d,d/1", "d,4,6/2", "d,d,4/2", "d,d,d/2", "d/3", "d,d/3", "e:d,d/2", "e:d,6,4/2", "e:d/3", "e:6,6/3", "u,p/2", "u,d,d/2", "p,p/3", "d/3b", "d,4,6/2b", "d,d/3g"]

ASSUME = ["sync.RWMutex modelled with Go's writer preference (announce, then acquire); Unlock/RUnlock are not scheduling points (release commutes with the releasing thread's next local steps)",
          "scheduling points only at lock acquisitions and thread spawn; unsynchronised accesses are outside this check",
          "subnet files A and B have disjoint ranges, one generation; min transport; client library version current; the e: scenarios start on a set without IPv6 subnets so that IPv6 / dual-stack requests take the error path (an error answer is then a complete outcome) and reloads alternate between that set and A"]


def build():
    return vlib.build("c13", REWRITES, INJECTS, "./internal/zzverif_c13")


def run(tier, seed, t0):
    w = build()
    scen = THOROUGH if tier == "thorough" else QUICK
    budget = 900 if tier == "thorough" else 100
    res = vlib.run_workers(w, [["-scenario", s, "-tier", tier, "-budget", str(budget)] for s in scen], timeout=budget + 120)
    # adjunct: requests next to reloads, free-running under the Go race detector (same build: outside an exploration the
    # vsync shim is the real sync package, so the detector sees the real locking)
    res += vlib.race_pass("c13race", INJECTS, "./internal/zzverif_c13", ["race"], budget=240 if tier == "thorough" else 24, rewrites=REWRITES)
    vlib.finish(PID, tier, "model_checking", res, t0, ASSUME,
                "stateless DFS over all interleavings (no preemption bound) of k RegisterBidirectional calls and m ReloadSubnets calls on the real RegProcessor with modelled RWMutex; scenario name = request kinds/reload count; distinct_nontrivial = distinct observable outcomes (verdict + which subnet set each address came from)",
                seed=seed)


def replay(path):
    w = build()
    out = vlib.run_worker(w, ["-replay", path], 120)
    if "error" in out:
        raise vlib.HarnessError(out["error"])
    r = out["results"][0]
    print(out.get("stderr", ""))
    if r.get("violations"):
        print("VIOLATION property=%s replay=%s" % (PID, path))
        sys.exit(1)
    print("replay: no violation")
    sys.exit(0)
