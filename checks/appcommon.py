"""Shared build for the checks that drive cmd/application's real connection handler."""
import vlib

REWRITES = [("cmd/application/conns.go", ["-swap", "time=vtime", "-swap", "math/rand=vrand"]),
            ("pkg/station/lib/proxies.go", ["-swap", "time=vtime", "-swap", "sync=vsync", "-swap", "net=vnet", "-go", "-chan"]),
            ("pkg/station/lib/registration.go", ["-swap", "time=vtime"]),
            # C17: the dial-the-client goroutine of the connecting transports runs under the scheduler
            ("pkg/station/lib/registration_ingest.go", ["-go"])]
INJECTS = [("harness/libacc/lib_verif.go", "pkg/station/lib/zz_verif_acc.go"),
           ("harness/app/zz_verif_main.go", "cmd/application/zz_verif_main.go"),
           ("harness/app/zz_verif_common.go", "cmd/application/zz_verif_common.go"),
           ("harness/app/zz_verif_keys.go", "cmd/application/zz_verif_keys.go"),
           ("harness/app/zz_verif_c03.go", "cmd/application/zz_verif_c03.go"),
           ("harness/app/zz_verif_c04.go", "cmd/application/zz_verif_c04.go"),
           ("harness/app/zz_verif_c17.go", "cmd/application/zz_verif_c17.go"),
           ("harness/app/zz_verif_c17b.go", "cmd/application/zz_verif_c17b.go")]


def build():
    import os
    return vlib.build("app", REWRITES, INJECTS, ".", cwd=os.path.join(vlib.REPO, "cmd", "application"))
