"""C02 - only proof of a validated registration's secret on that phantom opens a tunnel."""
import sys
import vlib

PID = "C02"
REWRITES = [("pkg/station/lib/registration.go", ["-swap", "time=vtime"]),
            ("pkg/station/lib/registration_ingest.go", ["-swap", "time=vtime"])]
INJECTS = [("harness/libacc/lib_verif.go", "pkg/station/lib/zz_verif_acc.go"),
           ("harness/c02/main/main.go", "internal/zzverif_c02/main.go")]
ASSUME = ["registry alphabet: 8 registration identities over secrets {s1,s2} x {min, prefix id 1, prefix id 4, obfs4} x 2 phantoms (placed by registrar override); expire = advance 11 min + sweep (expiry is defined at sweeps, as in C08)",
          "probe menu per state: genuine first flights of 8 (secret, transport, prefix) combinations produced by the real client code, each also extended by one byte, truncated by one byte and with one bit flipped per structural region, plus 8 pseudo-random blobs of threshold lengths; every probe is offered to the real WrapConnection of every wrapping transport on both phantoms",
          "an extended flight (intact tag followed by data) may be accepted, but only by the entitled registration; obfs4 flights carry upstream randomness (padding) and an epoch-hour MAC, so they are regenerated per run"]


def build():
    return vlib.build("c02", REWRITES, INJECTS, "./internal/zzverif_c02")


def run(tier, seed, t0):
    w = build()
    budget = 1500 if tier == "thorough" else 200
    n = 17
    args = [["-tier", tier, "-budget", str(budget), "-shard", str(i), "-shards", str(n)] for i in range(n)]
    res = vlib.run_workers(w, args, timeout=budget + 180)
    vlib.finish(PID, tier, "model_checking", res, t0, ASSUME,
                "breadth-first search (depth 4 quick / 6 thorough) over histories of {track, validate} x 8 registration identities + expire on a fresh real RegistrationManager per history; in every newly discovered state the whole probe menu is run through the real WrapConnection of min, prefix and obfs4 on both phantoms; reference registry: a probe may be accepted only if it is an unaltered (or merely extended) genuine flight whose secret, transport and prefix id are registered, validated and unexpired on that phantom, and only by that registration object; a genuine flight of a validated registration must be accepted; states sharded by first operation",
                seed=seed)


def replay(path):
    import json
    w = build()
    tier = json.load(open(path)).get("tier", "quick")
    out = vlib.run_worker(w, ["-replay", path, "-tier", tier], 600)
    if "error" in out:
        raise vlib.HarnessError(out["error"])
    vs = out["results"][0].get("violations") or []
    for v in vs:
        print("  key=%s: %s" % (v["key"], v["what"][:400]))
    if vs:
        print("VIOLATION property=%s replay=%s" % (PID, path))
        sys.exit(1)
    print("replay: no violation")
    sys.exit(0)
