"""C18 - cached liveness verdicts are never stale or flipped, and the cache is bounded."""
import json
import sys
import vlib

PID = "C18"
SW = ["-swap", "time=vtime", "-swap", "sync=vsync", "-swap", "github.com/hashicorp/golang-lru=vlru"]
REWRITES = [("pkg/station/liveness/cached.go", SW), ("pkg/station/liveness/cache_map.go", SW), ("pkg/station/liveness/cache_lru.go", SW)]
INJECTS = [("harness/c18/liveness_verif.go", "pkg/station/liveness/zz_verif_c18.go"),
           ("harness/c18/main/main.go", "internal/zzverif_c18/main.go")]
CONFS = ["both-map", "live-only-map", "nonlive-only-map", "both-lru1", "both-lru2", "lru-live2-non1", "nonlive-cap-only", "live-cap-only", "nonlive-only-lru1", "live-only-lru1", "equal-lifetimes-lru1", "zero-nonlive-map", "zero-live-lru1", "negative-nonlive-lru1"]
CONC = ["conc:both-lru1:a+,b-|b+,a-|clear", "conc:both-lru1:a-,b-|b-,a-", "conc:both-map:a+,a-|a-,a+|clear", "conc:both-lru1:a-,sleep31m,a+|sleep31m,a-|sleep31m,clear",
        "conc:both-lru2:a-,b-,c-|c-,a-", "conc:equal-lifetimes-lru1:a+,b+|b-,a-|clear"]
ASSUME = ["virtual clock through the vtime rewrite of cached.go/cache_map.go/cache_lru.go; lifetimes 2h (live) and 30m (non-live) approached to 1 s and crossed by 1 s",
          "oracle derived from the probe history, not from a second cache; capacity checked after every completed operation (sequential) and at quiescence (concurrent)",
          "concurrent part: scheduling points at modelled locks, at every call into golang-lru (vlru) and at the probe; preemption bound 2 (quick) / 3 (thorough)"]


def build():
    return vlib.build("c18", REWRITES, INJECTS, "./internal/zzverif_c18")


def run(tier, seed, t0):
    w = build()
    budget = 900 if tier == "thorough" else 100
    args = [["-scenario", "bfs:" + c, "-tier", tier, "-budget", str(budget)] for c in CONFS]
    args += [["-scenario", c, "-tier", tier, "-budget", str(budget)] for c in CONC]
    res = vlib.run_workers(w, args, timeout=budget + 120)
    # adjunct: the same cache, nothing rewritten, free-running under the Go race detector (a deleted or narrowed lock is
    # invisible to a cooperative scheduler: between two scheduling points a thread runs atomically)
    res += vlib.race_pass("c18race", INJECTS, "./internal/zzverif_c18", ["race:map", "race:lru1", "race:lru-live2-non1"] + (["race:lru2"] if tier == "thorough" else []),
                          budget=240 if tier == "thorough" else 24)
    vlib.finish(PID, tier, "model_checking", res, t0, ASSUME,
                "BFS over histories of {query(addr) with scripted probe verdict, advance, ClearExpired} per cache configuration on a fresh real CachedLivenessTester built by liveness.New; each answer checked against the probe history (fresh, unflipped, exactly one probe otherwise) and each cache's Len against its configured capacity; plus stateless DFS over interleavings of concurrent queries and clean-ups",
                seed=seed)


def replay(path):
    w = build()
    out = vlib.run_worker(w, ["-replay", path], 300)
    if "error" in out:
        raise vlib.HarnessError(out["error"])
    if out["results"][0].get("violations"):
        print("VIOLATION property=%s replay=%s" % (PID, path))
        print("  " + out["results"][0]["violations"][0]["what"])
        sys.exit(1)
    print("replay: no violation")
    sys.exit(0)
