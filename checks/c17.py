"""C17 - client addresses never reach the station's logs unless logging them is enabled."""
import sys
import vlib
from checks import appcommon

PID = "C17"
ASSUME = ["logClientIP=false and error log level (main()'s defaults); captured: everything written to stdout/stderr by the handler's and relay's loggers (incl. the 'proxy closed' tunnel summary) plus the connection-manager and proxy statistics modules' reports",
          "errors are injected at scripted-connection call sites with both endpoints filled in exactly as the runtime fills *net.OpError; the covert address and the phantom address are allowed to appear",
          "searched forms: dotted quad, ::ffff: form, canonical / expanded / upper-case IPv6, raw address bytes in hex"]


def run(tier, seed, t0):
    w = appcommon.build()
    budget = 900 if tier == "thorough" else 150
    n = 16
    args = [["-tier", tier, "-budget", str(budget), "-seed", str(seed), "-shard", str(i), "-shards", str(n)] for i in range(n)]
    res = vlib.run_workers(w, args, timeout=budget + 180, env={"VERIF_WORKER": "c17"})
    vlib.finish(PID, tier, "fault_enumeration", res, t0, ASSUME,
                "error shape (12 errnos x {bare, os.SyscallError, *net.OpError with both endpoints, fmt.Errorf-wrapped OpError} + io.EOF, io.ErrUnexpectedEOF, net.ErrClosed, deadline, timeout, custom error embedding the endpoints, errors.Join) x I/O call site (client/covert Read, Write, SetDeadline, Close by call index; dial) x classification outcome {found -> relay, no registration, no transport left, transport error} x client address {IPv4, IPv6, v4-mapped}; non-trivial = injected call reached and output produced",
                seed=seed)


def replay(path):
    w = appcommon.build()
    import json
    tier = json.load(open(path)).get("tier", "quick")  # the enumeration (strides, pacing pattern) depends on the tier
    out = vlib.run_worker(w, ["-replay", path, "-tier", tier], 900, env={"VERIF_WORKER": "c17"})
    if "error" in out:
        raise vlib.HarnessError(out["error"])
    r = out["results"][0]
    vs = r.get("violations") or []
    for v in vs:
        print("  key=%s: %s" % (v["key"], v["what"][:400]))
    if r.get("evaluations", 0) < 1:
        raise vlib.HarnessError("replay: the recorded case was not found in the enumeration (%d cases ran)" % r.get("evaluations", 0))
    if vs:
        print("VIOLATION property=%s replay=%s" % (PID, path))
        sys.exit(1)
    print("replay: no violation")
    sys.exit(0)
