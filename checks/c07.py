"""C07 - a registration becomes usable only when every admission condition holds."""
import sys
import vlib

PID = "C07"
REWRITES = [("pkg/station/lib/registration_config.go", ["-swap", "net=vnet"]),
            ("pkg/station/lib/registration_ingest.go", ["-swap", "net/http=vhttp", "-go"])]
INJECTS = [("harness/libacc/lib_verif.go", "pkg/station/lib/zz_verif_acc.go"),
           ("harness/c07/main/main.go", "internal/zzverif_c07/main.go")]
ASSUME = ["one message per case on a fresh manager (duplicates and histories are C08/C09); wrapping transports only (min and prefix enabled, obfs4 known-but-not-enabled, 99 unknown); DTLS admission is not enumerated because its Connect side effect needs a live listener",
          "the share goroutine runs inline (go statement rewritten) and posts to a recording seam; detector announcements captured by replacing the two closures; resolver scripted",
          "readings: a dual-stack message is parsed all-or-nothing; a probe is allowed for a Detector-sourced registration whose phantom is blocklisted locally (the code probes before that check on purpose); an absent registrant address counts as not IPv4; a registration without shared secret is incomplete"]


def build():
    return vlib.build("c07", REWRITES, INJECTS, "./internal/zzverif_c07")


def run(tier, seed, t0):
    w = build()
    budget = 1500 if tier == "thorough" else 150
    n = 16
    args = [["-tier", tier, "-budget", str(budget), "-shard", str(i), "-shards", str(n)] for i in range(n)]
    res = vlib.run_workers(w, args, timeout=budget + 120)
    vlib.finish(PID, tier, "exploration", res, t0, ASSUME,
                "full product of the admission decision table: secret x payload x transport x generation x (v4,v6) support x registrant address form x covert x source x prescanned flag x libver x station {v4, v6, phantom blocklist, share} x liveness verdict, each through the real parseRegMessage+ingestRegistration on a fresh manager; reference predicate decides admit / probe allowed / share allowed per family; non-trivial = a registration became usable",
                seed=seed)


def replay(path):
    vlib.replay_enum(PID, build(), path, env=None)
