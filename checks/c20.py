"""C20 - the client's stored ClientConf is replaced atomically (fault enumeration under strace)."""
import concurrent.futures as cf
import json
import os
import re
import shutil
import subprocess
import sys
import time
import vlib

PID = "C20"
INJECTS = [("harness/c20/main/main.go", "internal/zzverif_c20/main.go")]
TRACE = "openat,write,pwrite64,writev,fsync,fdatasync,close,rename,renameat,renameat2,unlink,unlinkat,ftruncate,link,linkat,symlinkat,faccessat,faccessat2,access,mkdirat,fchmod,fchmodat,chmod"
FILESYS = {"openat", "write", "pwrite64", "writev", "fsync", "fdatasync", "close", "rename", "renameat", "renameat2", "unlink", "unlinkat", "ftruncate", "link", "linkat", "symlinkat", "mkdirat", "fchmod", "fchmodat", "chmod"}
ERRNOS = ["EACCES", "ENOSPC", "ENOENT", "EIO", "EDQUOT", "EROFS"]
ASSUME = ["process kill (SIGKILL injected by strace on entry of every file-related syscall of the store history = every inter-syscall crash point) and write failure (errno injected at every such syscall; RLIMIT_FSIZE for short writes); power-loss reordering is outside the statement",
          "the child pins the history to one OS thread (runtime.LockOSThread) and brackets it with marker syscalls; every injected run's strace log must show the injection at the intended (step, syscall, occurrence), otherwise the run is a harness error",
          "after each run a fresh process loads the directory with the real AssetsSetDir/readConfigs; leftover temporary files are allowed"]
LINE = re.compile(r"^(\d+)\s+(\w+)\((.*)")


def build():
    return vlib.build("c20", [], INJECTS, "./internal/zzverif_c20")


def parse_log(path):
    """Return (main tid, list of (name, argtext, marker-or-None)) for the main tid's syscalls in order."""
    lines = []
    main = None
    for raw in open(path, errors="replace"):
        m = LINE.match(raw)
        if not m:
            continue
        tid, name, rest = m.group(1), m.group(2), m.group(3)
        if main is None:
            main = tid
        mk = None
        mm = re.search(r'/verif-marker-([\w-]+)', rest)
        if mm:
            mk = mm.group(1)
        lines.append((tid, name, rest, mk))
    # history thread = the tid that issued the begin marker
    for tid, name, rest, mk in lines:
        if mk == "begin":
            main = tid
    return main, [(n, r, mk) for (t, n, r, mk) in lines if t == main]


def plan(calls):
    """From run 0: every file-related syscall between begin and end markers -> (name, absolute occurrence, step, ordinal in step)."""
    counts = {}
    out = []
    inside = False
    step = 1
    ordinal = 0
    for name, rest, mk in calls:
        counts[name] = counts.get(name, 0) + 1
        if mk == "begin":
            inside = True
            continue
        if mk == "end":
            break
        if mk and mk.startswith("step-"):
            step = int(mk[5:]) + 1
            ordinal = 0
            continue
        if inside and name in FILESYS:
            ordinal += 1
            out.append({"name": name, "when": counts[name], "step": step, "ord": ordinal, "text": rest[:80]})
    return out


def locate(calls, target_name, when):
    """Coordinates (step, ordinal) of the when-th call of target_name in this run's log."""
    counts = {}
    inside = False
    step = 1
    ordinal = 0
    for name, rest, mk in calls:
        counts[name] = counts.get(name, 0) + 1
        if mk == "begin":
            inside = True
            continue
        if mk and mk.startswith("step-"):
            step = int(mk[5:]) + 1
            ordinal = 0
            continue
        if inside and name in FILESYS:
            ordinal += 1
        if name == target_name and counts[name] == when:
            return (step, ordinal) if inside else None
    return None


def one_run(w, work, idx, inject=None, fsize=None, only=None, cont=False, post=False):
    d = os.path.join(work, "run%d" % idx)
    shutil.rmtree(d, ignore_errors=True)
    os.makedirs(os.path.join(d, "assets"))
    subprocess.check_call([w, "init", os.path.join(d, "assets")])
    log = os.path.join(d, "strace.log")
    res = os.path.join(d, "result.txt")
    cmd = ["strace", "-f", "-o", log, "-e", "trace=" + TRACE]
    if inject:
        cmd += ["-e", "inject=" + inject]
    cmd += [w, "child", os.path.join(d, "assets"), res]
    env = dict(os.environ)
    env["GOMAXPROCS"] = "1"
    if fsize is not None:
        env["VERIF_FSIZE"] = str(fsize)
    if only is not None:
        env["VERIF_ONLY_STEP"] = str(only)
    if cont:
        env["VERIF_CONTINUE"] = "1"
    p = subprocess.run(cmd, env=env, stdout=subprocess.PIPE, stderr=subprocess.PIPE, text=True, errors="replace", timeout=120)
    rd = subprocess.run([w, "read", os.path.join(d, "assets")], stdout=subprocess.PIPE, stderr=subprocess.PIPE, text=True, errors="replace", timeout=60)
    post_out = None
    if post:
        # crash recovery: a fresh process loads the directory and performs one small healthy store
        ps = subprocess.run([w, "poststore", os.path.join(d, "assets")], stdout=subprocess.PIPE, stderr=subprocess.PIPE, text=True, errors="replace", timeout=60)
        rd2 = subprocess.run([w, "read", os.path.join(d, "assets")], stdout=subprocess.PIPE, stderr=subprocess.PIPE, text=True, errors="replace", timeout=60)
        post_out = (ps.stdout.strip().splitlines() or ["POST-NOTHING"])[-1], (rd2.stdout.strip().splitlines() or ["READ-NOTHING"])[-1]
    steps = []
    if os.path.exists(res):
        steps = [l.split() for l in open(res).read().splitlines() if l.startswith("STEP")]
    main, calls = parse_log(log)
    out = {"rc": p.returncode, "read": rd.stdout.strip().splitlines()[-1] if rd.stdout.strip() else "READ-NOTHING " + rd.stderr[-200:], "steps": steps, "calls": calls, "dir": d, "post": post_out}
    return out


def run(tier, seed, t0):
    w = build()
    work = os.path.join(vlib.WORK, "c20", "runs")
    shutil.rmtree(work, ignore_errors=True)
    os.makedirs(work)
    dg = subprocess.check_output([w, "digests"], text=True).splitlines()
    digests = [l.split()[-2] if l.split()[-1] in ("true", "false") else l.split()[-1] for l in dg]  # index = state after step i
    base = one_run(w, work, 0)
    if base["rc"] != 0 or len(base["steps"]) != len(digests) - 1 or not base["read"].startswith("READ-OK " + digests[-1]):
        raise vlib.HarnessError("C20 baseline run (no fault) did not complete the history: rc=%s read=%s steps=%d" % (base["rc"], base["read"], len(base["steps"])))
    pl = plan(base["calls"])
    if len(pl) < 10:
        raise vlib.HarnessError("C20: strace log of the baseline run holds only %d file syscalls between the markers" % len(pl))
    jobs = []
    for c in pl:
        jobs.append(("kill", c, "%s:signal=SIGKILL:when=%d" % (c["name"], c["when"]), None))
    errnos = ERRNOS if tier == "thorough" else ERRNOS[:4]
    for c in pl:
        for e in errnos:
            jobs.append(("error:" + e, c, "%s:error=%s:when=%d" % (c["name"], e, c["when"]), None))
    # a fault that persists (read-only or full file system, vanished directory): the same call keeps failing from
    # that occurrence on, so a retry inside the store fails as well
    for c in pl:
        if c["name"] not in ("rename", "renameat", "renameat2", "unlinkat", "unlink", "linkat", "fsync", "fdatasync", "fchmod", "fchmodat", "mkdirat"):
            continue  # (open / write / close are also what the child uses to report its own steps)
        for e in errnos[:2]:
            jobs.append(("error:" + e + ":from-here", c, "%s:error=%s:when=%d+" % (c["name"], e, c["when"]), None))
    # torn writes: file size limit during the history (short write, then EFBIG), alone and followed by a kill at the next calls
    sizes = [1, 100, 4095, 4096, 4097, 2000000, 4000000]
    for L in sizes:
        jobs.append(("fsize:%d" % L, None, None, L))
    if tier == "thorough":
        for L in sizes:
            for c in pl:
                if c["name"] in ("close", "rename", "renameat", "renameat2", "unlinkat", "openat"):
                    jobs.append(("fsize:%d+kill" % L, c, "%s:signal=SIGKILL:when=%d" % (c["name"], c["when"]), L))
    results = []
    viols = []
    samples = []
    harness_errors = []
    nontrivial = set()

    # fault followed by later healthy stores in the same process (history continues after the failed store)
    for c in pl:
        for e in errnos[:2]:
            jobs.append(("cont-error:" + e, c, "%s:error=%s:when=%d" % (c["name"], e, c["when"]), None))
    for L in sizes:
        jobs.append(("cont-fsize:%d" % L, None, None, L))

    def do(i_job):
        i, (kind, c, inj, L) = i_job
        return i, kind, c, one_run(w, work, i + 1, inject=inj, fsize=L, cont=kind.startswith("cont-"), post=(kind == "kill" or kind.endswith("+kill")))

    with cf.ThreadPoolExecutor(max_workers=vlib.NCPU) as ex:
        for i, kind, c, r in ex.map(do, list(enumerate(jobs))):
            results.append((kind, c, r))
            steps = r["steps"]
            done = sum(1 for s in steps if s[2] == "err=false")
            if kind.startswith("cont-"):
                # the history went on after the failed store(s): the file must hold what memory held at the last successful store
                okst = [s for s in steps if s[2] == "err=false"]
                want = okst[-1][4][len("mem="):] if okst else digests[0]
                case = "%s%s: %d of %d stores failed, history continued" % (kind, "" if c is None else " at step %d call #%d %s" % (c["step"], c["ord"], c["name"]), len(steps) - len(okst), len(steps))
                nontrivial.add(case)
                if len(steps) - len(okst) == 0 and c is not None:
                    pass
                rd = r["read"]
                if not (rd.startswith("READ-OK") and rd.split()[1] == want):
                    viols.append({"key": "later-store-after-fault-corrupts-file:" + kind.split(":")[0], "what": "%s: a fresh process reads %s; the last successful store wrote %s" % (case, rd, want), "replay": {"case": case, "inject": jobs[i][2], "fsize": L_of(kind[5:])}})
                for f in [s for s in steps if s[2] == "err=true" and s[5] == "whole=true"]:
                    if f[4] != "mem=" + f[3][len("before="):]:
                        viols.append({"key": "failed-SetClientConf-not-rolled-back", "what": "%s: step %s" % (case, f[1]), "replay": {"case": case}})
                continue
            # which step was interrupted?
            if kind.startswith("kill") or kind.endswith("+kill"):
                if c is not None:
                    loc = locate(r["calls"], c["name"], c["when"])
                    if kind == "kill" and loc != (c["step"], c["ord"]):
                        harness_errors.append("kill injection landed at %s, planned (%d,%d) for %s#%d" % (loc, c["step"], c["ord"], c["name"], c["when"]))
                        continue
                    k = loc[0] if loc else None
                else:
                    k = None
                if r["rc"] == 0 and kind == "kill":
                    harness_errors.append("kill injection %s#%d did not kill the child" % (c["name"], c["when"]))
                    continue
                if k is None:
                    continue
                allowed = {digests[k - 1], digests[k]}
                # with a size limit an earlier step may already have failed: then the history stopped there
                if L_of(kind) is not None:
                    allowed = set(digests)
                case = "%s at step %d (%s) call #%d %s" % (kind, k, dg[k].split()[1], c["ord"], c["name"])
            else:
                # error / fsize runs: the child stops after the first failing store
                failed = [s for s in steps if s[2] == "err=true"]
                k = int(failed[0][1]) if failed else None
                if k is None:
                    allowed = {digests[done]}
                    case = "%s: no store failed (%d steps completed)" % (kind if c is None else "%s at %s#%d" % (kind, c["name"], c["ord"]), done)
                else:
                    allowed = {digests[k - 1], digests[k]}
                    case = "%s at step %d (%s)%s" % (kind, k, dg[k].split()[1], "" if c is None else " call #%d %s" % (c["ord"], c["name"]))
                    f = failed[0]
                    if f[5] == "whole=true" and f[4] != "mem=" + f[3][len("before="):]:
                        viols.append({"key": "failed-SetClientConf-not-rolled-back", "what": "%s: in-memory configuration after the failed replacement is %s, previous was %s" % (case, f[4], f[3]), "replay": {"case": case, "inject": jobs[i][2], "fsize": L_of(kind)}})
                if c is not None and kind.startswith("error"):
                    loc = locate(r["calls"], c["name"], c["when"])
                    if loc != (c["step"], c["ord"]):
                        harness_errors.append("error injection landed at %s, planned (%d,%d)" % (loc, c["step"], c["ord"]))
                        continue
            nontrivial.add(case)
            if r.get("post"):
                po, rd2 = r["post"]
                if not (po.startswith("POST-OK") and rd2.startswith("READ-OK") and rd2.split()[1] == po.split()[1]):
                    viols.append({"key": "store-after-crash-corrupts-file", "what": "%s, then a fresh process performed SetGeneration: %s; read back: %s" % (case, po, rd2), "replay": {"case": case, "inject": jobs[i][2]}})
            rd = r["read"]
            ok = rd.startswith("READ-OK") and rd.split()[1] in allowed
            if not ok:
                key = "file-unparsable-after-fault" if not rd.startswith("READ-OK") else "file-neither-old-nor-new"
                viols.append({"key": key + ":" + kind.split(":")[0], "what": "%s: a fresh process reads %s; allowed %s" % (case, rd, sorted(allowed)), "replay": {"case": case, "inject": jobs[i][2], "fsize": L_of(kind)}})
            if len(samples) < 6 and i % 37 == 0:
                samples.append({"case": case, "inject": jobs[i][2], "read_back": rd})
    if harness_errors:
        raise vlib.HarnessError("C20: %d injected runs did not hit the planned call, e.g. %s" % (len(harness_errors), harness_errors[0]))
    shutil.rmtree(work, ignore_errors=True)
    if REPLAY_CASE is not None:
        return [v for v in viols if v["replay"].get("case") == REPLAY_CASE["case"] and v["replay"].get("inject") == REPLAY_CASE.get("inject")]
    res = [{"name": "strace-fault-enumeration", "evaluations": len(jobs) + 1, "nontrivial": len(nontrivial), "exhaustive": True, "violations": viols, "samples": samples,
            "extra": {"history": [l for l in dg], "file_syscalls_in_history": len(pl), "kill_points": len(pl), "errnos": errnos, "size_limits": sizes,
                      "syscall_sequence": ["%d:%s" % (c["step"], c["name"]) for c in pl]}, "wall_s": time.time() - t0}]
    vlib.finish(PID, tier, "fault_enumeration", res, t0, ASSUME,
                "store history {SetClientConf(small), SetGeneration, SetDecoys, SetClientConf(4 MiB), SetPubkey, SetPhantomSubnets, SetClientConf} run by the real asset store in a child under strace; run 0 records every file-related syscall of the history; then one run per syscall with SIGKILL injected on entry, one per syscall x errno, and runs under a file-size limit (short write then EFBIG); after each run a fresh process loads the directory; non-trivial = distinct (fault, step, call) combinations",
                seed=seed)


def L_of(kind):
    if kind.startswith("fsize:"):
        return int(kind.split(":")[1].split("+")[0])
    return None


REPLAY_CASE = None


def replay(path):
    """the enumeration is small (a few hundred child runs): re-run it in the recorded tier and report the recorded
    case (same history step, same syscall occurrence, same injected fault) if it violates again"""
    global REPLAY_CASE
    d = json.load(open(path))
    REPLAY_CASE = d.get("replay") or {}
    vs = run(d.get("tier", "quick"), 0, time.time())
    for v in vs:
        print("  key=%s: %s" % (v["key"], v["what"][:400]))
    if vs:
        print("VIOLATION property=%s replay=%s" % (PID, path))
        sys.exit(1)
    print("replay: no violation")
    sys.exit(0)
