"""C15 - every encoder in the registration channels is inverted exactly by its decoder."""
import sys
import vlib

PID = "C15"
# the responder's per-datagram goroutine becomes a thread of the controlled scheduler in the exchange2 part (outside an
# execution the rewritten statement starts a plain goroutine, as before)
REWRITES = [("pkg/registrars/dns-registrar/responder/responder.go", ["-go"])]
INJECTS = [("harness/c15/responder_verif.go", "pkg/registrars/dns-registrar/responder/zz_verif_c15.go"),
           ("harness/c15/requester_verif.go", "pkg/registrars/dns-registrar/requester/zz_verif_c15.go"),
           ("harness/c15/main/concurrent.go", "internal/zzverif_c15/concurrent.go"),
           ("harness/c15/main/main.go", "internal/zzverif_c15/main.go")]
ASSUME = ["payload byte values are one fixed pattern per length; the enumerated dimension is length / shape / key pair, not content",
          "the full DNS exchange runs the real Requester and Responder over an in-memory packet pair (free-running goroutines; a 20 s stall is a harness error, not a verdict)",
          "exchange2: the query datagrams come from real requesters parked in their read; the responder side is explored exhaustively per scenario and the clients are then handed the responses of the first explored execution",
          "requests that cannot be represented are only checked through the real query framing (send), not through RequestAndRecv, which has no timeout of its own"]


def build():
    return vlib.build("c15", REWRITES, INJECTS, "./internal/zzverif_c15")


def run(tier, seed, t0):
    w = build()
    budget = 900 if tier == "thorough" else 120
    args = [["-scenario", s, "-tier", tier, "-budget", str(budget)] for s in ("obfuscators", "msgformat", "names", "anypb", "exchange", "exchange2")]
    args += [["-scenario", "messages", "-tier", tier, "-budget", str(budget), "-shard", str(i), "-shards", "8"] for i in range(8)]
    res = vlib.run_workers(w, args, timeout=budget + 120, env={"GOMAXPROCS": "4"})
    vlib.finish(PID, tier, "exploration", res, t0, ASSUME,
                "complete enumeration per encoder: 4 obfuscators x 4 key pairs x tag length 0..130 (+wrong key, freshness, representative high bits); length framing 0..300, 65534..65536, 70000; names of every encoded length 240..262; TXT 0..520, 65535, 65536; all DNS messages with 0-2 questions/answers/authorities and 0-1 additionals over a pool of 6 names; URL-less anypb for every field subset of the three params messages; full Requester<->Responder exchange for every representable request length x response lengths; the exchange with two (thorough: three) clients whose queries arrive back to back, all interleavings of the responder's receive loop and per-datagram handlers (stateless DFS, unbounded); non-trivial = encoder accepted the value (distinct case id)",
                seed=seed)


def replay(path):
    vlib.replay_enum(PID, build(), path, env={"GOMAXPROCS": "4"})
