#!/usr/bin/env python3
"""seedkeep.py <ID> <name> '<caught by: check + key>' : store a confirmed seeded change under /verif/seeded/<name>/ and drop the scratch worktree."""
import json, os, shutil, subprocess, sys, glob
sid, name, caught = sys.argv[1:4]
src = '/tmp/seed/' + sid
dst = '/verif/seeded/' + name
os.makedirs(dst, exist_ok=True)
shutil.copy(src + '/patch.diff', dst + '/patch.diff')
for f in glob.glob(src + '/demo*') + glob.glob(src + '/*.go'):
    if os.path.isdir(f):
        shutil.copytree(f, dst + '/' + os.path.basename(f), dirs_exist_ok=True)
    else:
        shutil.copy(f, dst + '/' + os.path.basename(f))
m = json.load(open(src + '/meta.json'))
m['confirmed'] = "demo fails with the patch and passes without it; existing tests of the touched packages pass with the patch (re-run by the maintainer of /verif in the scratch worktree)"
m['caught_by'] = caught
m['ran'] = "git -C /repo apply seeded/%s/patch.diff; ./vcheck %s; git -C /repo checkout -- ." % (name, name.split('-')[0])
json.dump(m, open(dst + '/meta.json', 'w'), indent=1)
subprocess.call(['git', '-C', '/repo', 'worktree', 'remove', '--force', src + '/repo'])
shutil.rmtree(src, ignore_errors=True)
print('kept', dst)
