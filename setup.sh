#!/bin/sh
# Builds the framework tools from files on disk only and pre-warms the Go build cache.
set -e
cd /verif
export GOPROXY=off GOSUMDB=off GOTOOLCHAIN=local
unset GOFLAGS
mkdir -p .work/bin evidence replays
go build -o .work/bin/vinstr ./cmd/vinstr
# warm the cache: compile the repository packages the workers link against
(cd /repo && go build ./pkg/... ./internal/... >/dev/null 2>&1 || true)
(cd /repo/cmd/application && go build ./... >/dev/null 2>&1 || true)
echo setup ok
