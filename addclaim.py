#!/usr/bin/env python3
"""addclaim.py ID level engine 'text' 'note' 'technique'  -> updates claims.json and MANIFEST.json"""
import json, sys, subprocess
c = json.load(open('/verif/claims.json'))
i, level, engine, text, note, tech = sys.argv[1:7]
c[i] = dict(level=level, engine=engine, text=text, note=note, technique=tech, design_ref="DESIGN.md section 3 " + i)
json.dump(c, open('/verif/claims.json', 'w'), indent=1)
subprocess.check_call(['python3', '/verif/manifest_gen.py'], cwd='/verif')
