#!/bin/sh
# seedproc.sh <SID> <check> "<go test package patterns>" [app]: demo with/without, existing tests with the patch, then the check (isolated).
SID=$1; CHK=$2; PK=$3
export GOPROXY=off GOSUMDB=off GOTOOLCHAIN=local
L=/tmp/seed/$SID/proc.log
{
echo "## verify"; /verif/seedverify.sh $SID 2>&1 | grep "rc="
echo "## existing tests (patch applied)"
(cd /tmp/seed/$SID/repo && git status --short | head -3 && timeout 1500 go test -count=1 $PK 2>&1 | grep -E "^(--- FAIL|FAIL|ok|panic)" | head -20)
[ -n "$4" ] && (cd /tmp/seed/$SID/repo/cmd/application && timeout 900 go test -count=1 . 2>&1 | tail -1)
echo "## check $CHK"; /verif/seedtest2.sh $SID $CHK
} > $L 2>&1
echo "== $SID"; cat $L
